/*
 * sched — preemption-bounded exploration of thread interleavings of clones running one shared executable.
 *
 *   sched explore <prog> <nthreads> <bound> [maxruns]   depth-first over choice sequences (iterative context bounding)
 *   sched replay  <prog> <nthreads> <c0,c1,...>         one schedule, run twice, observations printed
 *   sched seq     <prog> <nthreads>                     sequential reference
 *   sched free    <prog> <nthreads> <rounds>            free-running threads (for the ThreadSanitizer build)
 *   sched list                                          program names
 *
 * Only one thread runs at a time; control changes hands only at BLOC_VERIF_POINTs (statement entry, null node,
 * random generator, error text buffer, C API last-error record, object reference counts) and at the harness's
 * own point before a failed thread reads bloc_errno/bloc_strerror. Each execution runs in a forked child.
 */
#include "vcommon.h"

#include <blocc/bloc_capi.h>
#include <blocc/parser.h>
#include <blocc/string_reader.h>
#include <blocc/verif_hook.h>
#include <blocc/exception_parse.h>
#include <blocc/plugin_manager.h>

#include <condition_variable>
#include <mutex>
#include <thread>
#include <vector>
#include <string>
#include <cstring>
#include <cstdlib>
#include <unistd.h>
#include <fcntl.h>
#include <signal.h>
#include <sys/mman.h>
#include <sys/wait.h>
#include <sys/time.h>

#define VP_HARNESS_READERR 100
#define VP_HARNESS_START   101

struct Prog { const char * name; const char * prelude; const char * text; };

static const Prog PROGS[] = {
  { "recursion",
    "function fact(n) return integer is begin if n <= 1 then return 1; end if; return n * fact(n - 1); end;\nk = 0;",
    "r = fact(3 + k); print r;" },
  { "table-forall",
    "k = 0; t = tab(2, 1);",
    "forall e in t loop e = e + k; end loop; t.concat(k); print t.count() t.at(0) t.at(2);" },
  { "null-logic",
    "k = 0; x = null;",
    "for i in 1 to 2 loop x = null or (i == k); print x; end loop; print isnull(null) (null and false);" },
  { "handled-error",
    "k = 0; x = 0;",
    "begin x = 1 / (k - k); exception when divide_by_zero then print \"dz\" error@1 k; end; print \"after\" k;" },
  { "unhandled-error",
    "k = 0;",
    "print \"before\" k; if k == 1 then raise e_one; end if; if k == 2 then raise e_two; end if; raise e_other;" },
  { "nested-handlers",
    "k = 0; function fr(a) return integer is begin if a == 1 then raise in_one; end if; raise in_other; return 0; end;",
    "begin begin x = fr(k); exception when in_one then print \"one\" error@1; raise again; end; exception when others then print \"outer\" error@1 error@2; end;" },
  { "strings",
    "k = 0; s = \"a\";",
    "for i in 1 to 2 loop s.concat(str(k)); end loop; print s upper(s) s.count();" },
  { "literals",
    "k = 0;",
    "x = 1 + 2 * 3; y = \"lit\" + str(k); z = 2.5 * 2; b = true and not false; print x y z b;" },
  { "function-locals",
    "k = 0; function fl(a) return integer is begin if a == 1 then x = 10; end if; if isnull(x) then return a; end if; return x + a; end;",
    "print fl(k) fl(0) fl(k);" },
  { "deep-error",
    "k = 0; function rec(n) return integer is begin if n == 0 then raise deep; end if; for q in 1 to 1 loop zz = rec(n - 1); end loop; return 1; end;",
    "n = 0; while n < 2 loop n = n + 1; begin zz = rec(k); exception when deep then print \"caught\" n k; end; end loop; print \"end\";" },
  { "random",
    "k = 0;",
    "print typeof(random()) (random(10) < 10) (random() >= 0) k;" },
  { "inherited",
    "k = 0; base = 5; name = \"nm\"; tb = tab(2, 3); rr = tup(7, \"q\");",
    "b1 = base + k; b2 = base + k; c1 = name; c2 = name + str(k); e1 = tb.at(0) + k; e2 = tb.at(0) + k; f1 = rr@2; f2 = rr@2 + \"!\"; print b1 b2 c1 c2 e1 e2 f1 f2 base name tb.at(0) rr@2;" },
  { "matches",
    "k = 0; n = 0;",
    "pat = \"^[a-\" + chr(97 + k) + \"]+$\"; for i in 1 to 2 loop if \"abc\" matches pat then n = n + 1; end if; if \"ab\" matches \"^[ab]+$\" then n = n + 10; end if; end loop; print n pat;" },
  /* several functions of one name (told apart by the number of parameters) and functions declared after them: a clone holds
   * all of them, in the places the compiled calls of the original refer to */
  { "overloads",
    "k = 0; function ov(a) return integer is begin return a + 1; end; function ov(a, b) return integer is begin return a * b + 100; end; "
    "function ov(a, b, c) return integer is begin return a - b - c; end; function zl(x) return string is begin return \"z\" + str(ov(x)); end; "
    "function ov() return integer is begin return 77; end;",
    "print ov(k) ov(k, 3) ov(9, k, 1) zl(k) ov();" },
  { "tuple-table",
    "k = 0; r = tup(1, \"a\"); tt = tab(2, tup(0, \"z\"));",
    "r.set@1(k); tt.put(0, r); forall e in tt loop e.set@2(str(k)); end loop; print r@1 tt.at(0)@1 tt.at(1)@2;" },
};
static const int NPROGS = sizeof(PROGS) / sizeof(PROGS[0]);

/* ------------------------------------------------------------------------ */
/* scheduler                                                                */
static std::mutex M;
static std::condition_variable CV;
static int g_cur = -2;                 /* thread holding the token; -1 = main */
static bool g_finished[8];
static int g_n = 0;
static bool g_sched = false;           /* scheduler active */
static std::vector<int> g_prefix;
static size_t g_pos = 0;
static bool g_diverged = false;
struct Pt { int tid, kind, nen, chosen, runen; };
static std::vector<Pt> g_trace;
static thread_local int t_id = -1;

/* caller holds M */
static int choose(int me, int kind, bool me_enabled)
{
  int en[9]; int n = 0;
  if (me_enabled) en[n++] = me;
  for (int t = 0; t < g_n; ++t)
    if (t != me && !g_finished[t]) en[n++] = t;
  if (n == 0) return -1;
  int c = 0;
  if (n > 1)
  {
    if (g_pos < g_prefix.size())
    {
      c = g_prefix[g_pos];
      if (c >= n) { g_diverged = true; c = 0; }
    }
    g_trace.push_back(Pt{me, kind, n, c, me_enabled ? 1 : 0});
    ++g_pos;
  }
  return en[c];
}

static void sched_point(int kind)
{
  if (!g_sched || t_id < 0) return;
  std::unique_lock<std::mutex> lk(M);
  int nxt = choose(t_id, kind, true);
  if (nxt != t_id)
  {
    g_cur = nxt;
    CV.notify_all();
    int me = t_id;
    CV.wait(lk, [me] { return g_cur == me; });
  }
}

static void point_cb(int kind, const void *) { sched_point(kind); }

static void thread_start(int id)
{
  t_id = id;
  if (!g_sched) return;
  std::unique_lock<std::mutex> lk(M);
  CV.wait(lk, [id] { return g_cur == id; });
}

static void thread_finish()
{
  if (!g_sched) return;
  std::unique_lock<std::mutex> lk(M);
  g_finished[t_id] = true;
  g_cur = choose(t_id, 0, false);
  CV.notify_all();
}

/* ------------------------------------------------------------------------ */
struct Obs { int ok = -1; int err_no = 0; std::string err; std::string out; std::string dump; };

static std::string read_fd(int fd)
{
  std::string o;
  off_t end = lseek(fd, 0, SEEK_END);
  if (end <= 0) return o;
  o.resize(end);
  if (pread(fd, &o[0], end, 0) != end) o.clear();
  return o;
}

static std::string dump_ctx(Context& ctx)
{
  std::string d;
  size_t n = ctx.verifSymbolCount();
  for (size_t i = 0; i < n; ++i)
  {
    Symbol& s = ctx.getSymbol((unsigned)i);
    d += s.name() + "=";
    dump_value(d, ctx.loadVariable(s.id()));
    d += ";";
  }
  return d;
}

/* one execution in this process; returns a JSON line */
static std::string run_once(const Prog& p, int n, int mode /* 0 seq, 1 scheduled, 2 free */, int rounds = 1)
{
  int fdo = memfd_create("o", 0), fde = memfd_create("e", 0);
  bloc_context * orig = bloc_create_context(fdo, fde);
  std::string out;
  bloc_executable * pre = bloc_parse_executable(orig, p.prelude, nullptr);
  if (!pre || !bloc_execute(pre)) return "{\"fatal\":\"prelude\"}";
  bloc_free_executable(pre);
  bloc_executable * exe = bloc_parse_executable(orig, p.text, nullptr);
  if (!exe) return std::string("{\"fatal\":\"parse: ") + bloc_strerror() + "\"}";
  std::string orig_before = dump_ctx(*reinterpret_cast<Context*>(orig));

  std::vector<Obs> all;
  if (mode == 3)
  {
    /* reference that does not depend on cloning: a context of its own per "thread", built from the same texts */
    for (int i = 0; i < n; ++i)
    {
      int fd = memfd_create("f", 0);
      bloc_context * fc = bloc_create_context(fd, fd);
      bloc_executable * fpre = bloc_parse_executable(fc, p.prelude, nullptr);
      if (!fpre || !bloc_execute(fpre)) return "{\"fatal\":\"prelude (fresh)\"}";
      bloc_free_executable(fpre);
      bloc_executable * fexe = bloc_parse_executable(fc, p.text, nullptr);
      if (!fexe) return "{\"fatal\":\"parse (fresh)\"}";
      Context * c = reinterpret_cast<Context*>(fc);
      Symbol * s = c->findSymbol("K");
      if (s) c->storeVariable(s->id(), Value(Integer(i + 1)));
      Obs o;
      bloc_bool ok = bloc_execute(fexe);
      o.ok = ok ? 1 : 0;
      if (!ok)
      {
        o.err_no = bloc_errno();
        const char * m = bloc_strerror();
        o.err = m ? m : "";
      }
      if (c->ctxout()) fflush(c->ctxout());
      o.out = read_fd(fd);
      o.dump = dump_ctx(*c);
      bloc_free_executable(fexe);
      bloc_free_context(fc);
      close(fd);
      all.push_back(o);
    }
    rounds = 0;
  }
  for (int round = 0; round < rounds; ++round)
  {
    std::vector<bloc_context*> clones(n);
    std::vector<int> cfd(n);
    for (int i = 0; i < n; ++i)
    {
      cfd[i] = memfd_create("c", 0);
      clones[i] = bloc_clone_context2(orig, cfd[i], cfd[i]);
      Context * c = reinterpret_cast<Context*>(clones[i]);
      Symbol * s = c->findSymbol("K");
      if (s) c->storeVariable(s->id(), Value(Integer(i + 1)));
    }
    std::vector<Obs> obs(n);
    auto body = [&](int i)
    {
      thread_start(i);
      sched_point(VP_HARNESS_START);
      bloc_bool ok = bloc_execute2(clones[i], exe);
      obs[i].ok = ok ? 1 : 0;
      if (!ok)
      {
        sched_point(VP_HARNESS_READERR);
        obs[i].err_no = bloc_errno();
        sched_point(VP_HARNESS_READERR);
        const char * m = bloc_strerror();
        obs[i].err = m ? m : "";
      }
      thread_finish();
    };
    if (mode == 0)
    {
      for (int i = 0; i < n; ++i) { t_id = -1; g_sched = false; body(i); }
    }
    else
    {
      g_sched = (mode == 1);
      g_n = n;
      for (int i = 0; i < n; ++i) g_finished[i] = false;
      g_cur = -1;
      std::vector<std::thread> th;
      for (int i = 0; i < n; ++i) th.emplace_back(body, i);
      if (g_sched)
      {
        std::unique_lock<std::mutex> lk(M);
        g_cur = choose(-1, VP_HARNESS_START, false);
        CV.notify_all();
      }
      for (auto& t : th) t.join();
      g_sched = false;
    }
    for (int i = 0; i < n; ++i)
    {
      Context * c = reinterpret_cast<Context*>(clones[i]);
      if (c->ctxout()) fflush(c->ctxout());
      obs[i].out = read_fd(cfd[i]);
      obs[i].dump = dump_ctx(*c);
      bloc_free_context(clones[i]);
      close(cfd[i]);
    }
    all = obs;
  }
  std::string orig_after = dump_ctx(*reinterpret_cast<Context*>(orig));
  bloc_free_executable(exe);
  bloc_free_context(orig);
  close(fdo); close(fde);

  out = "{\"obs\":[";
  for (size_t i = 0; i < all.size(); ++i)
  {
    if (i) out += ",";
    out += "{\"ok\":" + std::to_string(all[i].ok) + ",\"errno\":" + std::to_string(all[i].err_no) + ",\"err\":" + jstr(all[i].err)
        + ",\"out\":" + jstr(all[i].out) + ",\"dump\":" + jstr(all[i].dump) + "}";
  }
  out += "],\"orig_unchanged\":" + std::string(orig_before == orig_after ? "1" : "0");
  out += ",\"diverged\":" + std::string(g_diverged ? "1" : "0");
  out += ",\"trace\":[";
  for (size_t i = 0; i < g_trace.size(); ++i)
  {
    if (i) out += ",";
    out += "[" + std::to_string(g_trace[i].tid) + "," + std::to_string(g_trace[i].kind) + "," + std::to_string(g_trace[i].nen) + ","
        + std::to_string(g_trace[i].chosen) + "," + std::to_string(g_trace[i].runen) + "]";
  }
  out += "]}";
  return out;
}

/* ------------------------------------------------------------------------ */
/* explorer (parent): each schedule in a forked child                       */
struct Exec { std::string json; std::vector<Pt> trace; std::string obs; int status = 0; bool ok = false; };

static std::string between(const std::string& s, const std::string& a, const std::string& b)
{
  size_t i = s.find(a);
  if (i == std::string::npos) return "";
  i += a.size();
  size_t j = s.find(b, i);
  return s.substr(i, j == std::string::npos ? std::string::npos : j - i);
}

static Exec run_child(const Prog& p, int n, int mode, const std::vector<int>& prefix)
{
  Exec x;
  int pfd[2];
  if (pipe(pfd)) { perror("pipe"); exit(2); }
  int efd = memfd_create("err", 0);
  fflush(stdout);
  pid_t pid = fork();
  if (pid == 0)
  {
    close(pfd[0]);
    dup2(efd, 2);
    alarm(20);
    g_prefix = prefix;
    bloc_verif_point_cb = &point_cb;
    std::string j = run_once(p, n, mode);
    j.push_back('\n');
    if (write(pfd[1], j.data(), j.size()) < 0) _exit(3);
    _exit(0);
  }
  close(pfd[1]);
  char buf[65536]; ssize_t r;
  while ((r = read(pfd[0], buf, sizeof(buf))) > 0) x.json.append(buf, r);
  close(pfd[0]);
  waitpid(pid, &x.status, 0);
  if (!WIFEXITED(x.status) || WEXITSTATUS(x.status) != 0 || x.json.empty())
  {
    std::string err = read_fd(efd);
    if (err.size() > 3000) err = err.substr(0, 3000);
    x.json = "{\"crash\":" + std::to_string(x.status) + ",\"stderr\":" + jstr(err) + "}";
    close(efd);
    return x;
  }
  close(efd);
  x.ok = true;
  /* parse the trace */
  std::string t = between(x.json, "\"trace\":[", "]}");
  size_t i = 0;
  while (i < t.size())
  {
    size_t a = t.find('[', i);
    if (a == std::string::npos) break;
    size_t b = t.find(']', a);
    Pt q{0, 0, 0, 0, 0};
    sscanf(t.c_str() + a, "[%d,%d,%d,%d,%d]", &q.tid, &q.kind, &q.nen, &q.chosen, &q.runen);
    x.trace.push_back(q);
    i = b + 1;
  }
  x.obs = between(x.json, "{\"obs\":", ",\"diverged\"");
  return x;
}

struct Stats { long runs = 0; long violations = 0; long maxpoints = 0; long transitions = 0; std::vector<std::string> distinct; long capped = 0; };

static void report_violation(const char * what, const std::vector<int>& choices, const Exec& x, const std::string& ref)
{
  std::string c;
  for (size_t i = 0; i < choices.size(); ++i) { if (i) c += ","; c += std::to_string(choices[i]); }
  printf("{\"violation\":%s,\"schedule\":\"%s\",\"observed\":%s,\"expected\":%s}\n", jstr(what).c_str(), c.c_str(),
         x.ok ? ("{\"obs\":" + x.obs + "}").c_str() : x.json.c_str(), ("{\"obs\":" + ref + "}").c_str());
  fflush(stdout);
}

static void explore(const Prog& p, int n, int bound, long maxruns, const std::vector<int>& prefix, const std::vector<Pt>& parent_trace,
                    const std::string& ref, Stats& st)
{
  if (st.runs >= maxruns) { st.capped = 1; return; }
  Exec x = run_child(p, n, 1, prefix);
  st.runs++;
  if (!x.ok)
  {
    st.violations++;
    report_violation("crash", prefix, x, ref);
    return;
  }
  st.transitions += (long)x.trace.size();
  if ((long)x.trace.size() > st.maxpoints) st.maxpoints = (long)x.trace.size();
  /* replay of the prefix must not diverge */
  bool div = x.json.find("\"diverged\":1") != std::string::npos;
  for (size_t i = 0; i < prefix.size() && i < parent_trace.size() && i < x.trace.size() && !div; ++i)
    if ((x.trace[i].tid != parent_trace[i].tid || x.trace[i].kind != parent_trace[i].kind || x.trace[i].nen != parent_trace[i].nen))
      div = true;
  if (div)
  {
    st.violations++;
    report_violation("replay-divergence", prefix, x, ref);
    return;
  }
  bool known = false;
  for (auto& d : st.distinct) if (d == x.obs) { known = true; break; }
  if (!known) st.distinct.push_back(x.obs);
  std::string obs_cmp = x.obs;
  if (obs_cmp != ref || x.json.find("\"orig_unchanged\":1") == std::string::npos)
  {
    st.violations++;
    std::vector<int> full;
    for (auto& q : x.trace) full.push_back(q.chosen);
    report_violation(x.json.find("\"orig_unchanged\":1") == std::string::npos ? "original-changed" : "observations-differ", full, x, ref);
    if (st.violations > 20) { st.capped = 1; return; }
  }
  /* alternatives */
  std::vector<int> choices;
  for (auto& q : x.trace) choices.push_back(q.chosen);
  for (size_t i = prefix.size(); i < x.trace.size(); ++i)
  {
    int cost = 0;
    for (size_t k = 0; k < i; ++k) if (x.trace[k].chosen != 0 && x.trace[k].runen) cost++;
    if (x.trace[i].runen) cost++;
    if (cost > bound) continue;
    for (int alt = 1; alt < x.trace[i].nen; ++alt)
    {
      std::vector<int> np(choices.begin(), choices.begin() + i);
      np.push_back(alt);
      explore(p, n, bound, maxruns, np, x.trace, ref, st);
      if (st.capped && st.violations > 20) return;
    }
  }
}

/* "@<file>": a program given by the caller; the file holds the prelude, a line "%%", then the text */
static std::string g_file_prelude, g_file_text;
static Prog g_file_prog = { "@file", nullptr, nullptr };

static const Prog * find_prog(const char * name)
{
  if (name[0] == '@')
  {
    FILE * f = fopen(name + 1, "rb");
    if (!f) return nullptr;
    std::string all; char buf[4096]; size_t r;
    while ((r = fread(buf, 1, sizeof(buf), f)) > 0) all.append(buf, r);
    fclose(f);
    size_t sep = all.find("\n%%\n");
    if (sep == std::string::npos) return nullptr;
    g_file_prelude = all.substr(0, sep);
    g_file_text = all.substr(sep + 4);
    g_file_prog.prelude = g_file_prelude.c_str();
    g_file_prog.text = g_file_text.c_str();
    return &g_file_prog;
  }
  for (int i = 0; i < NPROGS; ++i) if (strcmp(PROGS[i].name, name) == 0) return &PROGS[i];
  return nullptr;
}

int main(int argc, char ** argv)
{
  if (argc >= 2 && strcmp(argv[1], "list") == 0)
  {
    for (int i = 0; i < NPROGS; ++i) printf("%s\n", PROGS[i].name);
    return 0;
  }
  if (argc < 4) { fprintf(stderr, "usage: sched explore|replay|seq|fresh|free <prog> <nthreads> ...\n"); return 2; }
  const Prog * p = find_prog(argv[2]);
  if (!p) { fprintf(stderr, "unknown program %s\n", argv[2]); return 2; }
  /* modules the host grants to its (untrusted) contexts: SCHED_UNBAN=name,name */
  if (const char * ub = getenv("SCHED_UNBAN"))
  {
    std::string names(ub);
    size_t b = 0;
    while (b <= names.size())
    {
      size_t e = names.find(',', b);
      if (e == std::string::npos) e = names.size();
      if (e > b) bloc::PluginManager::instance().unbanPlugin(names.substr(b, e - b));
      b = e + 1;
    }
  }
  int n = atoi(argv[3]);
  std::string cmd = argv[1];
  if (cmd == "seq")
  {
    Exec r = run_child(*p, n, 0, {});
    printf("%s", r.json.c_str());
    return r.ok ? 0 : 1;
  }
  if (cmd == "fresh")
  {
    Exec r = run_child(*p, n, 3, {});
    printf("%s", r.json.c_str());
    return r.ok ? 0 : 1;
  }
  if (cmd == "free")
  {
    int rounds = argc > 4 ? atoi(argv[4]) : 1;
    bloc_verif_point_cb = nullptr;
    std::string j = run_once(*p, n, 2, rounds);
    printf("%s\n", j.c_str());
    return 0;
  }
  if (cmd == "replay")
  {
    std::vector<int> pre;
    if (argc > 4)
    {
      char * s = argv[4];
      while (*s) { pre.push_back(atoi(s)); while (*s && *s != ',') ++s; if (*s == ',') ++s; }
    }
    Exec ref = run_child(*p, n, 0, {});
    Exec a = run_child(*p, n, 1, pre), b = run_child(*p, n, 1, pre);
    printf("{\"reference\":%s,\"run1\":%s,\"run2\":%s,\"deterministic\":%d,\"equal_to_reference\":%d}\n",
           ("{\"obs\":" + ref.obs + "}").c_str(), a.ok ? ("{\"obs\":" + a.obs + "}").c_str() : a.json.c_str(),
           b.ok ? ("{\"obs\":" + b.obs + "}").c_str() : b.json.c_str(), a.obs == b.obs && a.ok == b.ok, a.ok && a.obs == ref.obs);
    return (a.ok && a.obs == ref.obs) ? 0 : 1;
  }
  if (cmd == "explore")
  {
    int bound = argc > 4 ? atoi(argv[4]) : 2;
    long maxruns = argc > 5 ? atol(argv[5]) : 1000000;
    Exec ref = run_child(*p, n, 0, {});
    if (!ref.ok) { printf("{\"fatal\":\"reference run failed\",\"detail\":%s}\n", ref.json.c_str()); return 2; }
    Stats st;
    /* the sequential run in clones must itself equal runs in contexts that were never cloned */
    Exec fresh = run_child(*p, n, 3, {});
    if (!fresh.ok || fresh.obs != ref.obs)
    {
      st.violations++;
      report_violation("clone-differs-from-fresh-context", {}, ref, fresh.ok ? fresh.obs : fresh.json);
    }
    /* determinism of the default schedule: run it twice */
    Exec d1 = run_child(*p, n, 1, {}), d2 = run_child(*p, n, 1, {});
    if (d1.obs != d2.obs || d1.trace.size() != d2.trace.size())
    {
      printf("{\"violation\":\"nondeterministic-default-schedule\",\"schedule\":\"\",\"observed\":%s,\"expected\":%s}\n", d1.json.c_str(), d2.json.c_str());
      st.violations++;
    }
    explore(*p, n, bound, maxruns, {}, {}, ref.obs, st);
    printf("{\"summary\":1,\"prog\":\"%s\",\"threads\":%d,\"bound\":%d,\"schedules\":%ld,\"transitions\":%ld,\"max_points\":%ld,\"distinct_outcomes\":%zu,"
           "\"violations\":%ld,\"capped\":%ld,\"reference\":%s}\n", p->name, n, bound, st.runs, st.transitions, st.maxpoints, st.distinct.size(),
           st.violations, st.capped, ("{\"obs\":" + ref.obs + "}").c_str());
    return st.violations ? 1 : 0;
  }
  return 2;
}
