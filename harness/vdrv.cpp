/*
 * vdrv — case driver for the BLOC verification harness.
 *
 * usage: vdrv <casefile> [<start-index>]     (results as JSON lines on stdout)
 *
 * The parent loads every case, forks a child that executes them in order and
 * streams one JSON line per case. A child that dies (signal, sanitizer abort,
 * CPU watchdog) yields a "crash"/"hang" record for the case it was running and
 * a fresh child continues with the next case. A child that met a UBSan report
 * retires after the case (UBSan reports each source location once per process).
 *
 * Case file:
 *   C <id>
 *   <op> <arg> ...          (byte strings are x<hex>, "x" alone is empty)
 *   .
 */
#include <blocc/context.h>
#include <blocc/parser.h>
#include <blocc/string_reader.h>
#include <blocc/executable.h>
#include <blocc/expression.h>
#include <blocc/collection.h>
#include <blocc/tuple.h>
#include <blocc/complex.h>
#include <blocc/value.h>
#include <blocc/exception_parse.h>
#include <blocc/exception_runtime.h>
#include <blocc/parse_expression.h>
#include <blocc/functor_manager.h>
#include <blocc/plugin_manager.h>
#include <blocc/verif_hook.h>
#include <blocc/bloc_capi.h>

#include <cstdio>
#include <cstdlib>
#include <cstring>
#include <cmath>
#include <string>
#include <vector>
#include <map>
#include <sstream>
#include <typeinfo>
#include <unistd.h>
#include <fcntl.h>
#include <signal.h>
#include <sys/wait.h>
#include <sys/time.h>
#include <sys/mman.h>
#include <sys/resource.h>

using namespace bloc;

#ifdef VDRV_NOSAN
/* a build without sanitizers (the gcc tree): nothing to ask */
extern "C" int __lsan_do_recoverable_leak_check() { return 0; }
extern "C" void __ubsan_get_current_report_data(const char **k, const char **m, const char **f, unsigned *l, unsigned *c, char **a)
{ *k = *m = *f = ""; *l = *c = 0; *a = nullptr; }
#else
extern "C" int __lsan_do_recoverable_leak_check();
#endif
extern "C" void __ubsan_get_current_report_data(const char **OutIssueKind,
    const char **OutMessage, const char **OutFilename, unsigned *OutLine,
    unsigned *OutCol, char **OutMemoryAddr);

/* ------------------------------------------------------------------------ */
static std::vector<std::string> g_ubsan;

extern "C" void __ubsan_on_report()
{
  const char *kind = "", *msg = "", *file = "";
  unsigned line = 0, col = 0; char *addr = nullptr;
  __ubsan_get_current_report_data(&kind, &msg, &file, &line, &col, &addr);
  std::string f(file ? file : "");
  /* keep the path relative to the repository */
  size_t p = f.rfind("/blocc/");
  if (p == std::string::npos) p = f.rfind("/modules/");
  if (p == std::string::npos) p = f.rfind("/apps/");
  if (p != std::string::npos) f = f.substr(p + 1);
  char buf[512];
  snprintf(buf, sizeof(buf), "%s@%s:%u", kind ? kind : "?", f.c_str(), line);
  g_ubsan.push_back(buf);
}

extern "C" const char *__asan_default_options()
{
  return "detect_leaks=1:leak_check_at_exit=0:abort_on_error=1:allocator_may_return_null=1:"
         "detect_stack_use_after_return=0:handle_abort=1:max_allocation_size_mb=512:print_summary=1";
}
extern "C" const char *__ubsan_default_options()
{
  return "print_stacktrace=0:halt_on_error=0";
}
extern "C" const char *__lsan_default_options()
{
  return "print_suppressions=0";
}

#include "vcommon.h"

/* ------------------------------------------------------------------------ */
/* step budget                                                              */
static bool g_isolate = false;  /* the running case asked for a process of its own */
static long g_budget = 200000;
static long g_steps = 0;
static bool g_budget_hit = false;

static void point_cb(int kind, const void *)
{
  if (kind != BLOC_VP_STATEMENT) return;
  if (++g_steps > g_budget)
  {
    g_budget_hit = true;
    throw RuntimeError(EXC_RT_OTHER_S, "VERIF_STEP_BUDGET");
  }
}

/* ------------------------------------------------------------------------ */
/* readers                                                                  */
class FragReader : public Parser::StreamReader
{
  std::string _text; size_t _pos = 0; std::vector<int> _sizes; size_t _k = 0; int _tail;
public:
  std::vector<int> asked;
  /* sizes: successive fragment sizes; afterwards `tail` (0 = line mode like StringReader) */
  FragReader(const std::string& t, const std::vector<int>& s, int tail) : _text(t), _sizes(s), _tail(tail) { }
  int read(Parser *, char * buf, int max_size) override
  {
    asked.push_back(max_size);
    if (_pos >= _text.size()) return 0;
    int want;
    bool linemode = false;
    if (_k < _sizes.size()) want = _sizes[_k++];
    else if (_tail > 0) want = _tail;
    else { want = max_size; linemode = true; }
    if (want > max_size) want = max_size;
    int n = 0;
    while (n < want && _pos < _text.size())
    {
      char c = _text[_pos++];
      buf[n++] = c;
      if (linemode && c == '\n') break;
    }
    return n;
  }
};

/* ------------------------------------------------------------------------ */
struct CtxSlot { Context * ctx = nullptr; int fdo = -1; int fde = -1; };
static CtxSlot g_ctx[8];
static Executable * g_exe[8];
static Context * g_exe_ctx[8];

static std::string read_fd(int fd)
{
  std::string o;
  if (fd < 0) return o;
  off_t end = lseek(fd, 0, SEEK_END);
  if (end <= 0) return o;
  o.resize(end);
  if (pread(fd, &o[0], end, 0) != end) o.clear();
  if (ftruncate(fd, 0)) { }
  lseek(fd, 0, SEEK_SET);
  return o;
}

static void ctx_flush(CtxSlot& s)
{
  if (s.ctx)
  {
    if (s.ctx->ctxout()) fflush(s.ctx->ctxout());
    if (s.ctx->ctxerr()) fflush(s.ctx->ctxerr());
  }
}

static std::vector<std::string> g_end_op;
static std::string run_kop(const std::vector<std::string>& a);

static void free_all()
{
  if (g_end_op.empty()) g_end_op.push_back("k.end");
  run_kop(g_end_op);
  for (int i = 0; i < 8; ++i) { if (g_exe[i]) { delete g_exe[i]; g_exe[i] = nullptr; } }
  for (int i = 0; i < 8; ++i)
  {
    if (g_ctx[i].ctx) { delete g_ctx[i].ctx; g_ctx[i].ctx = nullptr; }
    if (g_ctx[i].fdo >= 0) { close(g_ctx[i].fdo); g_ctx[i].fdo = -1; }
    if (g_ctx[i].fde >= 0) { close(g_ctx[i].fde); g_ctx[i].fde = -1; }
  }
}

static std::string perr_json(const ParseError& pe)
{
  std::string o = "{\"r\":\"perr\",\"no\":" + std::to_string((int)pe.no);
  if (pe.token) o += ",\"line\":" + std::to_string(pe.token->line) + ",\"col\":" + std::to_string(pe.token->column)
          + ",\"tok\":\"" + hexenc(pe.token->text) + "\"";
  o += ",\"msg\":" + jstr(pe.what()) + "}";
  return o;
}
static std::string rerr_json(const RuntimeError& re)
{
  if (g_budget_hit) return "{\"r\":\"budget\"}";
  return "{\"r\":\"rerr\",\"no\":" + std::to_string((int)re.no) + ",\"msg\":" + jstr(re.what()) + "}";
}
static std::string foreign_json(const char * what, const char * tname)
{
  return std::string("{\"r\":\"foreign\",\"type\":") + jstr(tname) + ",\"msg\":" + jstr(what) + "}";
}

/* the host's duty after a run: fetch the returned value and reset the stop condition that a
 * `return` statement leaves set (documented: bloc_reset_stop) */
static bool g_nodrop = false;    /* a host that resets the stop condition and never collects the returned value */

static std::string ret_json(Context& ctx)
{
  std::string o;
  if (ctx.returnCondition()) { o += ",\"rc\":1"; ctx.returnCondition(false); }
  if (g_nodrop) return o;
  Value * r = ctx.dropReturned();
  if (!r) return o;
  std::string d; dump_value(d, *r);
  delete r;
  return o + ",\"ret\":" + jstr(d);
}

/* Parser::StreamReader has no virtual destructor: keep the concrete types */
struct ReaderBox
{
  StringReader * s = nullptr;
  FragReader * f = nullptr;
  ~ReaderBox() { delete s; delete f; }
  Parser::StreamReader& get() { if (s) return *s; return *f; }
};

static void make_reader(ReaderBox& box, const std::string& spec, const std::string& text)
{
  /* spec: "s" StringReader | "f:<tail>:<n1,n2,...>" FragReader */
  if (spec == "s") { box.s = new StringReader(text); return; }
  std::vector<int> sizes; int tail = 0;
  size_t p = spec.find(':', 2);
  tail = atoi(spec.substr(2, p == std::string::npos ? std::string::npos : p - 2).c_str());
  if (p != std::string::npos)
  {
    std::string l = spec.substr(p + 1);
    size_t i = 0;
    while (i < l.size()) { size_t j = l.find(',', i); if (j == std::string::npos) j = l.size(); if (j > i) sizes.push_back(atoi(l.substr(i, j - i).c_str())); i = j + 1; }
  }
  box.f = new FragReader(text, sizes, tail);
}

/* parse + run with the C++ interface */
static std::string do_run_cpp(Context& ctx, const std::string& text, const std::string& rspec, bool keep, int eslot)
{
  ReaderBox rd; make_reader(rd, rspec, text);
  Executable * x = nullptr;
  std::string out;
  try { x = Parser::parse(ctx, rd.get()); }
  catch (ParseError& pe) { out = perr_json(pe); }
  catch (RuntimeError& re) { out = "{\"r\":\"foreign\",\"type\":\"RuntimeError-at-parse\",\"msg\":" + jstr(re.what()) + "}"; }
  catch (std::exception& e) { out = foreign_json(e.what(), typeid(e).name()); }
  catch (...) { out = foreign_json("", "unknown"); }
  if (!x) { if (out.empty()) out = "{\"r\":\"perr\",\"no\":-1,\"msg\":\"null executable\"}"; return out; }
  if (keep) { g_exe[eslot] = x; g_exe_ctx[eslot] = &ctx; return "{\"r\":\"ok\"}"; }
  try { x->run(); out = "{\"r\":\"ok\"" + ret_json(ctx) + "}"; }
  catch (RuntimeError& re) { out = rerr_json(re); if (ctx.returnCondition()) out.insert(out.size() - 1, ",\"rc\":1"); }
  catch (ParseError& pe) { out = "{\"r\":\"foreign\",\"type\":\"ParseError-at-run\",\"msg\":" + jstr(pe.what()) + "}"; }
  catch (std::exception& e) { out = foreign_json(e.what(), typeid(e).name()); }
  catch (...) { out = foreign_json("", "unknown"); }
  delete x;
  return out;
}

static std::string do_exec(int eslot, Context * ctx)
{
  Executable * x = g_exe[eslot];
  std::string out;
  if (!x) return "{\"r\":\"noexe\"}";
  Context& c = ctx ? *ctx : x->context();
  try
  {
    if (ctx) Executable::run(*ctx, x->statements()); else x->run();
    out = "{\"r\":\"ok\"" + ret_json(c) + "}";
  }
  catch (RuntimeError& re) { out = rerr_json(re); }
  catch (ParseError& pe) { out = "{\"r\":\"foreign\",\"type\":\"ParseError-at-run\",\"msg\":" + jstr(pe.what()) + "}"; }
  catch (std::exception& e) { out = foreign_json(e.what(), typeid(e).name()); }
  catch (...) { out = foreign_json("", "unknown"); }
  return out;
}

/* statement at a time with the interactive parser, as the documented embedding pattern (and the CLI) do it:
 * parseStatement, execute the chain, on ParseError clear() the parser, on RuntimeError purge working memory */
static std::string do_run_interactive(Context& ctx, const std::string& text, bool cleanup_on_error)
{
  StringReader rd(text);
  Parser * p = Parser::createInteractiveParser(ctx, rd);
  std::string out;
  int executed = 0;
  try
  {
    for (;;)
    {
      Statement * s = nullptr;
      try { s = p->parseStatement(); }
      catch (ParseError& pe)
      {
        if (pe.no == EXC_PARSE_EOF) break;
        out = perr_json(pe);
        p->clear();
        break;
      }
      if (!s) { if (p->state() == Parser::Aborted) break; continue; }
      const Statement * r = s;
      try { while (r) r = r->execute(ctx); }
      catch (RuntimeError& re)
      {
        out = rerr_json(re);
        if (cleanup_on_error) ctx.onRuntimeError(); else ctx.purgeWorkingMemory();
        delete s;
        break;
      }
      ++executed;
      if (ctx.returnCondition()) ctx.returnCondition(false);
      delete s;
    }
  }
  catch (std::exception& e) { out = foreign_json(e.what(), typeid(e).name()); }
  catch (...) { out = foreign_json("", "unknown"); }
  delete p;
  if (out.empty()) out = "{\"r\":\"ok\"}";
  out.insert(out.size() - 1, ",\"executed\":" + std::to_string(executed));
  return out;
}

/* parse + run through the C API */
static std::string do_run_capi(Context& ctx, const std::string& text, bool withpos, bool exec2 = false)
{
  bloc_context * c = reinterpret_cast<bloc_context*>(&ctx);
  bloc_parsing_position pos = { -1, -1 };
  std::string out;
  try
  {
    bloc_executable * x = bloc_parse_executable(c, text.c_str(), withpos ? &pos : nullptr);
    if (!x)
    {
      std::string msg(bloc_strerror());
      return "{\"r\":\"perr\",\"no\":" + std::to_string(bloc_errno()) + ",\"line\":" + std::to_string(pos.lno)
              + ",\"col\":" + std::to_string(pos.pno) + ",\"msg\":" + jstr(msg) + "}";
    }
    if (exec2 ? bloc_execute2(c, x) : bloc_execute(x))
    {
      out = "{\"r\":\"ok\"";
      if (ctx.returnCondition()) { out += ",\"rc\":1"; bloc_reset_stop(c); }
      bloc_value * r = bloc_drop_returned(c);
      if (r) { std::string d; dump_value(d, *reinterpret_cast<Value*>(r)); bloc_free_value(r); out += ",\"ret\":" + jstr(d); }
      out += "}";
    }
    else if (g_budget_hit) out = "{\"r\":\"budget\"}";
    else
      out = "{\"r\":\"rerr\",\"no\":" + std::to_string(bloc_errno()) + ",\"msg\":" + jstr(bloc_strerror()) + "}";
    bloc_free_executable(x);
  }
  catch (std::exception& e) { out = foreign_json(e.what(), typeid(e).name()); }
  catch (...) { out = foreign_json("", "unknown"); }
  return out;
}

/* expression: static type while parsing, dynamic value */
static std::string do_expr(Context& ctx, const std::string& text)
{
  StringReader rd(text);
  Parser * p = Parser::createInteractiveParser(ctx, rd);
  Expression * e = nullptr;
  std::string out;
  std::string stype;
  try
  {
    ctx.parsingBegin();
    e = ParseExpression::expression(*p, ctx);
    const Type& t = e->type(ctx);
    const TupleDecl::Decl * d = nullptr;
    if (t.major() == Type::ROWTYPE) d = &e->tuple_decl(ctx);
    stype = type_str(t, d);
    stype += "|" + std::to_string((int)t.major()) + "." + std::to_string((int)t.minor()) + "." + std::to_string((int)t.level());
    ctx.parsingEnd();
  }
  catch (ParseError& pe) { ctx.parsingEnd(); out = perr_json(pe); }
  catch (RuntimeError& re) { ctx.parsingEnd(); out = "{\"r\":\"foreign\",\"type\":\"RuntimeError-at-parse\",\"msg\":" + jstr(re.what()) + "}"; }
  catch (std::exception& ex) { ctx.parsingEnd(); out = foreign_json(ex.what(), typeid(ex).name()); }
  delete p;
  if (!e) return out;
  try
  {
    Value& v = e->value(ctx);
    std::string d; dump_value(d, v);
    std::string dt;
    {
      Value& dv = v.deref_value();
      const TupleDecl::Decl * decl = nullptr;
      if (!dv.isNull() && dv.type().level() > 0) decl = &dv.collection()->table_decl();
      else if (!dv.isNull() && dv.type().major() == Type::ROWTYPE) decl = &dv.tuple()->tuple_decl();
      dt = type_str(dv.type(), decl);
      dt += "|" + std::to_string((int)dv.type().major()) + "." + std::to_string((int)dv.type().minor()) + "." + std::to_string((int)dv.type().level());
    }
    out = "{\"r\":\"ok\",\"stype\":" + jstr(stype) + ",\"dtype\":" + jstr(dt) + ",\"val\":" + jstr(d) + "}";
  }
  catch (RuntimeError& re)
  {
    if (g_budget_hit) out = "{\"r\":\"budget\"}";
    else out = "{\"r\":\"rerr\",\"stype\":" + jstr(stype) + ",\"no\":" + std::to_string((int)re.no) + ",\"msg\":" + jstr(re.what()) + "}";
  }
  catch (std::exception& ex) { out = foreign_json(ex.what(), typeid(ex).name()); }
  catch (...) { out = foreign_json("", "unknown"); }
  delete e;
  ctx.purgeWorkingMemory();
  return out;
}

static std::string do_dump(Context& ctx, const std::string& names)
{
  std::string out = "{\"r\":\"ok\",\"vars\":{";
  bool first = true;
  auto one = [&](Symbol& s)
  {
    if (!first) out.push_back(',');
    first = false;
    std::string d;
    d += type_str(s, s.major() == Type::ROWTYPE ? &s.tuple_decl() : nullptr);
    if (s.safety()) d += "/S";
    if (s.locked()) d += "/L";
    d += "=";
    dump_value(d, ctx.loadVariable(s.id()));
    out += jstr(s.name()) + ":" + jstr(d);
  };
  if (names == "*")
  {
    size_t n = ctx.verifSymbolCount();
    for (size_t i = 0; i < n; ++i) one(ctx.getSymbol((unsigned)i));
  }
  else
  {
    size_t i = 0;
    while (i <= names.size())
    {
      size_t j = names.find(',', i);
      if (j == std::string::npos) j = names.size();
      std::string n = names.substr(i, j - i);
      if (!n.empty())
      {
        Symbol * s = ctx.findSymbol(n);
        if (s) one(*s);
        else { if (!first) out.push_back(','); first = false; out += jstr(n) + ":\"<none>\""; }
      }
      i = j + 1;
    }
  }
  out += "},\"cdepth\":" + std::to_string(ctx.verifControlDepth())
       + ",\"xlevel\":" + std::to_string(ctx.execLevel())
       + ",\"backed\":" + std::to_string(ctx.verifBackedSymbolCount())
       + ",\"flags\":\"" + (ctx.breakCondition() ? "b" : "") + (ctx.continueCondition() ? "c" : "")
       + (ctx.returnCondition() ? "r" : "") + (ctx.parsing() ? "p" : "") + "\"}";
  return out;
}

static std::string do_funcs(Context& ctx)
{
  std::string out = "{\"r\":\"ok\",\"funcs\":[";
  bool first = true;
  for (const FunctorManager::Entry& e : ctx.functorManager().declarations())
  {
    if (!first) out.push_back(',');
    first = false;
    if (!e.functor) { out += "\"<nullfunctor>\""; continue; }
    std::string d = e.functor->name + "/" + std::to_string(e.functor->params.size()) + ":";
    d += type_str(e.functor->returns, nullptr) + ":";
    if (!e.functor->body) d += "<nobody>";
    else if (!e.functor->ctx) d += "<noctx>";
    else
    {
      char * mem = nullptr; size_t len = 0;
      FILE * f = open_memstream(&mem, &len);
      e.functor->body->unparse(*e.functor->ctx, f);
      fclose(f);
      d += hexenc(mem, len);
      free(mem);
    }
    out += jstr(d);
  }
  out += "]}";
  return out;
}

static std::string do_tokens(Context& ctx, const std::string& text, const std::string& rspec)
{
  ReaderBox rd; make_reader(rd, rspec, text);
  Parser * p = Parser::createInteractiveParser(ctx, rd.get());
  std::string out = "{\"r\":\"ok\",\"toks\":[";
  bool first = true;
  int n = 0;
  try
  {
    for (;;)
    {
      TokenPtr t = p->pop();
      if (!t) break;
      if (!first) out.push_back(',');
      first = false;
      out += "[" + std::to_string(t->code) + ",\"" + hexenc(t->text) + "\"]";
      if (++n > 100000) break;
    }
  }
  catch (ParseError&) { }
  out += "]}";
  delete p;
  return out;
}

static std::string do_unparse(int eslot)
{
  Executable * x = g_exe[eslot];
  if (!x) return "{\"r\":\"noexe\"}";
  char * mem = nullptr; size_t len = 0;
  FILE * f = open_memstream(&mem, &len);
  x->unparse(f);
  fclose(f);
  std::string out = "{\"r\":\"ok\",\"text\":\"" + hexenc(mem, len) + "\"}";
  free(mem);
  return out;
}

/* round trip: parse text in ctx A, unparse (T1), parse T1 in ctx B, unparse again (T2), run both */
static std::string exe_text(Executable * x)
{
  char * mem = nullptr; size_t len = 0;
  FILE * f = open_memstream(&mem, &len);
  x->unparse(f);
  fclose(f);
  std::string t(mem, len);
  free(mem);
  return t;
}

static std::string run_exe_json(Executable * x, Context& ctx)
{
  std::string out;
  g_budget_hit = false; g_steps = 0;
  try { x->run(); out = "{\"r\":\"ok\"" + ret_json(ctx) + "}"; }
  catch (RuntimeError& re) { out = rerr_json(re); if (ctx.returnCondition()) ctx.returnCondition(false); }
  catch (std::exception& e) { out = foreign_json(e.what(), typeid(e).name()); }
  catch (...) { out = foreign_json("", "unknown"); }
  return out;
}

static std::string do_roundtrip(Context& a, Context& b, const std::string& text)
{
  Executable * xa = nullptr; Executable * xb = nullptr;
  std::string out;
  { StringReader rd(text);
    try { xa = Parser::parse(a, rd); }
    catch (ParseError& pe) { return "{\"r\":\"rejected\",\"err\":" + perr_json(pe) + "}"; }
    catch (std::exception& e) { return foreign_json(e.what(), typeid(e).name()); } }
  std::string t1 = exe_text(xa);
  out = "{\"r\":\"ok\",\"t1\":\"" + hexenc(t1) + "\"";
  { StringReader rd(t1);
    try { xb = Parser::parse(b, rd); }
    catch (ParseError& pe) { out += ",\"p2\":" + perr_json(pe); }
    catch (std::exception& e) { out += ",\"p2\":" + foreign_json(e.what(), typeid(e).name()); } }
  if (xb)
  {
    std::string t2 = exe_text(xb);
    out += ",\"p2\":{\"r\":\"ok\"},\"t2\":\"" + hexenc(t2) + "\"";
  }
  out += ",\"runa\":" + run_exe_json(xa, a);
  if (xb) out += ",\"runb\":" + run_exe_json(xb, b);
  out += "}";
  delete xa;
  if (xb) delete xb;
  return out;
}

/* value spec: i<dec> | d<hexfloat or text> | b0|b1 | s<hex> | x<hex> | c<a>,<b> | n<typename>[*level] */
static Value make_value(const std::string& spec)
{
  char k = spec.empty() ? '?' : spec[0];
  std::string r = spec.substr(1);
  switch (k)
  {
  case 'i': return Value((Integer)strtoll(r.c_str(), nullptr, 10));
  case 'u': return Value((Integer)strtoull(r.c_str(), nullptr, 10));
  case 'd': return Value((Numeric)strtod(r.c_str(), nullptr));
  case 'b': return Value((Bool)(r == "1"));
  case 's': return Value(new Literal(hexdec(r)));
  case 'x': { std::string b = hexdec(r); return Value(new TabChar(b.begin(), b.end())); }
  case 'c': { size_t p = r.find(','); Imaginary * im = new Imaginary; im->a = strtod(r.substr(0, p).c_str(), nullptr); im->b = strtod(r.substr(p + 1).c_str(), nullptr); return Value(im); }
  case 'n':
  {
    size_t p = r.find('*'); int level = 0;
    if (p != std::string::npos) { level = atoi(r.substr(p + 1).c_str()); r = r.substr(0, p); }
    Type t = Type::nameType(r);
    return Value(Type(t.major(), 0, (Type::TypeLevel)level));
  }
  }
  return Value();
}

static std::string do_setvar(Context& ctx, const std::string& name, const std::string& spec)
{
  try
  {
    Value v = make_value(spec);
    Symbol& s = ctx.registerSymbol(name, v.type());
    ctx.storeVariable(s.id(), std::move(v));
    return "{\"r\":\"ok\"}";
  }
  catch (RuntimeError& re) { return rerr_json(re); }
  catch (ParseError& pe) { return perr_json(pe); }
}

/* ------------------------------------------------------------------------ */
/* C API primitives (C15): handles are kept in small tables                  */
static bloc_context * k_ctx[4];
static int k_fd[4] = { -1, -1, -1, -1 };
static int k_efd[4] = { -1, -1, -1, -1 };     /* error stream of the context (trace output goes there) */
static bloc_symbol * k_sym[4][4];
static bloc_value * k_val[4];          /* caller-owned */
static bloc_value * k_lib[4];          /* library-owned pointers kept by the caller */
static bloc_expression * k_exp[4];
static bloc_executable * k_exe[4];

static std::string k_inspect(bloc_value * v)
{
  if (!v) return "{\"null_ptr\":1}";
  std::string o = "{";
  bloc_type t = bloc_value_type(v);
  o += "\"major\":" + std::to_string((int)t.major) + ",\"ndim\":" + std::to_string(t.ndim);
  o += ",\"isnull\":" + std::to_string((int)bloc_value_isnull(v));
  { bloc_bool * b = (bloc_bool*)0x1; bloc_bool r = bloc_boolean(v, &b); o += ",\"boolean\":[" + std::to_string((int)r) + "," + (r ? (b ? std::to_string((int)*b) : "null") : "0") + "]"; }
  { int64_t * b = (int64_t*)0x1; bloc_bool r = bloc_integer(v, &b); o += ",\"integer\":[" + std::to_string((int)r) + "," + (r ? (b ? "\"" + std::to_string(*b) + "\"" : "null") : "0") + "]"; }
  { double * b = (double*)0x1; bloc_bool r = bloc_numeric(v, &b); o += ",\"numeric\":[" + std::to_string((int)r) + "," + (r ? (b ? jstr(dbl_str(*b)) : "null") : "0") + "]"; }
  { const char * b = (const char*)0x1; bloc_bool r = bloc_literal(v, &b); o += ",\"literal\":[" + std::to_string((int)r) + "," + (r ? (b ? jstr(hexenc(b, strlen(b))) : "null") : "0") + "]"; }
  { const char * b = (const char*)0x1; unsigned len = 0; bloc_bool r = bloc_tabchar(v, &b, &len); o += ",\"tabchar\":[" + std::to_string((int)r) + "," + (r ? (b ? jstr(hexenc(b, len)) : "null") : "0") + "]"; }
  { bloc_pair * b = (bloc_pair*)0x1; bloc_bool r = bloc_imaginary(v, &b); o += ",\"imaginary\":[" + std::to_string((int)r) + "," + (r ? (b ? jstr(dbl_str(b->a) + "," + dbl_str(b->b)) : "null") : "0") + "]"; }
  { bloc_array * a = (bloc_array*)0x1; bloc_bool r = bloc_table(v, &a);
    o += ",\"table\":[" + std::to_string((int)r) + ",";
    if (r && a) { unsigned n = bloc_array_size(a); o += "[" + std::to_string(n); bloc_value * it = nullptr;
      for (unsigned i = 0; i < n && i < 4; ++i) { if (bloc_array_item(a, i, &it)) { std::string d; dump_value(d, *reinterpret_cast<Value*>(it)); o += "," + jstr(d); } else o += ",\"<noitem>\""; }
      bloc_value * past = nullptr; o += std::string(",") + (bloc_array_item(a, n, &past) ? "\"past-end-accepted\"" : "\"past-end-refused\""); o += "]"; }
    else o += (r ? "null" : "0");
    o += "]"; }
  { bloc_row * a = (bloc_row*)0x1; bloc_bool r = bloc_tuple(v, &a);
    o += ",\"tuple\":[" + std::to_string((int)r) + ",";
    if (r && a) { unsigned n = bloc_tuple_size(a); o += "[" + std::to_string(n); bloc_value * it = nullptr;
      for (unsigned i = 0; i < n && i < 6; ++i) { if (bloc_tuple_item(a, i, &it)) { std::string d; dump_value(d, *reinterpret_cast<Value*>(it)); o += "," + jstr(d); } else o += ",\"<noitem>\""; }
      bloc_value * past = nullptr; o += std::string(",") + (bloc_tuple_item(a, n, &past) ? "\"past-end-accepted\"" : "\"past-end-refused\""); o += "]"; }
    else o += (r ? "null" : "0");
    o += "]"; }
  std::string d; dump_value(d, *reinterpret_cast<Value*>(v));
  o += ",\"dump\":" + jstr(d) + "}";
  return o;
}

static std::string k_err()
{
  const char * m = bloc_strerror();
  return "\"errno\":" + std::to_string(bloc_errno()) + ",\"strerror\":" + jstr(m ? m : "<NULL>");
}

static std::string run_kop(const std::vector<std::string>& a)
{
  const std::string& op = a[0];
  auto I = [&](size_t i) { return i < a.size() ? atoi(a[i].c_str()) : 0; };
  if (op == "k.create")
  {
    int c = I(1);
    if (k_fd[c] < 0) k_fd[c] = memfd_create("kout", 0);
    if (k_efd[c] < 0) k_efd[c] = memfd_create("kerr", 0);
    k_ctx[c] = bloc_create_context(k_fd[c], k_efd[c]);
    return std::string("{\"r\":\"ok\",\"ptr\":") + (k_ctx[c] ? "1" : "0") + "}";
  }
  if (op == "k.clone")
  {
    int c = I(1), d = I(2);
    if (k_fd[d] < 0) k_fd[d] = memfd_create("kout", 0);
    if (k_efd[d] < 0) k_efd[d] = memfd_create("kerr", 0);
    k_ctx[d] = bloc_clone_context2(k_ctx[c], k_fd[d], k_efd[d]);
    for (int s = 0; s < 4; ++s) k_sym[d][s] = nullptr;
    return std::string("{\"r\":\"ok\",\"ptr\":") + (k_ctx[d] ? "1" : "0") + "}";
  }
  if (op == "k.free") { int c = I(1); bloc_free_context(k_ctx[c]); k_ctx[c] = nullptr; for (int s = 0; s < 4; ++s) k_sym[c][s] = nullptr; return "{\"r\":\"ok\"}"; }
  if (op == "k.purge") { bloc_ctx_purge(k_ctx[I(1)]); for (int s = 0; s < 4; ++s) k_sym[I(1)][s] = nullptr; return "{\"r\":\"ok\"}"; }
  if (op == "k.purgewm") { bloc_ctx_purge_working_mem(k_ctx[I(1)]); return "{\"r\":\"ok\"}"; }
  if (op == "k.reg")
  {
    int c = I(1), s = I(2);
    bloc_type t = { (bloc_type_major)I(4), (unsigned)I(5) };
    k_sym[c][s] = bloc_ctx_register_symbol(k_ctx[c], a[3].c_str(), t);
    return std::string("{\"r\":\"ok\",\"ptr\":") + (k_sym[c][s] ? "1" : "0") + "," + k_err() + "}";
  }
  if (op == "k.find")
  {
    int c = I(1), s = I(2);
    k_sym[c][s] = bloc_ctx_find_symbol(k_ctx[c], a[3].c_str());
    return std::string("{\"r\":\"ok\",\"ptr\":") + (k_sym[c][s] ? "1" : "0") + "}";
  }
  if (op == "k.store")
  {
    int c = I(1), s = I(2), v = I(3);
    bloc_bool r = bloc_ctx_store_variable(k_ctx[c], k_sym[c][s], k_val[v]);
    std::string e = k_err();   /* before any accessor touches the error record */
    return "{\"r\":\"ok\",\"ret\":" + std::to_string((int)r) + "," + e + ",\"caller\":" + k_inspect(k_val[v]) + "}";
  }
  if (op == "k.storelib")
  {
    /* store a value the library owns (loaded from a variable) into another variable */
    int c = I(1), s = I(2), l = I(3);
    bloc_bool r = bloc_ctx_store_variable(k_ctx[c], k_sym[c][s], k_lib[l]);
    std::string e = k_err();
    return "{\"r\":\"ok\",\"ret\":" + std::to_string((int)r) + "," + e + "}";
  }
  if (op == "k.load")
  {
    int c = I(1), s = I(2), l = I(3);
    k_lib[l] = bloc_ctx_load_variable(k_ctx[c], k_sym[c][s]);
    return "{\"r\":\"ok\",\"val\":" + k_inspect(k_lib[l]) + "}";
  }
  if (op == "k.new")
  {
    int v = I(1);
    const std::string& sp = a[2];
    bloc_value * x = nullptr;
    if (sp.compare(0, 5, "null:") == 0) x = bloc_create_null((bloc_type_major)atoi(sp.c_str() + 5));
    else if (sp == "snull") x = bloc_create_literal(nullptr);
    else if (sp == "xnull") x = bloc_create_tabchar(nullptr, 0);
    else if (sp[0] == 'b') x = bloc_create_boolean(sp[1] == '1' ? bloc_true : bloc_false);
    else if (sp[0] == 'i') x = bloc_create_integer(strtoll(sp.c_str() + 1, nullptr, 10));
    else if (sp[0] == 'd') x = bloc_create_numeric(strtod(sp.c_str() + 1, nullptr));
    else if (sp[0] == 's') { std::string t = hexdec(sp.substr(1)); x = bloc_create_literal(t.c_str()); }
    else if (sp[0] == 'x') { std::string t = hexdec(sp.substr(1)); x = bloc_create_tabchar(t.data(), (unsigned)t.size()); }
    else if (sp[0] == 'c') { bloc_pair p; size_t q = sp.find(','); p.a = strtod(sp.substr(1, q - 1).c_str(), nullptr); p.b = strtod(sp.substr(q + 1).c_str(), nullptr); x = bloc_create_imaginary(p); }
    k_val[v] = x;
    return "{\"r\":\"ok\",\"val\":" + k_inspect(x) + "}";
  }
  if (op == "k.freeval") { int v = I(1); bloc_free_value(k_val[v]); k_val[v] = nullptr; return "{\"r\":\"ok\"}"; }
  if (op == "k.assign")
  {
    /* target: a caller-owned value slot "<n>", or a library-owned pointer "l<n>" (a variable of the context updated in place) */
    bloc_value * tv = (a[1][0] == 'l' ? k_lib[atoi(a[1].c_str() + 1)] : k_val[I(1)]);
    const std::string& sp = a[2];
    int r = -1;
    if (sp == "null") { bloc_assign_null(tv); r = 1; }
    else if (sp == "litnull") r = bloc_assign_literal(tv, nullptr);
    else if (sp == "tabnull") r = bloc_assign_tabchar(tv, nullptr, 0);
    else if (sp.compare(0, 4, "lit:") == 0) { std::string t = hexdec(sp.substr(4)); r = bloc_assign_literal(tv, t.c_str()); }
    else if (sp.compare(0, 4, "tab:") == 0) { std::string t = hexdec(sp.substr(4)); r = bloc_assign_tabchar(tv, t.data(), (unsigned)t.size()); }
    return "{\"r\":\"ok\",\"ret\":" + std::to_string(r) + ",\"val\":" + k_inspect(tv) + "}";
  }
  if (op == "k.inspect") return "{\"r\":\"ok\",\"val\":" + k_inspect(a[1] == "v" ? k_val[I(2)] : k_lib[I(2)]) + "}";
  if (op == "k.pexpr")
  {
    int c = I(1), e = I(2);
    std::string t = hexdec(a[3]);
    k_exp[e] = bloc_parse_expression(k_ctx[c], t.c_str());
    return std::string("{\"r\":\"ok\",\"ptr\":") + (k_exp[e] ? "1" : "0") + "," + k_err() + "}";
  }
  if (op == "k.etype")
  {
    if (!k_exp[I(2)]) return "{\"r\":\"noexpr\"}";      /* the parse before failed: not a defined call */
    bloc_type t = bloc_expression_type(k_ctx[I(1)], k_exp[I(2)]);
    return "{\"r\":\"ok\",\"major\":" + std::to_string((int)t.major) + ",\"ndim\":" + std::to_string(t.ndim) + "}";
  }
  if (op == "k.eval")
  {
    int c = I(1), e = I(2), l = I(3);
    if (!k_exp[e]) return "{\"r\":\"noexpr\"}";
    k_lib[l] = bloc_evaluate_expression(k_ctx[c], k_exp[e]);
    std::string er = k_err();
    return "{\"r\":\"ok\"," + er + ",\"val\":" + k_inspect(k_lib[l]) + "}";
  }
  if (op == "k.freeexpr") { int e = I(1); bloc_free_expression(k_exp[e]); k_exp[e] = nullptr; return "{\"r\":\"ok\"}"; }
  if (op == "k.pexe")
  {
    int c = I(1), x = I(2);
    std::string t = hexdec(a[3]);
    bloc_parsing_position pos = { -7, -7 };
    k_exe[x] = bloc_parse_executable(k_ctx[c], t.c_str(), I(4) ? &pos : nullptr);
    return std::string("{\"r\":\"ok\",\"ptr\":") + (k_exe[x] ? "1" : "0") + "," + k_err() + ",\"lno\":" + std::to_string(pos.lno) + ",\"pno\":" + std::to_string(pos.pno) + "}";
  }
  if (op == "k.exec")
  {
    if (!k_exe[I(1)]) return "{\"r\":\"noexe\"}";       /* the parse before failed: executing NULL is not a defined call */
    bloc_bool r = bloc_execute(k_exe[I(1)]);
    return "{\"r\":\"ok\",\"ret\":" + std::to_string((int)r) + "," + k_err() + "}";
  }
  if (op == "k.exec2")
  {
    if (!k_exe[I(2)]) return "{\"r\":\"noexe\"}";
    bloc_bool r = bloc_execute2(k_ctx[I(1)], k_exe[I(2)]);
    return "{\"r\":\"ok\",\"ret\":" + std::to_string((int)r) + "," + k_err() + "}";
  }
  if (op == "k.freeexe") { int x = I(1); bloc_free_executable(k_exe[x]); k_exe[x] = nullptr; return "{\"r\":\"ok\"}"; }
  if (op == "k.drop")
  {
    int c = I(1), v = I(2);
    k_val[v] = bloc_drop_returned(k_ctx[c]);
    return "{\"r\":\"ok\",\"val\":" + k_inspect(k_val[v]) + "}";
  }
  if (op == "k.break") { bloc_break(k_ctx[I(1)]); return "{\"r\":\"ok\"}"; }
  if (op == "k.reset") { bloc_reset_stop(k_ctx[I(1)]); return "{\"r\":\"ok\"}"; }
  if (op == "k.out")
  {
    int c = I(1);
    if (k_ctx[c]) { FILE * f = bloc_ctx_out(k_ctx[c]); if (f) fflush(f); }
    std::string o = read_fd(k_fd[c]);
    return "{\"r\":\"ok\",\"out\":\"" + hexenc(o) + "\"}";
  }
  if (op == "k.trace")
  {
    /* k.trace <ctx> <0|1|q>: set (or only query) the trace flag; returns the flag and whether the streams exist */
    int c = I(1);
    if (a[2] != "q") bloc_ctx_enable_trace(k_ctx[c], a[2] == "1" ? bloc_true : bloc_false);
    bloc_bool t = bloc_ctx_trace(k_ctx[c]);
    FILE * fo = bloc_ctx_out(k_ctx[c]);
    FILE * fe = bloc_ctx_err(k_ctx[c]);
    if (fe) fflush(fe);
    std::string e = read_fd(k_efd[c]);
    return std::string("{\"r\":\"ok\",\"trace\":") + (t ? "1" : "0") + ",\"out\":" + (fo ? "1" : "0") + ",\"err\":" + (fe ? "1" : "0")
        + ",\"errlen\":" + std::to_string(e.size()) + "}";
  }
  if (op == "k.version")
  {
    const char * v = bloc_version();
    const char * h = bloc_version_header();
    return std::string("{\"r\":\"ok\",\"version\":") + jstr(v ? v : "(null)") + ",\"header\":" + jstr(h ? h : "(null)")
        + ",\"compatible\":" + std::to_string(bloc_compatible()) + "}";
  }
  if (op == "k.errno") return "{\"r\":\"ok\"," + k_err() + "}";
  if (op == "k.end")
  {
    for (int i = 0; i < 4; ++i) { if (k_val[i]) { bloc_free_value(k_val[i]); k_val[i] = nullptr; } k_lib[i] = nullptr; }
    for (int i = 0; i < 4; ++i) { if (k_exp[i]) { bloc_free_expression(k_exp[i]); k_exp[i] = nullptr; } }
    for (int i = 0; i < 4; ++i) { if (k_exe[i]) { bloc_free_executable(k_exe[i]); k_exe[i] = nullptr; } }
    for (int i = 3; i >= 0; --i) { if (k_ctx[i]) { bloc_free_context(k_ctx[i]); k_ctx[i] = nullptr; } if (k_fd[i] >= 0) { close(k_fd[i]); k_fd[i] = -1; } if (k_efd[i] >= 0) { close(k_efd[i]); k_efd[i] = -1; } }
    return "{\"r\":\"ok\"}";
  }
  return "{\"r\":\"badop\"}";
}

/* ------------------------------------------------------------------------ */
struct Case { std::string id; std::vector<std::vector<std::string>> ops; };

static std::vector<Case> load_cases(const char * path)
{
  std::vector<Case> cases;
  FILE * f = fopen(path, "r");
  if (!f) { perror(path); exit(2); }
  char * line = nullptr; size_t cap = 0; ssize_t n;
  Case cur; bool in = false;
  while ((n = getline(&line, &cap, f)) > 0)
  {
    while (n > 0 && (line[n - 1] == '\n' || line[n - 1] == '\r')) line[--n] = 0;
    if (n == 0) continue;
    if (line[0] == 'C' && line[1] == ' ') { cur = Case(); cur.id = line + 2; in = true; continue; }
    if (line[0] == '.' && line[1] == 0) { if (in) cases.push_back(std::move(cur)); in = false; continue; }
    std::vector<std::string> toks;
    char * s = line;
    while (*s)
    {
      char * e = strchr(s, ' ');
      if (!e) { toks.push_back(s); break; }
      toks.emplace_back(s, e - s);
      s = e + 1;
    }
    if (in) cur.ops.push_back(std::move(toks));
  }
  free(line);
  fclose(f);
  return cases;
}

static Context * ctx_of(const std::string& a)
{
  int i = atoi(a.c_str());
  if (i < 0 || i > 7) return nullptr;
  return g_ctx[i].ctx;
}

static std::string run_op(const std::vector<std::string>& a)
{
  const std::string& op = a[0];
  g_budget_hit = false;
  g_steps = 0;
  if (op.compare(0, 2, "k.") == 0) return run_kop(a);
  if (op == "ctx")
  {
    int i = atoi(a[1].c_str());
    CtxSlot& s = g_ctx[i];
    if (s.ctx) { delete s.ctx; s.ctx = nullptr; }
    if (s.fdo < 0) s.fdo = memfd_create("vout", 0);
    if (s.fde < 0) s.fde = memfd_create("verr", 0);
    s.ctx = new Context(s.fdo, s.fde);
    if (a.size() > 2 && a[2] == "1") s.ctx->trusted(true);
    return "{\"r\":\"ok\"}";
  }
  if (op == "budget") { g_budget = atol(a[1].c_str()); return "{\"r\":\"ok\"}"; }
  if (op == "run")
  {
    /* run <ctx> <route> <text> ; route: cpp | cpp:<readerspec> | capi | capipos | capi2 (bloc_execute2) */
    Context * c = ctx_of(a[1]);
    if (!c) return "{\"r\":\"noctx\"}";
    std::string text = hexdec(a[3]);
    if (a[2] == "capi") return do_run_capi(*c, text, false);
    if (a[2] == "capipos") return do_run_capi(*c, text, true);
    if (a[2] == "capi2") return do_run_capi(*c, text, false, true);
    if (a[2] == "istmt") return do_run_interactive(*c, text, false);
    if (a[2] == "istmt2") return do_run_interactive(*c, text, true);
    std::string rs = "s";
    if (a[2].size() > 4 && a[2].compare(0, 4, "cpp:") == 0) rs = a[2].substr(4);
    return do_run_cpp(*c, text, rs, false, 0);
  }
  if (op == "parse")
  {
    /* parse <ctx> <eslot> <text> [readerspec] */
    Context * c = ctx_of(a[1]);
    if (!c) return "{\"r\":\"noctx\"}";
    int e = atoi(a[2].c_str());
    if (g_exe[e]) { delete g_exe[e]; g_exe[e] = nullptr; }
    return do_run_cpp(*c, hexdec(a[3]), a.size() > 4 ? a[4] : "s", true, e);
  }
  if (op == "exec")
  {
    /* exec <eslot> [ctx] */
    Context * c = a.size() > 2 ? ctx_of(a[2]) : nullptr;
    return do_exec(atoi(a[1].c_str()), c);
  }
  if (op == "unparse") return do_unparse(atoi(a[1].c_str()));
  if (op == "rt")
  {
    Context * ca = ctx_of(a[1]); Context * cb = ctx_of(a[2]);
    if (!ca || !cb) return "{\"r\":\"noctx\"}";
    return do_roundtrip(*ca, *cb, hexdec(a[3]));
  }
  if (op == "freeexe")
  {
    int e = atoi(a[1].c_str());
    if (g_exe[e]) { delete g_exe[e]; g_exe[e] = nullptr; }
    return "{\"r\":\"ok\"}";
  }
  if (op == "expr")
  {
    Context * c = ctx_of(a[1]);
    if (!c) return "{\"r\":\"noctx\"}";
    return do_expr(*c, hexdec(a[2]));
  }
  if (op == "dump")
  {
    Context * c = ctx_of(a[1]);
    if (!c) return "{\"r\":\"noctx\"}";
    return do_dump(*c, a.size() > 2 ? a[2] : "*");
  }
  if (op == "funcs")
  {
    Context * c = ctx_of(a[1]);
    if (!c) return "{\"r\":\"noctx\"}";
    return do_funcs(*c);
  }
  if (op == "out")
  {
    int i = atoi(a[1].c_str());
    ctx_flush(g_ctx[i]);
    std::string o = read_fd(g_ctx[i].fdo), e = read_fd(g_ctx[i].fde);
    return "{\"r\":\"ok\",\"out\":\"" + hexenc(o) + "\",\"err\":\"" + hexenc(e) + "\"}";
  }
  if (op == "clone")
  {
    Context * c = ctx_of(a[1]);
    if (!c) return "{\"r\":\"noctx\"}";
    int j = atoi(a[2].c_str());
    CtxSlot& s = g_ctx[j];
    if (s.ctx) { delete s.ctx; s.ctx = nullptr; }
    if (s.fdo < 0) s.fdo = memfd_create("vout", 0);
    if (s.fde < 0) s.fde = memfd_create("verr", 0);
    s.ctx = c->clone(s.fdo, s.fde);
    return "{\"r\":\"ok\"}";
  }
  if (op == "purge")
  {
    Context * c = ctx_of(a[1]);
    if (!c) return "{\"r\":\"noctx\"}";
    c->purge();
    return "{\"r\":\"ok\"}";
  }
  if (op == "purgewm")
  {
    Context * c = ctx_of(a[1]);
    if (!c) return "{\"r\":\"noctx\"}";
    c->purgeWorkingMemory();
    return "{\"r\":\"ok\"}";
  }
  if (op == "free")
  {
    int i = atoi(a[1].c_str());
    if (g_ctx[i].ctx) { delete g_ctx[i].ctx; g_ctx[i].ctx = nullptr; }
    return "{\"r\":\"ok\"}";
  }
  if (op == "trusted")
  {
    Context * c = ctx_of(a[1]);
    if (!c) return "{\"r\":\"noctx\"}";
    c->trusted(a[2] == "1");
    return "{\"r\":\"ok\"}";
  }
  if (op == "tokens")
  {
    Context * c = ctx_of(a[1]);
    if (!c) return "{\"r\":\"noctx\"}";
    return do_tokens(*c, hexdec(a[2]), a.size() > 3 ? a[3] : "s");
  }
  if (op == "setvar")
  {
    Context * c = ctx_of(a[1]);
    if (!c) return "{\"r\":\"noctx\"}";
    return do_setvar(*c, a[2], a[3]);
  }
  /* the grants are given and withdrawn the way a host does it: through the C API */
  if (op == "unban") { bloc_unban_plugin(hexdec(a[1]).c_str()); return "{\"r\":\"ok\"}"; }
  if (op == "clearperm") { bloc_clear_plugin_permissions(); return "{\"r\":\"ok\"}"; }
  if (op == "vlog")
  {
    /* fetch and reset the event log of the verification modules */
    const char * e = getenv("VMOD_LOG_FD");
    std::string l = e ? read_fd(atoi(e)) : std::string();
    return "{\"r\":\"ok\",\"log\":" + jstr(l) + "}";
  }
  if (op == "mkfile" || op == "rmfile")
  {
    std::string path = hexdec(a[1]);
    unlink(path.c_str());
    if (op == "mkfile")
    {
      std::string data = a.size() > 2 ? hexdec(a[2]) : std::string();
      FILE * f = fopen(path.c_str(), "wb");
      if (!f) return "{\"r\":\"ioerr\"}";
      fwrite(data.data(), 1, data.size(), f);
      fclose(f);
    }
    return "{\"r\":\"ok\"}";
  }
  if (op == "isolate") { g_isolate = true; return "{\"r\":\"ok\"}"; }
  if (op == "nodrop") { g_nodrop = (a.size() > 1 && a[1] == "1"); return "{\"r\":\"ok\"}"; }
  if (op == "deinit") { bloc_deinit_plugins(); return "{\"r\":\"ok\"}"; }
  if (op == "leakcheck")
  {
    off_t before = lseek(2, 0, SEEK_END);
    int l = __lsan_do_recoverable_leak_check();
    std::string rep;
    if (l && before >= 0)
    {
      off_t end = lseek(2, 0, SEEK_END);
      if (end > before)
      {
        rep.resize(std::min<off_t>(end - before, 6000));
        if (pread(2, &rep[0], rep.size(), before) < 0) rep.clear();
      }
    }
    return std::string("{\"r\":\"ok\",\"leak\":") + (l ? "1" : "0") + ",\"report\":" + jstr(rep) + "}";
  }
  return "{\"r\":\"badop\",\"op\":" + jstr(op) + "}";
}

/* ------------------------------------------------------------------------ */
static int g_errfd = -1;   /* memfd receiving the child's stderr */

static void on_vtalrm(int) { _exit(77); }

static void child_main(const std::vector<Case>& cases, size_t start, int wfd, long cpu_ms)
{
  FILE * w = fdopen(wfd, "w");
  bloc_verif_point_cb = &point_cb;
  signal(SIGVTALRM, on_vtalrm);
  {
    int lfd = memfd_create("vmodlog", 0);
    char b[32]; snprintf(b, sizeof(b), "%d", lfd);
    setenv("VMOD_LOG_FD", b, 1);
  }
  for (size_t i = start; i < cases.size(); ++i)
  {
    const Case& c = cases[i];
    /* announce, so the parent knows which case is in flight */
    fprintf(w, "B %zu\n", i);
    fflush(w);
    struct itimerval tv = { {0, 0}, { cpu_ms / 1000, (cpu_ms % 1000) * 1000 } };
    setitimer(ITIMER_VIRTUAL, &tv, nullptr);
    g_ubsan.clear();
    g_budget = 200000;
    std::string line = "{\"id\":" + jstr(c.id) + ",\"st\":\"done\",\"steps\":[";
    bool leak = false;
    for (size_t k = 0; k < c.ops.size(); ++k)
    {
      if (k) line.push_back(',');
      std::string r;
      try { r = run_op(c.ops[k]); }
      catch (std::exception& e) { r = foreign_json(e.what(), typeid(e).name()); }
      catch (...) { r = foreign_json("", "unknown"); }
      if (r.find("\"leak\":1") != std::string::npos) leak = true;
      line += r;
    }
    line += "],\"ubsan\":[";
    for (size_t k = 0; k < g_ubsan.size(); ++k) { if (k) line.push_back(','); line += jstr(g_ubsan[k]); }
    line += "]}";
    struct itimerval off = { {0, 0}, {0, 0} };
    setitimer(ITIMER_VIRTUAL, &off, nullptr);
    free_all();
    fprintf(w, "R %zu %s\n", i, line.c_str());
    fflush(w);
    if (!g_ubsan.empty() || leak || g_isolate)
    {
      /* retire: UBSan reports a location once per process, a leak is reported forever */
      fprintf(w, "Q %zu\n", i);
      fflush(w);
      _exit(0);
    }
  }
  fprintf(w, "Q %zu\n", cases.size());
  fflush(w);
  _exit(0);
}

int main(int argc, char ** argv)
{
  if (argc < 2) { fprintf(stderr, "usage: vdrv <casefile> [cpu_ms]\n"); return 2; }
  long cpu_ms = argc > 2 ? atol(argv[2]) : 2000;
  std::vector<Case> cases = load_cases(argv[1]);
  signal(SIGPIPE, SIG_IGN);
  size_t next = 0;
  while (next < cases.size())
  {
    int pfd[2];
    if (pipe(pfd)) { perror("pipe"); return 2; }
    int efd = memfd_create("cerr", 0);
    fflush(stdout);
    pid_t pid = fork();
    if (pid == 0)
    {
      close(pfd[0]);
      dup2(efd, 2);
      int nfd = open("/dev/null", O_RDONLY);
      dup2(nfd, 0);
      /* builtins such as input() write their prompt to the process stdout: keep it out of the result stream */
      int ofd = open("/dev/null", O_WRONLY);
      dup2(ofd, 1);
      struct rlimit rl = { 0, 0 };
      setrlimit(RLIMIT_CORE, &rl);
      child_main(cases, next, pfd[1], cpu_ms);
      _exit(0);
    }
    close(pfd[1]);
    FILE * r = fdopen(pfd[0], "r");
    char * line = nullptr; size_t cap = 0; ssize_t n;
    long inflight = -1; bool quit = false; size_t done_upto = next;
    while ((n = getline(&line, &cap, r)) > 0)
    {
      if (line[0] == 'B') { inflight = atol(line + 2); }
      else if (line[0] == 'R')
      {
        char * sp = strchr(line + 2, ' ');
        size_t idx = atol(line + 2);
        fputs(sp + 1, stdout);
        inflight = -1;
        done_upto = idx + 1;
      }
      else if (line[0] == 'Q') { quit = true; }
    }
    free(line);
    fclose(r);
    int status = 0;
    waitpid(pid, &status, 0);
    if (quit && inflight < 0) { next = done_upto; close(efd); continue; }
    /* the child died while running case `inflight` (or before announcing) */
    size_t idx = inflight >= 0 ? (size_t)inflight : done_upto;
    std::string err = read_fd(efd);
    close(efd);
    if (err.size() > 6000) err = err.substr(0, 3000) + "\n...\n" + err.substr(err.size() - 3000);
    const char * st = "crash";
    int sig = 0, code = 0;
    if (WIFSIGNALED(status)) sig = WTERMSIG(status);
    else if (WIFEXITED(status)) { code = WEXITSTATUS(status); if (code == 77) st = "hang"; }
    if (idx < cases.size())
      printf("{\"id\":%s,\"st\":\"%s\",\"sig\":%d,\"code\":%d,\"stderr\":%s,\"steps\":[],\"ubsan\":[]}\n",
             jstr(cases[idx].id).c_str(), st, sig, code, jstr(err).c_str());
    next = idx + 1;
  }
  fflush(stdout);
  return 0;
}
