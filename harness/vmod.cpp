/*
 * vmod — verification-only BLOC module (also built as vmod2 with -DVMOD_NAME="vmod2").
 *
 * Every object is a separate heap block (so AddressSanitizer guards it) carrying a magic number and an id.
 * Every create / destroy / method event is appended to the fd named by the environment variable VMOD_LOG_FD:
 *   C <module> <id> <ctor> <args>
 *   D <module> <id>
 *   M <module> <id> <method> <args>
 * A destroy of something that is not a live object of this module is logged as "X <module> bad-destroy".
 */
#include <atomic>
#include <blocc/plugin.h>
#include <blocc/exception_runtime.h>
#include <blocc/collection.h>
#include <blocc/tuple.h>

#include <cstdio>
#include <cstdlib>
#include <cstring>
#include <string>
#include <unistd.h>

#ifndef VMOD_NAME
#define VMOD_NAME "vmod"
#endif
#define VMOD_MAGIC 0x564d4f44u

namespace bloc
{
namespace plugin
{

struct VObj
{
  unsigned magic;
  int id;
  long val;
  char tag[8];
};

/* clones of a context run the module on several threads at once */
static std::atomic<int> g_next_id(1);

static void vlog(const std::string& line)
{
  const char * e = getenv("VMOD_LOG_FD");
  if (!e) return;
  int fd = atoi(e);
  std::string l = line + "\n";
  if (write(fd, l.data(), l.size()) < 0) { }
}

static std::string hexs(const char * d, size_t n)
{
  static const char * H = "0123456789abcdef";
  std::string o;
  for (size_t i = 0; i < n; ++i) { unsigned char c = d[i]; o.push_back(H[c >> 4]); o.push_back(H[c & 15]); }
  return o;
}

static std::string argdump(bloc::Context& ctx, const std::vector<bloc::Expression*>& args)
{
  std::string o;
  for (size_t i = 0; i < args.size(); ++i)
  {
    bloc::Value& v = args[i]->value(ctx).deref_value();
    if (i) o += ",";
    if (v.isNull()) { o += "null"; continue; }
    if (v.type().level() > 0) { o += "table" + std::to_string(v.collection()->size()); continue; }
    switch (v.type().major())
    {
    case bloc::Type::BOOLEAN: o += *v.boolean() ? "b1" : "b0"; break;
    case bloc::Type::INTEGER: o += "i" + std::to_string(*v.integer()); break;
    case bloc::Type::NUMERIC: { char b[64]; snprintf(b, sizeof(b), "d%a", *v.numeric()); o += b; break; }
    case bloc::Type::LITERAL: o += "s" + hexs(v.literal()->data(), v.literal()->size()); break;
    case bloc::Type::TABCHAR: o += "x" + hexs(v.tabchar()->data(), v.tabchar()->size()); break;
    case bloc::Type::COMPLEX:
    {
      VObj * p = static_cast<VObj*>(v.complex()->instance());
      o += "o" + std::to_string(p ? p->id : -1);
      break;
    }
    case bloc::Type::ROWTYPE: o += "tuple" + std::to_string(v.tuple()->size()); break;
    default: o += "?";
    }
  }
  return o;
}

enum Method { Id = 0, Get, Set, Self, Other, Add, Out, Fail, Make, Mod, Hold, Renew };

static PLUGIN_TYPE ctor_0_args[] = { { "I", 0 } };
static PLUGIN_TYPE ctor_1_args[] = { { "O", 0 } };
static PLUGIN_TYPE ctor_2_args[] = { { "L", 0 } };
static PLUGIN_TYPE ctor_3_args[] = { { "I", 0 }, { "I", 0 } };

static PLUGIN_CTOR ctors[] =
{
  { 0, 1, ctor_0_args, "object with a value" },
  { 1, 1, ctor_1_args, "copy constructor: a new object with the same value" },
  { 2, 1, ctor_2_args, "object from a string; \"fail\" throws, \"null\" returns no object" },
  { 3, 2, ctor_3_args, "object with the sum of two values" },
};

static PLUGIN_ARG int_args[] = { { PLUGIN_IN, { "I", 0 } } };
static PLUGIN_ARG obj_args[] = { { PLUGIN_IN, { "O", 0 } } };
static PLUGIN_ARG add_args[] = { { PLUGIN_IN, { "I", 0 } }, { PLUGIN_IN, { "L", 0 } }, { PLUGIN_IN, { "N", 0 } }, { PLUGIN_IN, { "B", 0 } }, { PLUGIN_IN, { "X", 0 } } };
static PLUGIN_ARG out_args[] = { { PLUGIN_INOUT, { "I", 0 } } };
static PLUGIN_ARG renew_args[] = { { PLUGIN_INOUT, { "O", 0 } }, { PLUGIN_IN, { "I", 0 } } };

static PLUGIN_METHOD methods[] =
{
  { Id,    "id",    { "I", 0 }, 0, nullptr,  "the identifier of the object" },
  { Get,   "get",   { "I", 0 }, 0, nullptr,  "the value" },
  { Set,   "set",   { "O", 0 }, 1, int_args, "set the value, returns itself" },
  { Self,  "self",  { "O", 0 }, 0, nullptr,  "returns itself" },
  { Other, "other", { "O", 0 }, 1, obj_args, "returns the given object" },
  { Add,   "add",   { "I", 0 }, 5, add_args, "logs its five arguments, returns value + first" },
  { Out,   "out",   { "B", 0 }, 1, out_args, "stores the value into the given variable" },
  { Fail,  "fail",  { "I", 0 }, 0, nullptr,  "always throws" },
  { Make,  "make",  { "O", 0 }, 0, nullptr,  "returns a new object with value + 1" },
  { Mod,   "mod",   { "L", 0 }, 0, nullptr,  "the name of the module executing the method" },
  { Hold,  "hold",  { "I", 0 }, 1, int_args, "evaluates its argument once, then looks at its own object again: returns value + argument" },
  { Renew, "renew", { "O", 0 }, 2, renew_args, "stores a new object into the given variable (which may be the receiver), looks at its own object again, returns itself" },
};

class VPlugin final : public PluginBase
{
public:
  void declareInterface(PLUGIN_INTERFACE * interface) override
  {
    interface->name = VMOD_NAME;
    interface->method_count = sizeof(methods) / sizeof(PLUGIN_METHOD);
    interface->methods = methods;
    interface->ctors_count = sizeof(ctors) / sizeof(PLUGIN_CTOR);
    interface->ctors = ctors;
  }

  static VObj * make(long val, const char * how, const std::string& args)
  {
    VObj * o = new VObj;
    o->magic = VMOD_MAGIC;
    o->id = g_next_id++;
    o->val = val;
    strncpy(o->tag, VMOD_NAME, sizeof(o->tag) - 1);
    o->tag[sizeof(o->tag) - 1] = 0;
    vlog(std::string("C ") + VMOD_NAME + " " + std::to_string(o->id) + " " + how + " " + args);
    return o;
  }

  void * createObject(int ctor_id, bloc::Context& ctx, const std::vector<bloc::Expression*>& args) override
  {
    std::string ad = argdump(ctx, args);
    switch (ctor_id)
    {
    case 0:
    {
      bloc::Value& a0 = args[0]->value(ctx);
      return make(a0.isNull() ? -1 : *a0.integer(), "ctor0", ad);
    }
    case 1:
    {
      bloc::Value& a0 = args[0]->value(ctx);
      if (a0.isNull())
        throw RuntimeError(EXC_RT_OTHER_S, "vmod: null object");
      VObj * src = static_cast<VObj*>(a0.complex()->instance());
      if (src->magic != VMOD_MAGIC || strcmp(src->tag, VMOD_NAME) != 0)
        vlog(std::string("X ") + VMOD_NAME + " copy-of-foreign-object");
      return make(src->val, "copy", ad);
    }
    case 2:
    {
      bloc::Value& a0 = args[0]->value(ctx);
      if (!a0.isNull() && *a0.literal() == "fail")
        throw RuntimeError(EXC_RT_OTHER_S, "vmod: constructor failed");
      if (!a0.isNull() && *a0.literal() == "null")
        return nullptr;
      return make(a0.isNull() ? 0 : (long)a0.literal()->size(), "ctor2", ad);
    }
    case 3:
    {
      bloc::Value& a0 = args[0]->value(ctx);
      bloc::Value& a1 = args[1]->value(ctx);
      return make((a0.isNull() ? 0 : *a0.integer()) + (a1.isNull() ? 0 : *a1.integer()), "ctor3", ad);
    }
    default:
      return make(0, "default", ad);
    }
  }

  void destroyObject(void * object) override
  {
    VObj * o = static_cast<VObj*>(object);
    if (!o || o->magic != VMOD_MAGIC || strcmp(o->tag, VMOD_NAME) != 0)
    {
      vlog(std::string("X ") + VMOD_NAME + " bad-destroy");
      return;
    }
    vlog(std::string("D ") + VMOD_NAME + " " + std::to_string(o->id));
    o->magic = 0;
    delete o;
  }

  Value * executeMethod(bloc::Complex& object_this, int method_id, bloc::Context& ctx, const std::vector<bloc::Expression*>& args) override
  {
    VObj * o = static_cast<VObj*>(object_this.instance());
    /* reading the block of a destroyed object is caught by AddressSanitizer */
    if (o->magic != VMOD_MAGIC || strcmp(o->tag, VMOD_NAME) != 0)
      vlog(std::string("X ") + VMOD_NAME + " method-on-foreign-object " + methods[method_id].name);
    if (method_id == Hold)
    {
      /* the argument is evaluated exactly once, while the method is running; the object must still be there afterwards */
      long id0 = o->id;
      bloc::Value& a0 = args[0]->value(ctx);
      long n = a0.isNull() ? 0 : *a0.integer();
      vlog(std::string("M ") + VMOD_NAME + " " + std::to_string(id0) + " hold-after-argument i" + std::to_string(n));
      if (o->magic != VMOD_MAGIC)
        vlog(std::string("X ") + VMOD_NAME + " object-gone-during-its-own-method hold");
      return new bloc::Value(bloc::Integer(o->val + n));
    }
    vlog(std::string("M ") + VMOD_NAME + " " + std::to_string(o->id) + " " + methods[method_id].name + " " + argdump(ctx, args));
    switch (method_id)
    {
    case Id:
      return new bloc::Value(bloc::Integer(o->id));
    case Get:
      return new bloc::Value(bloc::Integer(o->val));
    case Set:
    {
      bloc::Value& a0 = args[0]->value(ctx);
      if (!a0.isNull())
        o->val = *a0.integer();
      return new bloc::Value(new bloc::Complex(object_this));
    }
    case Self:
      return new bloc::Value(new bloc::Complex(object_this));
    case Other:
    {
      bloc::Value& a0 = args[0]->value(ctx);
      if (a0.isNull())
        return new bloc::Value(bloc::Type(bloc::Type::COMPLEX, object_this.typeId()));
      {
        /* the argument is declared as an object of this module */
        VObj * src = static_cast<VObj*>(a0.complex()->instance());
        if (src->magic != VMOD_MAGIC || strcmp(src->tag, VMOD_NAME) != 0)
          vlog(std::string("X ") + VMOD_NAME + " foreign-object-as-argument other");
      }
      return new bloc::Value(new bloc::Complex(*a0.complex()));
    }
    case Add:
    {
      bloc::Value& a0 = args[0]->value(ctx);
      return new bloc::Value(bloc::Integer(o->val + (a0.isNull() ? 0 : *a0.integer())));
    }
    case Out:
    {
      if (!args[0]->isVarName())
        throw RuntimeError(EXC_RT_OTHER_S, "vmod: variable required");
      ctx.storeVariable(args[0]->symbolId(), bloc::Value(bloc::Integer(o->val)));
      return new bloc::Value(bloc::Bool(true));
    }
    case Renew:
    {
      if (!args[0]->isVarName())
        throw RuntimeError(EXC_RT_OTHER_S, "vmod: variable required");
      long id0 = o->id;
      bloc::Value& a1 = args[1]->value(ctx);
      std::vector<bloc::Expression*> none;
      bloc::Complex * c = bloc::Complex::newInstance(object_this.typeId(), -1, ctx, none);
      if (c == nullptr)
        return nullptr;
      static_cast<VObj*>(c->instance())->val = a1.isNull() ? 0 : *a1.integer();
      /* the variable may hold the last reference to this very object */
      ctx.storeVariable(args[0]->symbolId(), bloc::Value(c));
      vlog(std::string("M ") + VMOD_NAME + " " + std::to_string(id0) + " renew-after-store i" + std::to_string(o->val));
      if (o->magic != VMOD_MAGIC)
        vlog(std::string("X ") + VMOD_NAME + " object-gone-during-its-own-method renew");
      return new bloc::Value(new bloc::Complex(object_this));
    }
    case Fail:
      throw RuntimeError(EXC_RT_OTHER_S, "vmod: method failed");
    case Make:
    {
      /* a new object of this module, made by the default constructor */
      std::vector<bloc::Expression*> none;
      bloc::Complex * c = bloc::Complex::newInstance(object_this.typeId(), -1, ctx, none);
      if (c == nullptr)
        return nullptr;
      static_cast<VObj*>(c->instance())->val = o->val + 1;
      return new bloc::Value(c);
    }
    case Mod:
      return new bloc::Value(new bloc::Literal(VMOD_NAME));
    default:
      return nullptr;
    }
  }
};

}
}

extern "C" LIBBLOC_DLL_EXPORT PLUGIN_HANDLE PLUGIN_create() { return new bloc::plugin::VPlugin; }
extern "C" LIBBLOC_DLL_EXPORT int PLUGIN_version() { return PLUGIN_VERSION; }
