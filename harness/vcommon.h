/* helpers shared by the harness programs: hex/JSON text and the canonical dump of types and values */
#ifndef VCOMMON_H_
#define VCOMMON_H_

#include <blocc/context.h>
#include <blocc/collection.h>
#include <blocc/tuple.h>
#include <blocc/complex.h>
#include <blocc/value.h>

#include <cmath>
#include <cstring>
#include <cstdio>
#include <string>
#include <cstdlib>

using namespace bloc;

/* ------------------------------------------------------------------------ */
static std::string hexenc(const char *d, size_t n)
{
  static const char *H = "0123456789abcdef";
  std::string o; o.reserve(n * 2);
  for (size_t i = 0; i < n; ++i) { unsigned char c = d[i]; o.push_back(H[c >> 4]); o.push_back(H[c & 15]); }
  return o;
}
static std::string hexenc(const std::string& s) { return hexenc(s.data(), s.size()); }
static std::string hexdec(const std::string& s)
{
  std::string o;
  size_t i = (s.size() && s[0] == 'x') ? 1 : 0;
  auto v = [](char c) { return c <= '9' ? c - '0' : (c | 32) - 'a' + 10; };
  for (; i + 1 < s.size(); i += 2) o.push_back((char)(v(s[i]) * 16 + v(s[i + 1])));
  return o;
}
static std::string jstr(const std::string& s)
{
  std::string o = "\"";
  for (unsigned char c : s)
  {
    if (c == '"' || c == '\\') { o.push_back('\\'); o.push_back(c); }
    else if (c < 0x20 || c >= 0x7f) { char b[8]; snprintf(b, sizeof(b), "\\u%04x", c); o += b; }
    else o.push_back(c);
  }
  o.push_back('"');
  return o;
}

/* ------------------------------------------------------------------------ */
/* canonical dump of types and values                                       */
static std::string type_str(const Type& t, const TupleDecl::Decl * decl)
{
  std::string o(Type::typeName(t.major()));
  if (t.major() == Type::ROWTYPE)
  {
    o.push_back('{');
    if (decl)
      for (size_t i = 0; i < decl->size(); ++i)
      {
        if (i) o.push_back(',');
        o += Type::typeName((*decl)[i].major());
        if ((*decl)[i].major() == Type::COMPLEX) o += "#" + std::to_string((*decl)[i].minor());
      }
    else
      o += "?";
    o.push_back('}');
    if (t.minor() == 0) o += "?opaque";
  }
  else if (t.major() == Type::COMPLEX)
    o += "#" + std::to_string(t.minor());
  if (t.level()) o += "*" + std::to_string((int)t.level());
  return o;
}

static std::string dbl_str(double d)
{
  if (std::isnan(d)) return "nan";
  char b[64]; snprintf(b, sizeof(b), "%a", d); return b;
}

static void dump_value(std::string& o, Value& v0, int depth = 0)
{
  if (depth > 16) { o += "<deep>"; return; }
  Value * pv = &v0;
  if (!pv->isNull() && pv->type() == Type::POINTER && pv->type().level() == 0)
  {
    o += "P>";
    pv = pv->value();
    if (!pv) { o += "nil"; return; }
    /* follow chain */
    int n = 0;
    while (!pv->isNull() && pv->type() == Type::POINTER && pv->type().level() == 0 && n++ < 8)
      pv = pv->value();
  }
  Value& v = *pv;
  const Type& t = v.type();
  if (v.isNull())
  {
    o += "N(" + type_str(t, nullptr) + ")";
    return;
  }
  if (t.level() > 0)
  {
    Collection * c = v.collection();
    o += "T(" + type_str(c->table_type(), &c->table_decl()) + ")";
    if (!(c->table_type() == t)) o += "!vt=" + type_str(t, nullptr);
    o.push_back('[');
    for (size_t i = 0; i < c->size(); ++i)
    {
      if (i) o.push_back(',');
      dump_value(o, (*c)[i], depth + 1);
    }
    o.push_back(']');
    return;
  }
  switch (t.major())
  {
  case Type::BOOLEAN: o += *v.boolean() ? "b1" : "b0"; break;
  case Type::INTEGER: o += "i" + std::to_string(*v.integer()); break;
  case Type::NUMERIC: o += "d" + dbl_str(*v.numeric()); break;
  case Type::IMAGINARY: o += "c" + dbl_str(v.imaginary()->a) + "," + dbl_str(v.imaginary()->b); break;
  case Type::LITERAL: o += "s" + hexenc(*v.literal()); break;
  case Type::TABCHAR: o += "x" + hexenc(v.tabchar()->data(), v.tabchar()->size()); break;
  case Type::ROWTYPE:
  {
    Tuple * r = v.tuple();
    o += "R(" + type_str(r->tuple_type(), &r->tuple_decl()) + ")";
    if (!(r->tuple_type() == t)) o += "!vt=" + type_str(t, nullptr);
    o.push_back('{');
    for (size_t i = 0; i < r->size(); ++i)
    {
      if (i) o.push_back(',');
      dump_value(o, (*r)[i], depth + 1);
    }
    o.push_back('}');
    break;
  }
  case Type::COMPLEX:
  {
    Complex * c = v.complex();
    const char * name = c->typeIdName();
    o += "o#";
    o += (name ? name : "?");
    if (name && strncmp(name, "vmod", 4) == 0 && c->instance())
    {
      /* objects of the verification module start with a magic number and an id (reading a destroyed one is an ASan error) */
      struct Head { unsigned magic; int id; };
      Head * h = static_cast<Head*>(c->instance());
      /* ids come from one counter of the process: where several threads create objects they depend on the schedule */
      static const bool noid = getenv("VDUMP_NO_OBJECT_ID") != nullptr;
      o += (h->magic == 0x564d4f44u ? (noid ? std::string(":live") : ":" + std::to_string(h->id)) : std::string(":DEAD"));
    }
    break;
  }
  default:
    o += "?" + std::to_string((int)t.major());
  }
}


#endif /* VCOMMON_H_ */
