"""python3 -m vf.probe 'program text' ['second program' ...]  — run programs in one context and show results."""
import json
import sys

from .core import Case, op_ctx, op_run, op_dump, op_out, run_batch, unhex, generic_safety


def main(argv):
    route = "cpp"
    ops = [op_ctx()]
    for p in argv:
        if p.startswith("--route="):
            route = p.split("=", 1)[1]
            continue
        ops.append(op_run(p, route=route))
    ops += [op_dump(), "funcs 0", op_out()]
    c = Case("probe", ops)
    r = run_batch([c], 10000)[0]
    if r.get("st") != "done":
        print(json.dumps(r, indent=1)[:6000].replace("\\n", "\n"))
        return
    for s in r["steps"]:
        if "out" in s:
            print("STDOUT:", unhex(s["out"]).decode("latin-1"))
            print("STDERR:", unhex(s["err"]).decode("latin-1"))
        elif "vars" in s:
            for k, v in s["vars"].items():
                print("  %s : %s" % (k, v))
            print("  ", {k: v for k, v in s.items() if k not in ("vars", "r")})
        else:
            print(s)
    print("UBSAN:", r["ubsan"], [v.key for v in generic_safety(c, r)])


main(sys.argv[1:])
