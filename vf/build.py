"""Builds of janbar/BLOC (always from the current working tree of the repository) and of the harness.

Trees (under /verif/build):
  asan      clang 14, -DBLOC_VERIF, ASan+UBSan, library + CLI + modules
  tsan      clang 14, -DBLOC_VERIF, TSan, library only
  baseline  gcc, guard off, BUILD_TESTING=ON  (hooks.baseline_off_cmd)
"""
import fcntl
import hashlib
import json
import os
import shutil
import subprocess
import sys
import time

VERIF = os.path.dirname(os.path.dirname(os.path.abspath(__file__)))
REPO = os.environ.get("VERIF_REPO", "/repo")
BUILD = os.path.join(VERIF, "build") if REPO == "/repo" else os.path.join(VERIF, "build", "alt-" + hashlib.sha1(REPO.encode()).hexdigest()[:8])
HARNESS = os.path.join(VERIF, "harness")
NCPU = os.cpu_count() or 4

SRC_DIRS = ["blocc", "apps", "modules", "msgdb", "cmake", "tests"]

SAN = "-fsanitize=address,undefined -fno-omit-frame-pointer -fno-sanitize-recover=null,bounds"
# null deref and bounds stay recoverable=off? keep everything recoverable except what would crash anyway
SAN = "-fsanitize=address,undefined -fno-omit-frame-pointer"

TREES = {
    # the sanitizer trees are compiled by clang through harness/cxxwrap, which hands a translation unit that clang refuses
    # and gcc accepts (the project's own compiler) to gcc with the same flags
    "asan": dict(
        cc=os.path.join(HARNESS, "ccwrap"), cxx=os.path.join(HARNESS, "cxxwrap"),
        flags="-DBLOC_VERIF " + SAN,
        rel="-O1 -g -DNDEBUG",
        link=SAN,
        targets=["blocc", "bloc", "bloc_csv", "bloc_file", "bloc_utf8", "bloc_sqlite3"],
        extra=[],
    ),
    "tsan": dict(
        cc=os.path.join(HARNESS, "ccwrap"), cxx=os.path.join(HARNESS, "cxxwrap"),
        flags="-DBLOC_VERIF -fsanitize=thread -fno-omit-frame-pointer",
        rel="-O1 -g -DNDEBUG",
        link="-fsanitize=thread",
        targets=["blocc"],
        extra=[],
    ),
    # the compiler and optimisation level users build with, hooks on, no sanitizer: value-level checks are repeated against
    # it because undefined behaviour may only show with one compiler (e.g. std::abs(INT64_MIN))
    "gcc": dict(
        cc="gcc", cxx="g++",
        flags="-DBLOC_VERIF",
        rel="-O2 -DNDEBUG",
        link="",
        targets=["blocc"],
        extra=[],
        harness_flags="-DVDRV_NOSAN",
    ),
    "baseline": dict(
        cc="gcc", cxx="g++",
        flags="",
        rel="-O2 -DNDEBUG",
        link="",
        targets=["all"],
        extra=["-DBUILD_TESTING=ON"],
    ),
}


def log(msg):
    sys.stderr.write("[build] %s\n" % msg)
    sys.stderr.flush()


def _source_files():
    out = []
    top = os.path.join(REPO, "CMakeLists.txt")
    if os.path.exists(top):
        out.append(top)
    for d in SRC_DIRS:
        base = os.path.join(REPO, d)
        for root, dirs, files in os.walk(base):
            dirs.sort()
            for f in sorted(files):
                out.append(os.path.join(root, f))
    return out


def source_hashes():
    h = {}
    for p in _source_files():
        try:
            with open(p, "rb") as f:
                h[os.path.relpath(p, REPO)] = hashlib.sha1(f.read()).hexdigest()
        except OSError:
            pass
    return h


def tree_dir(name):
    return os.path.join(BUILD, name)


class Lock:
    def __init__(self, name):
        os.makedirs(BUILD, exist_ok=True)
        self.path = os.path.join(BUILD, name + ".lock")

    def __enter__(self):
        self.f = open(self.path, "w")
        fcntl.flock(self.f, fcntl.LOCK_EX)
        return self

    def __exit__(self, *a):
        fcntl.flock(self.f, fcntl.LOCK_UN)
        self.f.close()


def _run(cmd, cwd=None, env=None, quiet=True):
    p = subprocess.run(cmd, cwd=cwd, env=env, stdout=subprocess.PIPE, stderr=subprocess.STDOUT)
    if p.returncode != 0:
        sys.stderr.write(p.stdout.decode(errors="replace")[-8000:])
        raise SystemExit("build command failed: %s" % " ".join(cmd))
    return p.stdout.decode(errors="replace")


def _stale_objects(tdir, changed):
    """Remove objects that depend on files whose content changed (mtime may not say so)."""
    whole = False
    for rel in changed:
        if not (rel.endswith(".cpp") or rel.endswith(".c")) or rel.startswith("tests/"):
            whole = True
    removed = 0
    if whole:
        for root, dirs, files in os.walk(tdir):
            for f in files:
                if f.endswith(".o"):
                    os.unlink(os.path.join(root, f))
                    removed += 1
        # cmake must re-run when a CMakeLists changed
        if any(r.endswith("CMakeLists.txt") or r.endswith(".cmake") for r in changed):
            cache = os.path.join(tdir, "CMakeCache.txt")
            if os.path.exists(cache):
                os.utime(os.path.join(REPO, "CMakeLists.txt")) if False else None
        return removed
    for rel in changed:
        base = os.path.basename(rel) + ".o"
        for root, dirs, files in os.walk(tdir):
            for f in files:
                if f == base:
                    os.unlink(os.path.join(root, f))
                    removed += 1
    return removed


def build_tree(name):
    cfg = TREES[name]
    tdir = tree_dir(name)
    with Lock(name):
        os.makedirs(tdir, exist_ok=True)
        t0 = time.time()
        hashes = source_hashes()
        mpath = os.path.join(tdir, "verif-src-hashes.json")
        old = {}
        if os.path.exists(mpath):
            try:
                old = json.load(open(mpath))
            except Exception:
                old = {}
        if old.get("__repo__") not in (None, REPO):
            shutil.rmtree(tdir)
            os.makedirs(tdir)
            old = {}
        changed = [r for r in hashes if old.get(r) not in (None, hashes[r])]
        changed += [r for r in old if r not in hashes and r != "__repo__"]
        added = [r for r in hashes if r not in old]
        if changed:
            n = _stale_objects(tdir, changed)
            log("%s: %d source file(s) changed content, %d object(s) invalidated" % (name, len(changed), n))
        need_cfg = not os.path.exists(os.path.join(tdir, "build.ninja")) or bool(added and old) or \
            any(r.endswith("CMakeLists.txt") or r.endswith(".cmake") for r in changed)
        if need_cfg:
            cmd = ["cmake", "-G", "Ninja", "-S", REPO, "-B", tdir,
                   "-DCMAKE_BUILD_TYPE=Release",
                   "-DCMAKE_C_COMPILER=" + cfg["cc"], "-DCMAKE_CXX_COMPILER=" + cfg["cxx"],
                   "-DCMAKE_C_FLAGS=" + cfg["flags"], "-DCMAKE_CXX_FLAGS=" + cfg["flags"],
                   "-DCMAKE_C_FLAGS_RELEASE=" + cfg["rel"], "-DCMAKE_CXX_FLAGS_RELEASE=" + cfg["rel"],
                   "-DCMAKE_SHARED_LINKER_FLAGS=" + cfg["link"], "-DCMAKE_EXE_LINKER_FLAGS=" + cfg["link"],
                   "-DCMAKE_MODULE_LINKER_FLAGS=" + cfg["link"]] + cfg["extra"]
            _run(cmd)
        out = _run(["cmake", "--build", tdir, "-j", str(NCPU), "--target"] + cfg["targets"])
        hashes["__repo__"] = REPO
        with open(mpath, "w") as f:
            json.dump(hashes, f)
        dt = time.time() - t0
        if dt > 2:
            log("%s built in %.1fs" % (name, dt))
    return tdir


def lib_dirs(name="asan"):
    t = tree_dir(name)
    return [os.path.join(t, "blocc")] + [os.path.join(t, "modules", m) for m in ("csv", "file", "utf8", "sqlite3")]


def header_key():
    h = hashlib.sha1()
    for root, dirs, files in os.walk(os.path.join(REPO, "blocc")):
        dirs.sort()
        for f in sorted(files):
            if f.endswith(".h"):
                with open(os.path.join(root, f), "rb") as fh:
                    h.update(f.encode())
                    h.update(fh.read())
    return h.hexdigest()


def build_harness_bin(out_name, sources, tree="asan", extra_flags="", libs="", deps=()):
    """Compile a harness program against a tree; rebuilt when its sources or the repo headers change."""
    cfg = TREES[tree]
    hdir = os.path.join(BUILD, "harness-" + tree)
    with Lock("harness-" + tree + "-" + out_name):
        os.makedirs(hdir, exist_ok=True)
        out = os.path.join(hdir, out_name)
        key = hashlib.sha1()
        key.update(header_key().encode())
        key.update((cfg["flags"] + cfg.get("harness_flags", "") + extra_flags + libs + REPO).encode())
        for s in list(sources) + list(deps):
            with open(os.path.join(HARNESS, s), "rb") as f:
                key.update(f.read())
        # the shared library itself is found at run time, but relink when it changed size (new symbols)
        stamp = out + ".key"
        k = key.hexdigest()
        if os.path.exists(out) and os.path.exists(stamp) and open(stamp).read() == k:
            return out
        cmd = [cfg["cxx"], "-std=c++11"] + cfg["flags"].split() + cfg["rel"].split() + extra_flags.split() + cfg.get("harness_flags", "").split() + \
              ["-I" + REPO, "-I" + os.path.join(REPO, "blocc"), "-I" + HARNESS] + \
              [os.path.join(HARNESS, s) for s in sources] + \
              ["-o", out, "-L" + os.path.join(tree_dir(tree), "blocc"), "-lblocc", "-ldl", "-lpthread"] + libs.split() + \
              ["-Wl,-rpath," + os.path.join(tree_dir(tree), "blocc")]
        _run(cmd)
        with open(stamp, "w") as f:
            f.write(k)
        return out


def build_vmod(tree="asan"):
    """The verification-only modules libbloc_vmod / libbloc_vmod2 (same source, two names)."""
    cfg = TREES[tree]
    hdir = os.path.join(BUILD, "harness-" + tree)
    res = []
    for name in ("vmod", "vmod2"):
        with Lock("harness-" + tree + "-" + name):
            os.makedirs(hdir, exist_ok=True)
            out = os.path.join(hdir, "libbloc_%s.so.2.9" % name)
            key = hashlib.sha1()
            key.update(header_key().encode())
            key.update((cfg["flags"] + REPO + name).encode())
            with open(os.path.join(HARNESS, "vmod.cpp"), "rb") as f:
                key.update(f.read())
            k = key.hexdigest()
            stamp = out + ".key"
            if not (os.path.exists(out) and os.path.exists(stamp) and open(stamp).read() == k):
                cmd = [cfg["cxx"], "-std=c++11", "-shared", "-fPIC"] + cfg["flags"].split() + cfg["rel"].split() + \
                      ['-DVMOD_NAME="%s"' % name, "-I" + REPO, "-I" + os.path.join(REPO, "blocc"),
                       os.path.join(HARNESS, "vmod.cpp"), "-o", out, "-L" + os.path.join(tree_dir(tree), "blocc"), "-lblocc"]
                _run(cmd)
                with open(stamp, "w") as f:
                    f.write(k)
            res.append(out)
    return res


def ensure(tree="asan", bins=("vdrv",)):
    build_tree(tree)
    res = {}
    for b in bins:
        if b == "vdrv":
            res[b] = build_harness_bin("vdrv", ["vdrv.cpp"], tree, deps=["vcommon.h"])
        if b == "vmod":
            res[b] = build_vmod(tree)
        if b == "sched":
            res[b] = build_harness_bin("sched", ["sched.cpp"], tree, deps=["vcommon.h"])
    return res


def run_env(tree="asan"):
    env = dict(os.environ)
    env["LD_LIBRARY_PATH"] = ":".join(lib_dirs(tree) + [os.path.join(BUILD, "harness-" + tree)])
    env["LC_ALL"] = "C"
    env.pop("ASAN_OPTIONS", None)
    env.pop("UBSAN_OPTIONS", None)
    return env


def baseline_off():
    """Build with the guard off (gcc) and run the repository's test suite."""
    tdir = build_tree("baseline")
    p = subprocess.run(["ctest", "--test-dir", tdir, "-j8", "--timeout", "900"], stdout=subprocess.PIPE,
                       stderr=subprocess.STDOUT)
    out = p.stdout.decode(errors="replace")
    sys.stdout.write(out[-3000:])
    return p.returncode


def setup():
    build_tree("asan")
    build_tree("tsan")
    ensure("asan")
    ensure("gcc")
    return 0
