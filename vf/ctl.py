"""A tiny structured language (subset of BLOC), its text rendering, and a boring reference interpreter.

Used by C06 (loops), C07 (errors) and C08 (functions). The reference implements the semantics the manual
prescribes: structured loops, break/continue on the innermost loop, return from the function/program, errors
to the nearest matching handler. Values: integers, strings, booleans, null.

Statements (tuples):
  ('print', 'marker')  ('printv', 'var')  ('let', 'var', expr)  ('break',) ('continue',) ('return', expr|None)
  ('raise', 'name')    ('eval', expr)  -> `zz = expr;`
  ('if', cond, then_block, else_block|None)
  ('for', 'var', B, E, S|None, 'auto'|'asc'|'desc', body)
  ('while', cond, body)
  ('forall', 'var', 'tabvar', 'auto'|'asc'|'desc', body)
  ('begin', body, [(handler_name, block), ...])
Expressions:
  ('int', n) ('str', s) ('bool', b) ('null',) ('var', name) ('bin', op, a, b) ('call', fname, [args])
  ('div0',) -> 1 / zero      ('fatal',) -> tv.at(9)    ('err', k) -> error@k
Functions: {'name': (params, body)}
"""

MAXI = 2 ** 63 - 1
MINI = -2 ** 63


class BlocError(Exception):
    def __init__(self, name, catchable=True, msg=None, no=None):
        Exception.__init__(self, name)
        self.name = name
        self.catchable = catchable
        self.msg = msg if msg is not None else name
        self.no = no


class _Break(Exception):
    pass


class _Continue(Exception):
    pass


class _Return(Exception):
    def __init__(self, v):
        self.v = v


class Nonterminating(Exception):
    pass


class Ptr(object):
    """a forall iterator: it designates an element of the table (writes land in the table)"""
    def __init__(self, tab, i):
        self.tab = tab
        self.i = i

    def get(self):
        return self.tab[self.i]

    def set(self, v):
        self.tab[self.i] = v


def rd(env, name):
    v = env.get(name)
    return v.get() if isinstance(v, Ptr) else v


def wr(env, name, val):
    v = env.get(name)
    if isinstance(v, Ptr):
        v.set(val)
    else:
        env[name] = val


ERR_DZ = ("DIVIDE_BY_ZERO", "Divide by zero.", 23)
ERR_OOR = ("OUT_OF_RANGE", "Out of range.", 21)


# ---------------------------------------------------------------------------------------------
# text
def etext(e):
    k = e[0]
    if k == "int":
        return str(e[1]) if e[1] >= 0 else "(%d)" % e[1] if e[1] > MINI else "(-9223372036854775807-1)"
    if k == "str":
        return '"%s"' % e[1]
    if k == "bool":
        return "true" if e[1] else "false"
    if k == "null":
        return "null"
    if k == "nullint":
        return "int()"
    if k == "var":
        return e[1]
    if k == "bin":
        return "(%s %s %s)" % (etext(e[2]), e[1], etext(e[3]))
    if k == "call":
        return "%s(%s)" % (e[1], ", ".join(etext(a) for a in e[2]))
    if k == "div0":
        return "(1 / zero)"
    if k == "fatal":
        return "tv.at(9)"
    if k == "err":
        return "error@%d" % e[1]
    raise ValueError(e)


def stext(s, ind=0):
    pad = "  " * ind
    k = s[0]
    if k == "print":
        return pad + 'print "%s";' % s[1]
    if k == "printv":
        return pad + "print %s;" % s[1]
    if k == "printe":
        return pad + "print %s;" % etext(s[1])
    if k == "printh":
        return pad + 'print "%s" error@1 ":" (error@2.count() > 0);' % s[1]
    if k == "let":
        return pad + "%s = %s;" % (s[1], etext(s[2]))
    if k == "eval":
        return pad + "zz = %s;" % etext(s[1])
    if k == "break":
        return pad + "break;"
    if k == "continue":
        return pad + "continue;"
    if k == "return":
        return pad + ("return %s;" % etext(s[1]) if s[1] is not None else "return;")
    if k == "raise":
        return pad + "raise %s;" % s[1]
    if k == "nop":
        return pad + "nop;"
    if k == "if":
        t = pad + "if %s then\n%s\n" % (etext(s[1]), btext(s[2], ind + 1))
        if s[3] is not None:
            t += pad + "else\n%s\n" % btext(s[3], ind + 1)
        return t + pad + "end if;"
    if k == "for":
        t = pad + "for %s in %s to %s" % (s[1], etext(s[2]), etext(s[3]))
        if s[4] is not None:
            t += " step %s" % etext(s[4])
        if s[5] != "auto":
            t += " " + s[5]
        return t + " loop\n%s\n%send loop;" % (btext(s[6], ind + 1), pad)
    if k == "while":
        return pad + "while %s loop\n%s\n%send loop;" % (etext(s[1]), btext(s[2], ind + 1), pad)
    if k == "forall":
        t = pad + "forall %s in %s" % (s[1], s[2])
        if s[3] != "auto":
            t += " " + s[3]
        return t + " loop\n%s\n%send loop;" % (btext(s[4], ind + 1), pad)
    if k == "begin":
        t = pad + "begin\n%s\n" % btext(s[1], ind + 1)
        if s[2]:
            t += pad + "exception\n"
            for (n, b) in s[2]:
                t += pad + "when %s then\n%s\n" % (n, btext(b, ind + 1))
        return t + pad + "end;"
    raise ValueError(s)


def btext(block, ind=0):
    return "\n".join(stext(s, ind) for s in block)


def ftext(name, params, body):
    return "function %s(%s) return integer is\nbegin\n%s\nend;" % (name, ", ".join(params), btext(body, 1))


# ---------------------------------------------------------------------------------------------
# reference interpreter
class Ref:
    def __init__(self, funcs=None, budget=20000, max_depth=255):
        self.funcs = funcs or {}
        self.out = []
        self.budget = budget
        self.steps = 0
        self.max_depth = max_depth
        self.cur_error = None

    def fmt(self, v):
        if v is None:
            return "null"
        if v is True:
            return "TRUE"
        if v is False:
            return "FALSE"
        return str(v)

    def wrap(self, x):
        x &= 2 ** 64 - 1
        return x - 2 ** 64 if x >= 2 ** 63 else x

    def ev(self, e, env, depth):
        k = e[0]
        if k == "int":
            return e[1]
        if k in ("null", "nullint"):
            return None
        if k == "str":
            return e[1]
        if k == "bool":
            return e[1]
        if k == "var":
            return rd(env, e[1])
        if k == "div0":
            raise BlocError(*ERR_DZ[:1], catchable=True, msg=ERR_DZ[1], no=ERR_DZ[2])
        if k == "fatal":
            raise BlocError("INDEX_RANGE", catchable=False, msg="Index out of range: integer 9.", no=22)
        if k == "err":
            ce = self.cur_error
            if ce is None:
                return "" if e[1] < 3 else 0
            return {1: ce.name, 2: ce.msg, 3: ce.no}[e[1]]
        if k == "bin":
            a = self.ev(e[2], env, depth)
            b = self.ev(e[3], env, depth)
            op = e[1]
            if a is None or b is None:
                return None
            if op == "+":
                return self.wrap(a + b) if isinstance(a, int) else a + b
            if op == "-":
                return self.wrap(a - b)
            if op == "*":
                return self.wrap(a * b)
            if op == "/":
                if b == 0:
                    raise BlocError(ERR_DZ[0], True, ERR_DZ[1], ERR_DZ[2])
                q = abs(a) // abs(b)
                return self.wrap(-q if (a < 0) != (b < 0) else q)
            if op == "==":
                return a == b
            if op == "!=":
                return a != b
            if op == "<":
                return a < b
            if op == "<=":
                return a <= b
            if op == ">":
                return a > b
            if op == ">=":
                return a >= b
            raise ValueError(op)
        if k == "call":
            args = [self.ev(a, env, depth) for a in e[2]]
            return self.call(e[1], args, depth)
        raise ValueError(e)

    def call(self, name, args, depth):
        params, body = self.funcs[name]
        if depth + 1 > self.max_depth:
            raise BlocError("RECURSION_LIMIT", catchable=False, msg="Recursion limit", no=None)
        env = dict(zip(params, args))
        saved_err = self.cur_error
        try:
            self.block(body, env, depth + 1)
        except _Return as r:
            return r.v
        finally:
            pass
        raise BlocError("NO_RETURN_VALUE", catchable=False)

    def block(self, stmts, env, depth):
        for s in stmts:
            self.stmt(s, env, depth)

    def stmt(self, s, env, depth):
        self.steps += 1
        if self.steps > self.budget:
            raise Nonterminating()
        k = s[0]
        if k == "print":
            self.out.append(s[1])
        elif k == "printv":
            self.out.append(self.fmt(rd(env, s[1])))
        elif k == "printe":
            self.out.append(self.fmt(self.ev(s[1], env, depth)))
        elif k == "printh":
            ce = self.cur_error
            self.out.append(s[1] + (ce.name if ce else "") + ":" + ("TRUE" if ce and ce.msg else "FALSE"))
        elif k == "let":
            wr(env, s[1], self.ev(s[2], env, depth))
        elif k == "eval":
            env["zz"] = self.ev(s[1], env, depth)
        elif k == "nop":
            pass
        elif k == "break":
            raise _Break()
        elif k == "continue":
            raise _Continue()
        elif k == "return":
            raise _Return(self.ev(s[1], env, depth) if s[1] is not None else None)
        elif k == "raise":
            n = s[1].upper()
            if n == "DIVIDE_BY_ZERO":
                raise BlocError(ERR_DZ[0], True, ERR_DZ[1], ERR_DZ[2])
            if n == "OUT_OF_RANGE":
                raise BlocError(ERR_OOR[0], True, ERR_OOR[1], ERR_OOR[2])
            raise BlocError(n, True, n, 1)
        elif k == "if":
            c = self.ev(s[1], env, depth)
            if c is True:
                self.block(s[2], env, depth)
            elif s[3] is not None:
                self.block(s[3], env, depth)
        elif k == "while":
            while True:
                self.steps += 1
                if self.steps > self.budget:
                    raise Nonterminating()
                c = self.ev(s[1], env, depth)
                if c is not True:
                    break
                try:
                    self.block(s[2], env, depth)
                except _Break:
                    break
                except _Continue:
                    continue
        elif k == "for":
            self.do_for(s, env, depth)
        elif k == "forall":
            self.do_forall(s, env, depth)
        elif k == "begin":
            self.do_begin(s, env, depth)
        else:
            raise ValueError(s)

    def do_for(self, s, env, depth):
        _, var, B, E, S, order, body = s
        b = self.ev(B, env, depth)
        if b is None:
            return
        e = self.ev(E, env, depth)
        if e is None:
            return
        st = 1
        if S is not None:
            st = self.ev(S, env, depth)
            if st is None:
                return
            if st < 1:
                raise BlocError(ERR_OOR[0], True, ERR_OOR[1], ERR_OOR[2])
        if e > b:
            if order == "desc":
                return
            lo, hi, step = b, e, st
        else:
            if order == "asc" and e != b:
                return
            lo, hi, step = e, b, -st
        env[var] = b
        while True:
            self.steps += 1
            if self.steps > self.budget:
                raise Nonterminating()
            try:
                self.block(body, env, depth)
            except _Break:
                break
            except _Continue:
                pass
            cur = env[var]
            if cur is None:
                break                  # a control variable set to null has left the range
            nxt = cur + step           # exact: the control variable never wraps around
            if (step > 0 and nxt > hi) or (step < 0 and nxt < lo):
                break
            env[var] = nxt

    def do_forall(self, s, env, depth):
        _, var, tabvar, order, body = s
        tab = rd(env, tabvar)
        if not tab:
            return      # nothing to visit: the manual does not say what the iterator holds then
        idx = list(range(len(tab)))
        if order == "desc":
            idx.reverse()
        try:
            for i in idx:
                self.steps += 1
                if self.steps > self.budget:
                    raise Nonterminating()
                env[var] = Ptr(tab, i)      # the iterator designates the element
                try:
                    self.block(body, env, depth)
                except _Continue:
                    pass
        except _Break:
            pass
        finally:
            env[var] = None

    def do_begin(self, s, env, depth):
        _, body, handlers = s
        try:
            self.block(body, env, depth)
        except BlocError as err:
            if not err.catchable:
                raise
            for (hn, hb) in handlers:
                n = hn.upper()
                if n == "OTHERS" or n == err.name:
                    saved = self.cur_error
                    self.cur_error = err
                    # while the handler runs, error@1/@2 describe the error it handles; when it is done - also when it is left by an
                    # error of its own - an enclosing handler (if this block sits inside one) is again looking at its own error
                    try:
                        self.block(hb, env, depth)
                    finally:
                        self.cur_error = saved
                    return
            raise

    def run_program(self, stmts, env=None):
        """Returns (status, detail): ('ok', ret) | ('error', BlocError) | ('nonterm', None)."""
        env = env if env is not None else {}
        try:
            self.block(stmts, env, 0)
            return ("ok", None), env
        except _Return as r:
            return ("ok", r.v), env
        except (_Break, _Continue):
            return ("ok", None), env     # only generated lexically inside loops; kept for robustness
        except BlocError as e:
            return ("error", e), env
        except Nonterminating:
            return ("nonterm", None), env
