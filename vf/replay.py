"""Re-run one stored violating case, without any explorer, twice; report what the property's oracle says."""
import importlib
import json

from .core import Case, run_batch


def main(path):
    rec = json.load(open(path))
    prop = rec["property"]
    mod = importlib.import_module("vf.props." + prop.lower())
    if hasattr(mod, "replay"):
        return mod.replay(rec)
    if hasattr(mod, "sdir"):
        mod.sdir()          # scratch directory the case's files live in
    c = rec["case"]
    case = Case(c.get("case_id") or "replay", c["ops"], c.get("meta"))
    keys = []
    for i in range(2):
        from .core import tree
        with tree((c.get("meta") or {}).get("_tree", "asan")):
            r = run_batch([case], 20000)[0]
        vs, _ = mod.check(case, r)
        keys.append(sorted(v.key for v in vs))
        print("run %d: %s" % (i + 1, json.dumps(r)[:3000]))
        for v in vs:
            print("  %s :: %s" % (v.key, v.msg[:500]))
    if keys[0] != keys[1]:
        print("NONDETERMINISTIC replay: %s vs %s" % (keys[0], keys[1]))
        return 2
    if rec["key"] in keys[0]:
        print("VIOLATION property=%s replay=%s" % (prop, path))
        return 1
    print("not reproduced: %s" % rec["key"])
    return 0
