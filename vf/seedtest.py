"""python3 -m vf.seedtest <seed-dir> [quick|thorough] [Cxx ...] [--keep]

Applies a seeded change to /repo, runs the repository's own tests (guard off, gcc), runs the demonstration with the
change, runs the named checks (default: the property in the directory name), undoes the change, runs the demonstration
without the change. With --keep the seed is copied to /verif/seeded/<name>/ with a meta.json recording all of this.
"""
import glob
import json
import os
import shutil
import subprocess
import sys

VERIF = os.path.dirname(os.path.dirname(os.path.abspath(__file__)))
BASE = os.path.join(VERIF, "build", "baseline")


def sh(cmd, **kw):
    return subprocess.run(cmd, shell=True, stdout=subprocess.PIPE, stderr=subprocess.STDOUT, cwd=VERIF, **kw).stdout.decode(errors="replace")


def run_demo(d):
    """returns (kind, output) for the demonstration of the seed"""
    env = dict(os.environ)
    env["LD_LIBRARY_PATH"] = ":".join([os.path.join(BASE, "blocc")] + [os.path.join(BASE, "modules", m) for m in ("csv", "file", "utf8", "sqlite3")])
    env["BLOC"] = os.path.join(BASE, "apps", "bloc")
    env["BLOC_BUILD"] = BASE
    env["BLOC_SRC"] = "/repo"
    outs = []
    # the demonstration scripts take a source tree with its build in <tree>/_b: give them a view of /repo + the baseline build
    view = "/tmp/seed-view"
    shutil.rmtree(view, ignore_errors=True)
    os.makedirs(view)
    os.symlink(BASE, os.path.join(view, "_b"))
    for name in os.listdir("/repo"):
        if name not in ("_b", "_build", ".git"):
            os.symlink(os.path.join("/repo", name), os.path.join(view, name))
    files = sorted(glob.glob(os.path.join(d, "demo*")) + glob.glob(os.path.join(d, "build_and_run.sh")))
    if any(f.endswith(".sh") for f in files):
        files = [f for f in files if f.endswith(".sh")]
    for f in files:
        try:
            if f.endswith(".bloc"):
                p = subprocess.run([env["BLOC"], f], stdout=subprocess.PIPE, stderr=subprocess.STDOUT, env=env, timeout=60, cwd=d)
            elif f.endswith(".sh"):
                head = open(f).read(400)
                arg = BASE if ("<build dir>" in head and "worktree" not in head.lower()) else view
                p = subprocess.run(["sh", f, arg], stdout=subprocess.PIPE, stderr=subprocess.STDOUT, env=env, timeout=300, cwd=d)
            elif f.endswith(".cpp") or f.endswith(".c"):
                exe = "/tmp/seed-demo-bin"
                cc = ["g++", "-std=c++11"] if f.endswith(".cpp") else ["gcc"]
                c = subprocess.run(cc + ["-I/repo", "-I" + os.path.join(BASE, "blocc", "include"), f, "-o", exe, "-L" + os.path.join(BASE, "blocc"), "-lblocc", "-lpthread", "-ldl"],
                                   stdout=subprocess.PIPE, stderr=subprocess.STDOUT)
                if c.returncode != 0:
                    outs.append((os.path.basename(f), "COMPILE FAILED: " + c.stdout.decode(errors="replace")[-800:]))
                    continue
                p = subprocess.run([exe], stdout=subprocess.PIPE, stderr=subprocess.STDOUT, env=env, timeout=120, cwd=d)
            else:
                continue
            outs.append((os.path.basename(f), "exit=%s\n%s" % (p.returncode, p.stdout.decode(errors="replace"))))
        except subprocess.TimeoutExpired:
            outs.append((os.path.basename(f), "TIMEOUT"))
    return outs


def needs_of(readme):
    """the README's statement of what the change needs in order to manifest: the matching line, or the section under it"""
    lines = readme.splitlines()
    for i, line in enumerate(lines):
        low = line.lower()
        if "needed" in low or "manifest" in low or "needs" in low or "takes to show" in low:
            text = line.replace("**What", "What").strip("# ").strip()
            if True:
                body = []
                for l2 in lines[i + 1:]:
                    if l2.lstrip().startswith("#") and body:
                        break
                    if not l2.strip() and body and sum(len(b) for b in body) > 200:
                        break
                    if l2.strip():
                        body.append(l2.strip())
                text = (text + " " + " ".join(body)).replace(":**", ":").strip()
            return text[:900]
    return ""


def main(argv):
    keep = "--keep" in argv
    argv = [a for a in argv if a != "--keep"]
    d = argv[0].rstrip("/")
    tier = "quick"
    checks = []
    for a in argv[1:]:
        if a in ("quick", "thorough"):
            tier = a
        else:
            checks.append(a.upper())
    name = os.path.basename(d)
    if not checks:
        checks = [name.split("-")[0]]
    patch = os.path.join(d, "patch.diff")
    st = sh("git -C /repo status --porcelain --untracked-files=no")
    if st.strip():
        print("refusing: /repo has local modifications:\n" + st)
        return 2
    r = subprocess.run(["git", "-C", "/repo", "apply", "--check", patch], stdout=subprocess.PIPE, stderr=subprocess.STDOUT)
    if r.returncode != 0:
        print("[%s] patch does not apply: %s" % (name, r.stdout.decode()[:500]))
        return 2
    subprocess.run(["git", "-C", "/repo", "apply", patch], check=True)
    res = {"seed": name, "property": name.split("-")[0], "tier": tier, "checks": {}}
    try:
        out = sh("./check --baseline-off 2>&1 | tail -4")
        res["repository_tests_pass_with_change"] = "100% tests passed" in out
        print("[%s] repository tests with the change: %s" % (name, "pass" if res["repository_tests_pass_with_change"] else "FAIL\n" + out))
        res["demo_with_change"] = run_demo(d)
        for c in checks:
            out = sh("./check %s %s 2>&1" % (c, tier))
            keys = [l.strip() for l in out.splitlines() if l.strip().startswith("key=")]
            nviol = sum(1 for l in out.splitlines() if l.startswith("VIOLATION"))
            res["checks"][c] = {"tier": tier, "detected": nviol > 0, "violation_keys": nviol, "first_keys": [k[:200] for k in keys[:4]]}
            print("[%s] %s %s: %s (%d violation keys) %s" % (name, c, tier, "DETECTED" if nviol else "missed", nviol, "; ".join(k[:140] for k in keys[:2])))
    finally:
        subprocess.run(["git", "-C", "/repo", "checkout", "--", "."], check=True)
    sh("./check --baseline-off 2>&1 | tail -2")
    res["demo_without_change"] = run_demo(d)
    differs = res["demo_with_change"] != res["demo_without_change"]
    res["demo_differs"] = differs
    print("[%s] demonstration output with vs without the change: %s" % (name, "differs" if differs else "SAME (demo does not show the change here)"))
    if keep:
        dst = os.path.join(VERIF, "seeded", name)
        os.makedirs(dst, exist_ok=True)
        for f in glob.glob(os.path.join(d, "*")):
            if os.path.isfile(f) and os.path.getsize(f) < 200000 and os.path.abspath(os.path.dirname(f)) != os.path.abspath(dst):
                shutil.copy(f, dst)
        readme = ""
        rp = os.path.join(d, "README.md")
        if os.path.exists(rp):
            readme = open(rp).read()
        needs = needs_of(readme)
        meta = {"property": res["property"], "breaks": readme.splitlines()[0].lstrip("# ").strip() if readme else name,
                "needs_to_manifest": needs, "origin": "written by a fresh sub-agent given only the property text and a scratch worktree",
                "confirmed": {"patch_applies_to_repo_head": True, "repository_tests_pass_with_change": res["repository_tests_pass_with_change"],
                              "demonstration_differs_with_vs_without": differs},
                "ran": ["git -C /repo apply seeded/%s/patch.diff" % name, "./check --baseline-off"] + ["./check %s %s" % (c, tier) for c in checks] + ["git -C /repo checkout -- ."],
                "checks": res["checks"]}
        old = os.path.join(dst, "meta.json")
        if os.path.exists(old):
            try:
                prev = json.load(open(old))
                prev_checks = prev.get("checks", {})
                for k, v in prev_checks.items():
                    meta["checks"].setdefault(k, v)
            except Exception:
                pass
        with open(old, "w") as f:
            json.dump(meta, f, indent=1)
    print(json.dumps({k: v for k, v in res.items() if not k.startswith("demo_w")}))
    return 0


if __name__ == "__main__":
    sys.exit(main(sys.argv[1:]))
