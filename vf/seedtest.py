"""python3 -m vf.seedtest <seed-dir> [tier] [Cxx ...] — apply a seeded change to /repo, run the repository's tests and the checks, undo it.

Prints one line per check: DETECTED / missed, and the first violation keys.
"""
import json
import os
import subprocess
import sys

VERIF = os.path.dirname(os.path.dirname(os.path.abspath(__file__)))


def sh(cmd, **kw):
    return subprocess.run(cmd, shell=True, stdout=subprocess.PIPE, stderr=subprocess.STDOUT, cwd=VERIF, **kw).stdout.decode(errors="replace")


def main(argv):
    d = argv[0].rstrip("/")
    tier = "quick"
    checks = []
    for a in argv[1:]:
        if a in ("quick", "thorough"):
            tier = a
        else:
            checks.append(a.upper())
    name = os.path.basename(d)
    if not checks:
        checks = [name.split("-")[0]]
    patch = os.path.join(d, "patch.diff")
    st = sh("git -C /repo status --porcelain --untracked-files=no")
    if st.strip():
        print("refusing: /repo has local modifications:\n" + st)
        return 2
    r = subprocess.run(["git", "-C", "/repo", "apply", "--check", patch], stdout=subprocess.PIPE, stderr=subprocess.STDOUT)
    if r.returncode != 0:
        print("patch does not apply: " + r.stdout.decode()[:500])
        return 2
    subprocess.run(["git", "-C", "/repo", "apply", patch], check=True)
    res = {"seed": name, "tier": tier}
    try:
        out = sh("./check --baseline-off 2>&1 | tail -4")
        res["tests_pass"] = "100% tests passed" in out
        print("[%s] repository tests with the change: %s" % (name, "pass" if res["tests_pass"] else "FAIL\n" + out))
        for c in checks:
            out = sh("./check %s %s 2>&1" % (c, tier))
            keys = [l.strip() for l in out.splitlines() if l.strip().startswith("key=")]
            nviol = sum(1 for l in out.splitlines() if l.startswith("VIOLATION"))
            res[c] = {"detected": nviol > 0, "violations": nviol, "keys": keys[:5]}
            print("[%s] %s %s: %s (%d violation keys) %s" % (name, c, tier, "DETECTED" if nviol else "missed", nviol, "; ".join(k[:160] for k in keys[:3])))
    finally:
        subprocess.run(["git", "-C", "/repo", "checkout", "--", "."], check=True)
    print(json.dumps(res))
    return 0


if __name__ == "__main__":
    sys.exit(main(sys.argv[1:]))
