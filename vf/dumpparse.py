"""Parser for the canonical value dumps produced by harness/vdrv.cpp."""


def parse_symbol(s):
    """'type[/S][/L]=value' -> (type, flags, value)"""
    head, _, v = s.partition("=")
    parts = head.split("/")
    return parts[0], "".join(parts[1:]), parse_value(v)


def parse_value(s):
    v, i = _val(s, 0)
    if i != len(s):
        raise ValueError("trailing %r in %r" % (s[i:], s))
    return v


def _val(s, i):
    if s.startswith("P>", i):
        v, j = _val(s, i + 2)
        return ("P", v), j
    c = s[i]
    if s.startswith("N(", i):
        j = s.index(")", i)
        return ("N", s[i + 2:j]), j + 1
    if s.startswith("T(", i) or s.startswith("R(", i):
        j = s.index(")", i)
        t = s[i + 2:j]
        j += 1
        bad = None
        if s.startswith("!vt=", j):
            k = j + 4
            while s[k] not in "[{":
                k += 1
            bad = s[j + 4:k]
            j = k
        close = "]" if c == "T" else "}"
        items = []
        j += 1
        if s[j] == close:
            return (c, t, items, bad), j + 1
        while True:
            v, j = _val(s, j)
            items.append(v)
            if s[j] == ",":
                j += 1
                continue
            if s[j] == close:
                return (c, t, items, bad), j + 1
            raise ValueError("bad list at %d in %r" % (j, s))
    if c == "b":
        return ("b", s[i + 1] == "1"), i + 2
    if c in "isxd":
        j = i + 1
        while j < len(s) and s[j] not in ",]}":
            j += 1
        body = s[i + 1:j]
        if c == "i":
            return ("i", int(body)), j
        if c == "d":
            return ("d", _flt(body)), j
        return (c, bytes.fromhex(body)), j
    if c == "c":
        j = i + 1
        while s[j] != ",":
            j += 1
        a = s[i + 1:j]
        k = j + 1
        while k < len(s) and s[k] not in ",]}":
            k += 1
        return ("c", (_flt(a), _flt(s[j + 1:k]))), k
    if c == "o":
        j = i + 1
        while j < len(s) and s[j] not in ",]}":
            j += 1
        return ("o", s[i + 1:j]), j
    raise ValueError("bad value at %d in %r" % (i, s))


def _flt(t):
    if t == "nan":
        return float("nan")
    if t in ("inf", "-inf"):
        return float(t)
    return float.fromhex(t)


def elem_type_ok(tabtype, v):
    """Does value v have exactly the element type of a table whose type string is tabtype ('integer*1', 'tuple{..}*2', ...)?"""
    base, _, lvl = tabtype.rpartition("*")
    level = int(lvl)
    if level > 1:
        want = "%s*%d" % (base, level - 1)
        if v[0] == "T":
            return v[1] == want and v[3] is None and all(elem_type_ok(want, e) for e in v[2])
        if v[0] == "N":
            return v[1] == want
        return False
    return scalar_type_ok(base, v)


def scalar_type_ok(base, v):
    k = v[0]
    if k == "N":
        # a null tuple carries no declaration (it prints as tuple{?}): it fits any tuple type
        return v[1] == base or (base.startswith("tuple") and v[1] == "tuple{?}")
    if base.startswith("tuple"):
        if k != "R" or v[1] != base or v[3] is not None:
            return False
        items = base[base.index("{") + 1:base.index("}")].split(",")
        return len(items) == len(v[2]) and all(scalar_type_ok(t, e) for t, e in zip(items, v[2]))
    return {"integer": "i", "decimal": "d", "string": "s", "bytes": "x", "boolean": "b", "complex": "c"}.get(base) == k


def uniform(v):
    """Check the uniformity invariant on any parsed value, recursively. Returns None or a description of the breach."""
    k = v[0]
    if k == "P":
        return uniform(v[1])
    if k == "T":
        if v[3] is not None:
            return "table value type %s differs from collection type %s" % (v[3], v[1])
        for e in v[2]:
            if not elem_type_ok(v[1], e):
                return "element %r in table of %s" % (e, v[1])
            u = uniform(e)
            if u:
                return u
    if k == "R":
        if v[3] is not None:
            return "tuple value type %s differs from tuple type %s" % (v[3], v[1])
        if not scalar_type_ok(v[1], v):
            return "tuple %r does not match its declared structure %s" % (v[2], v[1])
    return None
