"""Writes MANIFEST.json from the table below (python3 -m vf.manifest)."""
import json
import os
import subprocess

HERE = os.path.dirname(os.path.dirname(os.path.abspath(__file__)))

CHECKS = {
    "C03": dict(
        engine="E1 space",
        technique="bounded exhaustive enumeration of the operand lattice product on the real interpreter, compared with an exact reference model",
        text="Every pair of a boundary lattice of int64 values (2^k, 2^k+-1, MIN/MAX neighbours, 10^k, 0, +-1), every shift displacement in [-130,130] "
             "and every pair of a lattice of doubles (signed zeros, subnormals, 2^53/2^63 neighbourhoods, DBL_MAX, inf, nan) is evaluated by the real "
             "interpreter under ASan+UBSan for every arithmetic/bitwise operator and conversion; each result is read back as an exact typed value and "
             "compared with a reference model (Python integers mod 2^64, IEEE doubles via Python/libm). The enumeration is complete within the lattice; "
             "it says nothing about operands outside it."
             ' Every pair is evaluated with the operands as variables and as temporaries of the same value (4 forms; the variables must be unchanged), and the whole lattice is explored twice: against the clang ASan+UBSan build and against a gcc -O2 build. Round 6: a mixed integer / decimal operation answers like the same operation with the integer operand converted by num() first (value or DIVIDE_BY_ZERO).',
        note="trusted: the reference model, Python floats and libm pow/fmod, clang sanitizers; operands bound through the C++ API (exact bits)",
        design="DESIGN.md section 4, C03"),
    "C04": dict(
        engine="E1 space",
        technique="complete enumeration of truth value x provenance pairs on the real interpreter against Kleene tables, with re-evaluation of the same node",
        text="All pairs of {true,false,null} x 9..11 provenances (constant, typed constructor, variable, undefined-type variable, function result, table "
             "element, tuple item, result of not/comparison) for and/&&/or/||/xor and not/!, every relational operator with a null side for every "
             "scalar type and null provenance, and if/elsif/while conditions are run on the real interpreter; each expression is evaluated once and "
             "three more times by the same program node inside a loop, pairs of expressions share one loop body, and a fixed probe program checks "
             "afterwards that null, isnull(null), typeof(null) and all variables still mean the same. The space is finite and enumerated completely."
             ' Also: relational operators with table and tuple operands, boolean-declared functions returning the untyped null or falling off their end, boolean variables reset inside while / if; the space is explored against the clang sanitizer build and the gcc -O2 build.'
             ' The result of a comparison with a null side must be a *boolean* null (typeof, combination with or / and / not / xor); the iterator left by a forall is an atom and is probed after every case. The null literal as receiver of in-place members, evaluated repeatedly by the same node. Round 5: every atom against a partner that changes between six evaluations of the same node.',
        note="trusted: Kleene tables, print formatting of TRUE/FALSE/null; conditions of undefined static type refused at compile time are not counted",
        design="DESIGN.md section 4, C04"),
    "C06": dict(
        engine="E1 space",
        technique="bounded exhaustive enumeration of loop headers and of all nestings of control statements, each run on the real interpreter and compared step by step with a reference interpreter",
        text="(a) Every for header over first/limit in {MIN, MIN+1, -2..2, MAX-1, MAX, null} x step in {absent, null, MIN, -1, 0, 1, 2, MAX} x {auto, asc, desc}, "
             "every short range run to completion near 0 / INT64_MAX / INT64_MIN including bodies that write the control variable, and forall over tables of "
             "length 0..3; (b) every program of a nesting grammar (if/else, for, while, forall, begin+handler around blocks of print / break / continue / return / "
             "raise / control-variable write) to depth 2 (quick) or 3 (thorough), at top level and inside a function. Each program's printed trace, result, "
             "reported error and final loop variables are compared with the reference interpreter vf/ctl.py; a deterministic step budget separates termination "
             "from non-termination; probe statements then check in the same context that no iterator constraint, table lock, pending break/continue, control "
             "entry or block level is left behind."
             ' Added: bodies that change the variables the bounds and the step were taken from (evaluated once); every if / elsif / else chain of <= 3 rules over {true, false, null} at top level, in a loop and in a function; the header family also against the gcc -O2 build.'
             ' break / continue where no loop of the same function or program runs (10 programs, C++ and C API routes). Mutators reached through a path expression (tt.at(0)) while a row of tt, or tt itself, is iterated: refused, table unchanged, modifiable afterwards. Round 5: forall over 10 kinds of table expression x 3 orders x 4 lengths x 3 bodies. Round 6: writes through the iterator into null elements (rows, strings, bytes, integers, nested, in a function). Round 7: inner loops that do not run at all inside every kind of outer loop.',
        note="trusted: the reference interpreter (structured semantics of the manual), the step budget (200000 statements) as the non-termination verdict",
        design="DESIGN.md section 4, C06"),
    "C07": dict(
        engine="E1 space",
        technique="bounded exhaustive enumeration of (wrapper chain x failing operation x handler list) programs on the real interpreter, compared with a reference interpreter, followed by residue probes in the same context",
        text="Every chain of depth 0..3 of wrappers {for, while, forall, if, begin with each handler list, begin whose handler re-raises / fails / breaks / "
             "continues / returns} around every failing operation (two user errors, 1/0, raise out_of_range, a non-catchable index error, a failing function, "
             "a function failing inside its own loop, a failing argument, an error inside a for begin/end/step, while/if condition, return or assignment "
             "expression) is run as a top-level program through the C++ API and the C API and as a function body. The reference interpreter decides which "
             "handler runs, error@1/@2, the printed trace and the error number/text reported to the host. The program is then run a second time, a top-level "
             "break/continue must not swallow the next statement, and probe statements check that no loop, iterator constraint, table lock, pending "
             "break/continue/return or block level survived."
             ' Added payloads: user names that only start like a clause name or that clause names start with; a while condition that fails at its second evaluation after a turn that ended with continue. Every residue program also started through bloc_execute2 (route capi2). Round 5: error names of 18 lengths from 1 to 1000 characters (around the 256-byte message buffer) in 5 handler layouts. Round 7: clauses sharing a name (first match), error@1 after handlers that themselves raise.',
        note="trusted: the reference interpreter vf/ctl.py; the interactive statement loop of the bloc command is covered by the C19 check",
        design="DESIGN.md section 4, C07"),
    "C01": dict(
        engine="E1 space",
        technique="bounded exhaustive sweeps of byte strings, token strings, single deviations from valid programs and the vocabulary x argument-value product, executed on the real interpreter under ASan+UBSan with fork isolation",
        text="Swept completely: all byte strings of length <=2 and of length 3 (4 and 5 in thorough) over scanner character classes; all token strings of "
             "length <=3 (4) over representative tokens in a context holding a variable, a table, a tuple and a function; every truncation, token deletion, "
             "adjacent swap, duplication and single-byte substitution of 36 valid seed programs covering every statement and expression form; every "
             "builtin, operator, type method and @rank applied to every argument tuple of a boundary value alphabet (typical, boundary, typed null and "
             "untyped null values of every type, as literals and as variables); each text through the C++ API and the C API, representatives through the "
             "bloc command (file and stdin). Oracle: the outcome is completion, a parse error or a runtime error; no signal, no ASan/UBSan report, no "
             "foreign exception, no step-budget hit without a loop, no CPU-watchdog hang."
             ' Added families: every outer loop form x inner construct locking the same table x mutation of the iterated table x use of the iterator (1200 programs); scripts that read standard input (readln, read, input) x inputs sized around the internal buffers through the bloc command.'
             ' Round 3: the same vocabulary with every operand handed over through an untyped function parameter (only run-time guards apply), tables of every element type in the alphabet. Round 5: 27 valid and malformed patterns of matches; opaque operands on either side of every two-argument built-in in quick. Round 8: set@N through an untyped parameter for ranks at and beyond the size of every tuple of the alphabet.',
        note="trusted: clang 14 ASan+UBSan; size arguments capped at 65536 (allocation exhaustion is outside the property's domain); texts outside the alphabets are not covered",
        design="DESIGN.md section 4, C01"),
    "C08": dict(
        engine="E2 hist",
        technique="exhaustive enumeration of all call histories up to a bound before each probe call, differential against a fresh context and against a model value",
        text="For each of 24 function groups (conditionally assigned locals of integer/string/table type, accumulating local, loop with early return, "
             "recursion, mutual recursion through redefinition, parameter mutation of table/string/integer, handled and unhandled errors, errors inside "
             "forall/for/while in the callee, nested return, overloads by arity, printing, type-changing and $-constrained locals, missing return) and each "
             "probe call, all histories of <=3 (quick) / <=4 (thorough) earlier calls over the group's call alphabet - including calls that fail inside and "
             "calls whose argument evaluation fails - are executed; the probe call's output/result must equal the same call in a fresh context and the "
             "model value. Caller variables must be unchanged, bodies naming caller variables must be rejected, recursion depths 250..261 (also after "
             "earlier deep or failed recursions) must succeed up to 255 nested calls and raise the recursion-limit error at the 256th, and LeakSanitizer "
             "must be silent after histories containing failing calls."
             ' Added: calls nested in their own argument lists in the call alphabets, the same callee reached at several nesting levels, recursion-limit probes below k+1 levels of another function after earlier calls at other levels.'
             ' Calls as the operand of a program-level return; a function defined again after its earlier definition was called (6 x 6 bodies x 4 histories); error@1 outside handlers after a call whose handler raised; a built-in that fails at the second evaluation of an argument. Round 5: a redefinition arriving in a text that calls the function first, or that is rejected; arguments of one call that change each other\'s variables. Round 6: trace mode switched on by one call and locals re-typed by the branch a call took are gone for the next call; the error stream is compared too. Round 7: unset locals left null with another type by an earlier call; unset locals used by in-place built-ins in the first call of each depth. Round 8: locals of every container type, each assigned by some calls only (a reused context hands them out unset, not emptied).',
        note="trusted: hand-written expected value per call, LeakSanitizer; histories longer than the bound are not covered",
        design="DESIGN.md section 4, C08"),
    "C10": dict(
        engine="E1 space",
        technique="bounded exhaustive enumeration of byte strings x position lattice x code lattice on the real interpreter, compared with Python bytes/base64 reference operations and round-trip relations",
        text="All strings of length <=2 (quick) / <=3 (thorough) over 11 bytes (NUL, space, a, A, 1, comma, quote, LF, 0x7f, 0x80, 0xff) for every unary "
             "string/bytes built-in; all strings over 4 bytes x positions {null, MIN, -1, 0..4, MAX} for lsubstr/rsubstr/substr/subraw/strpos/hash/hex/chr/at; "
             "all (string, begin, count) triples; all (x, y, z) triples for replace/tokenize/strpos; all strings of length <=3 (4) over 0 1 . e E - + space x a "
             "for isnum/num/int on strings and bytes; the integer and decimal lattices for str/int/num/hex round trips; all byte strings of length <=2 plus "
             "length 3 (4) over 16 bytes for base64; every code of the integer lattice and 254..257 for chr/put/concat/insert/raw. Arguments are bound exactly "
             "through the API and re-dumped after the calls (must be unchanged); results are read as hex. Reference: Python bytes operations, base64 and DJB "
             "hash where the manual defines the value; otherwise totality, memory safety and the stated relations."
             ' Added: numeric edge strings, separators containing NUL, an in-place method chained on the result of every built-in with the arguments compared afterwards; the quick space also against the gcc -O2 build.'
             ' hex(value, width) over a 14 x 23 lattice with a model (the width is a digit count, not an allocation). Provenance: every string built-in with its argument as variable vs temporary / function result / table element / nested built-in must agree. Round 5: int() of every string of decimal digits against a model; all 255 byte values through every unary built-in.',
        note="trusted: Python bytes/base64 as reference; C locale; trim family only required to strip spaces and nothing but whitespace; hash of bytes >= 0x80 only required to be deterministic",
        design="DESIGN.md section 4, C10"),
    "C09": dict(
        engine="E2 hist",
        technique="explicit-state breadth-first search over container operation histories on the real interpreter (states = canonical dumps, rebuilt by replay), invariant and reference-model comparison in every state",
        text="Breadth-first search to depth 2 (quick) / 3 (thorough, bounded frontier reported) over histories of at/put/insert/delete/concat/count/set@/@ on "
             "seven table kinds (integer, decimal, string, bytes, boolean, tuple, 2-dimensional), a string, a bytes value and a 5-item tuple. Positions "
             "{null,-1,0,1,n-1,n,n+1,2^32,MAX}, ranks {0,1,2,5,6,2^32+1}, byte codes {null,-1,0,65,255,256,MAX}, element arguments of every type (matching, "
             "int/decimal mixable, mismatching, typed and untyped nulls, tables of right/wrong element type, tuples of same/different structure), each also "
             "through an expression of opaque static type so that only the run-time checks apply, plus self-concat/self-insert. In every state: every "
             "element has exactly the table's element type (recursively), tuple items their declared types, contents equal a Python-list model, a rejected "
             "operation leaves the dump unchanged, null/out-of-range positions are rejected, in-range results are the documented ones. In addition all "
             "tuple declarations of <=3 (quick, neighbourhood) / <=4 (thorough, all pairs) items over 6 item types are checked pairwise for type identity, "
             "and every mutator of a table under forall must be refused at compile time."
             ' Added: item / element expressions whose value changes from one evaluation to the next (11^3 sequences through tab, concat, put, insert): refused or uniform; level 1 also against the gcc -O2 build.'
             ' Rows of a table of tables (one of them null) receiving what an opaque function hands back; containers made for objects of one module never hold objects of another (C17\'s wrong-module programs). Iterated-row lock family (shared with C06); typed declarations through a forall iterator (9 types x 4 tables x 3 wrappers) leave the table uniform. Round 5: refused-unchanged: 11 receivers (null row, null table, elements) x 5 mutators x 13 offending values: a refusal leaves every container as it was. Round 6: whatever is built from a copy of a container (7 sources x 6 ways to copy x 10 uses) equals what is built from the original; the 254-dimension limit through 6 constructors. Round 8: the refused-unchanged family also offers decimals that no integer can hold (the conversion fails after the type checks).',
        note="trusted: the Python list model; containers above 5 elements are not expanded; 48 tuple-declaration hash collisions are recorded findings (KNOWN_FINDINGS.txt)",
        design="DESIGN.md section 4, C09"),
    "C05": dict(
        engine="E1 space + E2 hist",
        technique="exhaustive enumeration of the expression vocabulary with repeated evaluation and deep dumps; explicit-state breadth-first search over assignment/mutation histories compared with a deep-copy model",
        text="(a) Every expression of the vocabulary product (every builtin, operator, type method and @rank applied to the boundary value alphabet, literals and "
             "variables of every type) is printed three times by the same program node inside a loop and assigned twice; the three results must be equal and "
             "the deep dump of all 24 context variables (scalars, strings, bytes, tuples, 1- and 2-dimensional tables, nulls) must be identical before and "
             "after, except the receiver of an in-place method. (b) Breadth-first search to depth 3 (quick) / 4 (thorough) over histories of b = a, a = a, "
             "fresh assignment, in-place mutators on each variable, t.put(i, a), t = tab(n, a), u = tup(a, ..), element access and mutation through at(), "
             "calls that mutate or return their parameter, and forall writes, for strings, bytes, tables (incl. tables of tables) and tuples; states are "
             "canonical dumps, and in every state the dump of {a, b, t, u} must equal a Python deep-copy model."
             ' (c) operand kinds: 130 typed signatures x {constant, variable, temporary, table element, tuple item, function result} per argument, each compared with its all-constant form in the same context, variables unchanged, re-evaluation in an unchanged state, and the same with an in-place method chained on the result; (d) storage locations (variable, forall iterator, for variable, parameter, local, table element, tuple item, returned value) x source kind x 56 reader expressions. (c) and (d) also against the gcc -O2 build.'
             ' The alias search includes `return a / t / u / t.at(0)` steps (the host goes on using the context). Named constants (phi, pi, ee) are atoms of the vocabulary like literals. Round 6: one argument null (constant, variable) next to stored values in the other places, for every signature. Round 8: a sixth value type, table (as argument of tab / put / insert / concat on temporaries and variables, and as receiver), in the operand-kind product.',
        note="trusted: the deep-copy model; impure builtins (random, read, readln, input, getsys, getenv) are excluded from (a); objects are shared by design (C17)",
        design="DESIGN.md section 4, C05"),
    "C11": dict(
        engine="E2 hist",
        technique="exhaustive enumeration of (valid prefix x rejected text at every token position x probe suite) histories on the real parser, differential against an undisturbed twin context",
        text="For each valid prefix (variables of every type, $-variable, tables, tuples, typed nulls; five functions incl. overloads and a recursive one) and "
             "each of 22 valid texts touching them (loops over existing variables, forall over existing and nested tables, begin/exception, typed "
             "re-declaration, redefinition of the first / middle / last / recursive function, new overload, chained statements), every truncation at a token "
             "boundary and every replacement of one token by each of 10 poison tokens is fed to the parser (Parser::parse, bloc_parse_executable, "
             "interactive parseStatement+clear); kept iff rejected. Oracle: every variable the prefix introduced keeps value, type, symbol type and "
             "constraint flags; the function table (names, arities, unparsed bodies) is unchanged; no parsing flag, block level, control entry or backed-up "
             "symbol is left; then a probe suite (call every function, print/retype/mutate every variable, redefine and add functions, run all 22 valid "
             "texts) must behave identically in the disturbed context and in an undisturbed twin. Thorough adds two more prefixes, all three routes for "
             "every text and chains of two rejected texts."
             ' Added: rejected texts declaring several functions or one function twice before the error; structured variables re-typed with another rank; texts that include a file (which redefines functions) successfully and fail later.'
             ' Type-safe ($) variables holding tables and tuples assigned another structure by the rejected text. Rejected texts that give one variable two or three other types in a row; probe programs whose acceptance depends on each declared type. Round 5: path expressions of include / import with side effects in rejected texts (recorded finding, narrow key). Round 6: on the statement-wise route the prefix is compiled statement by statement too. Round 8: variables that already have the type a for / forall gives its control variable, texts that iterate with them, probes that iterate with them again and re-type them.',
        note="trusted: differential twin; names introduced only by the rejected text are ignored, as the property allows",
        design="DESIGN.md section 4, C11"),
    "C12": dict(
        engine="E1 space",
        technique="bounded exhaustive enumeration of the operator-pair / literal / statement grammar; each program is compiled, unparsed, re-compiled in a twin context and both programs are run and compared (differential round trip)",
        text="For every program of: all ordered pairs of the 24 binary operators in three parenthesis shapes over integer, boolean and string atoms plus mixed "
             "relational/logical shapes, unary x binary combinations, ** / member / @ chains; 55 literal forms (every escape, doubled and escaped quotes, hex, "
             "exponents, MIN/MAX integers, negative literals) and the decimal lattice incl. 17-digit values; the seed programs, the C06 nesting grammar at "
             "top level and as function bodies, a sample of the C07 error programs, x:type declarations and function signatures with every type spelling, "
             "chained statements - T1 = unparse(compile(S)) must be accepted in a twin context, both programs must give the same output, result, error "
             "and final variables/functions, and unparse(compile(T1)) must equal T1. Sources the parser rejects are outside the domain and are skipped "
             "(counted separately)."
             ' Added to the corpus: loop orders with run-time reversed bounds, parenthesised receivers of member operators, module object programs, integer-valued decimals needing 17 digits, statements chained after typed declarations. Every string literal of length <= 2 over the 8 escapes, both quotes and 5 characters without escape. Round 5: every byte value inside a constant; 30 argument shapes x 7 enclosed followers for print and put; INT64_MIN spellings; a rejected hand-written program is a harness error. Round 6: typed parameters re-assigned in the body, with a use that only compiles for the declared type.',
        note="trusted: twin context as 'equivalent context'; the interactive save/load commands are driven by the C19 check",
        design="DESIGN.md section 4, C12"),
    "C13": dict(
        engine="E4 env",
        technique="exhaustive enumeration of environment answers (read fragmentations with 0, 1, 2 deviations from the default delivery, fixed fragment sizes, long-line alignments) on the real scanner/parser, compared with the default delivery",
        text="For each of 50 short texts that together contain every multi-character lexeme (numbers in every form, names, every 2-character operator, "
             "word operators, string escapes, doubled quotes, block/line/# comments, CRLF, and rejected texts), the byte stream is delivered by a fragmenting "
             "StreamReader with 0 splits (reference: one read per line), every single split position, every pair of split positions (every third triple in "
             "thorough) and fixed fragment sizes 1..16, 1022, 1023, 1024, 2048; CRLF vs LF through the built-in reader; and 23 lexeme kinds are placed at "
             "5 (quick) / all (thorough) alignments across byte 1023 (and 2046) of one long line, LF and CRLF, through StringReader and through the bloc "
             "command's file and stdin readers, against the same tokens one per line. Oracle: token stream (code, text), parse verdict and message, unparsed "
             "program and program output are equal to the reference delivery."
             ' Added routes for the long-line and line-length families: the reader of the include statement and the reader of the interactive mode.'
             ' Lexemes aligned across byte 64 x 1023 (16, 65, 128 x 1023 in thorough) with blank padding. Byte content: sequences over EF BB BF (8 bytes in thorough) inside a literal at reader boundaries (line offsets around 1023 k, continuation lines) through bloc file and bloc -. Round 5: bloc_parse_expression with a line end (LF, CRLF) after any token of 12 expressions. Round 6: expressions ended by a line end or by nothing. Round 8: every text in LF and in CRLF layout also through the reader of the include statement; texts with multi-line strings.',
        note="trusted: the unsplit delivery as reference; // and # comments are line-anchored and are not joined onto long lines; a custom reader that passes CR through is compared with itself only",
        design="DESIGN.md section 4, C13"),
    "C02": dict(
        engine="E1 space",
        technique="bounded exhaustive enumeration of the (construct x operand type x nullness) matrix comparing compile-time and run-time types, of all short programs for batch-vs-stepwise equivalence, and of all (initial, assigned) type pairs under constraints",
        text="(a) For every expression of the vocabulary product (every builtin, operator, type method and @rank over literals, variables, typed nulls, untyped "
             "null, function results, table elements and tuple items of every type; depth-2 operator pairs in thorough) the static type is read from "
             "Expression::type() while the context is in parsing mode and compared with the type of the evaluated value (major, tuple structure, table "
             "dimension) and with the text typeof() prints; opaque static types are skipped. (b) All sequences of <=3 (quick) / <=4 (thorough) statements "
             "over 29/35 statements in which variables change type, are $-constrained, serve as loop iterators, are used by compile-time selected methods "
             "and functions are redefined with another return type: one parse+run of the whole text versus parse+run statement by statement in one "
             "context; if the whole text runs, every statement must run alone, with the same output, variable values and functions. (c) Every (initial "
             "type, assigned type) pair over 18 typed values for $-variables, for iterators and forall iterators over four element types, by direct "
             "assignment and through an expression of opaque type: typeof never changes while the constraint is active, the iterator accepts any type "
             "afterwards and the iterated table stays uniform."
             ' The operand-kind product (typed signatures x constant / variable / temporary / element / item / function result) goes through the same static-vs-dynamic comparison, and a second statement alphabet around tuples, tables of tuples and assignments that are compiled but never executed goes through unit-vs-stepwise.'
             ' Every evaluated value is also checked against its own type (tuple items vs declaration, table elements vs element type, nulls included). `$` variables used as for / forall control variables keep their constraint. Round 5: plain-typed variables assigned null structured values; opaque operands of two-argument built-ins in quick.',
        note="trusted: Expression::type() under Context::parsing() is the compile-time type; typeof compared case-insensitively",
        design="DESIGN.md section 4, C02"),
    "C14": dict(
        engine="E3 sched",
        technique="stateless model checking of the implementation: depth-first exploration of all thread schedules up to a preemption bound under a cooperative scheduler that owns the instrumented points, plus a free-running ThreadSanitizer pass and exhaustive sequential call orders",
        text="harness/sched.cpp compiles one program, clones the context N times and runs bloc_execute2 on N real threads; only one thread runs at a time and "
             "control changes hands only at BLOC_VERIF_POINTs (statement entry, null node, random generator, error text buffer, C API last-error record, "
             "reference counts) and before a failed thread reads bloc_errno / bloc_strerror. All choice sequences with at most 2 preemptions for 2 threads "
             "(quick), plus 3 preemptions / 2 threads and 2 preemptions / 3 threads (thorough) are explored for 12 programs (recursion, table+forall, null "
             "logic, handled / unhandled / nested errors, strings, literals, function locals, deep error unwinding, random, tuples), each execution in a "
             "forked child; oracle: every thread's output, result, error number and text and final variables equal the sequential run and the original "
             "context is unchanged; prefix replay divergence is a hard error and schedules are replayed twice for determinism. The same thread bodies "
             "run free under ThreadSanitizer (4 threads quick; 2/4/8 thorough): any report in the library is a violation. All precondition-respecting "
             "orders (length <=5 / <=6) of clone, run in clone, run in original, purge original, free original, free clone, free executable are run "
             "against a sequential model under ASan."
             ' Added: programs reading clone-inherited variables as operands and `matches` with per-clone patterns; the sequential run in clones is compared with runs in contexts that were never cloned; the valid programs of the C01 corpus at 2 threads (bound 1 / 2) and under ThreadSanitizer.'
             ' The orders program includes a source file (the included statements must run in the executing context). Round 6: programs in which every clone copies, stores and drops references to module objects inherited from the original (reference counter under TSan). Round 8: a program with overloaded functions compiled in the original and run in the clones; every access to the object reference counter (load, store, read-modify-write) is a scheduling point of its own.',
        note="trusted: sufficiency of the instrumented points (checked by the TSan pass, not assumed); weak memory orderings are not modelled; more than 3 threads only in the TSan pass",
        design="DESIGN.md section 4, C14"),
    "C16": dict(
        engine="E2 hist",
        technique="explicit-state search over process-wide event histories (grants, loads, contexts, compiles) replayed on the real library in a fresh process per history, compared with a permission model",
        text="The module registry and the grant list are process-wide while trust is per context, so every history runs in a process of its own. Events: host "
             "grants vmod / vmod2, clears the grants, clones the untrusted context; a trusted context imports and constructs; the untrusted context and its "
             "clone import by name, import by path, include a file, construct at top level / inside a function body / by copy constructor / with another "
             "spelling, declare a typed variable or parameter, call a method on a typed null, compile a constructor now and run it after later events, "
             "call a function compiled earlier, and run the original's program through execute2. All histories of length <=3 (quick) / <=4 (thorough), "
             "then breadth-first over model-distinct states to depth 6 / 8. Oracle: the constructor compiles in an untrusted context iff the module is "
             "loaded and granted at that moment; import by path and include are refused there; the trusted context is never refused; and the "
             "verification module's creation log shows no object created by code compiled without a grant."
             ' Added: 29 constructor spellings (empty / blank / commented argument list, every arity, nested, upper case, inside expressions, conditions, loop headers, handlers, function bodies, return) x 4 situations without a valid grant x original / clone x loaded by import / by construction.'
             ' The spelling sweep also runs in a context that was trusted and made untrusted again, and includes import by path expression and include, refused whatever is granted. Events on the trusted context (purge, purge working memory, include, import by path, constructor in a function / in a clone) must stay unrestricted. Round 5: a second module whose name begins with the granted one.',
        note="trusted: the permission model; vmod (harness/vmod.cpp) stands for any module",
        design="DESIGN.md section 4, C16"),
    "C17": dict(
        engine="E2 hist",
        technique="explicit-state breadth-first search over statement histories on the real interpreter with an instrumented module, each state checked against a reference-count model from the module's create/destroy/method event log",
        text="harness/vmod.cpp (built as vmod and vmod2) gives every object its own heap block (guarded by ASan), an id and an event log. Breadth-first search "
             "to depth 4 (quick) / 6 (thorough) over 27 statements - construct, b = a, overwrite, store in table / tuple, delete, concat, pass to a "
             "function, return from a function, temporaries, chained self(), a method returning another object, copy constructor, INOUT argument, "
             "construction in a loop / in a block that raises / in a failing argument list, forall over a table of objects, a method creating an object, "
             "a callee keeping a reference, a five-argument method - and host events purge working memory, clone, free clone; states are deduplicated by "
             "the model's canonical holder map; every history runs in its own process and ends by releasing every context. In every state: no object "
             "with a live holder has been destroyed, every method event is on a live object of the defining module with exactly the supplied arguments, "
             "copies of references create no object, the variables and table hold the objects the model predicts, and after release every created object "
             "has exactly one destroy event. Ten programs offer a vmod2 object where vmod was compiled; no method or constructor of one module may run "
             "on an object of the other."
             ' Added: 11 carriers of a foreign object x 10 uses; loops refused at entry or dying in their body; 15 scripts + 4 interactive sessions through the bloc command (file, stdin, --out, -i) with every object destroyed exactly once by process end.'
             ' Statements that return an object to a host that never collects it; the module logs foreign objects received as arguments; containers are checked against the module their type names. Re-evaluation of one use site with vmod then vmod2 objects (function with untyped parameter, loop over an undefined result); one statement with n object temporaries for 23 sizes up to 513 in 5 shapes. Round 5: a method storing a new object into its own receiver variable (INOUT object argument); a callee that raises while holding objects. Round 6: in-place members on tables / tuples built on the fly that take the object of a variable; forall over an element of a table variable. Round 7: a method returning another object on a temporary receiver; forall over a temporary table of objects. Round 8: the function whose cached context holds an object is defined again by a later text.',
        note="trusted: the holder model; late destruction (before release) is allowed by the property and not flagged",
        design="DESIGN.md section 4, C17"),
    "C18": dict(
        engine="E1 space + E2 hist",
        technique="bounded exhaustive enumeration of rows / byte strings / parameter tuples / operation sequences on the real modules, each compared with an independent reader (Python codecs, Python sqlite3, a byte-buffer twin file)",
        text="csv: every row of one field (length <=2 quick / <=3 thorough), two fields and three short fields over {a, space, separator, quote, LF, CR} for four "
             "separator/quote formats is serialised and deserialised in one shot and line by line (deserialize + deserialize_next per LF); the fields must "
             "come back identical with a complete-record status. utf8: every byte string of length <=3 / <=4 over 16 bytes covering every lead, "
             "continuation and illegal class; Python's codec decides validity; count, rawsize, string, at, substr, insert, remove, copy+append are compared "
             "with Python for valid input, and every position of {null,-1,0..5,MAX} must give a result or a BLOC error. file: every sequence of <=3 / <=4 "
             "operations from write string/bytes, seekset/cur/end, read string/bytes, readln, position, flush in each of the modes r, w, a, r+, w+, a+ on a "
             "file with known content, compared step by step with a byte-buffer twin, and the file read back by Python after close. sqlite3: every parameter "
             "tuple of <=2 items (sampled triples quick, all triples thorough) over 21 values (integer and decimal extremes, -0.0, subnormal, empty/quoted/"
             "NUL/high-byte strings, empty and binary bytes, typed nulls, boolean) is bound by exec(sql, tuple) and read back by query() and, independently, "
             "by Python's sqlite3 from the same database file: value and SQL type must match. Every method of the four modules is called with null / "
             "out-of-range / wrong-type-state arguments on fresh, closed and null objects. Every case runs in its own process under ASan+UBSan."
             ' Added: utf8 insert / concat of unicode strings (another one and itself) against Python, object arguments offered to utf8 (own, null, foreign through a function with a declared result type); files and read requests sized around the module buffer, long lines through readln; the sqlite3 prepared-statement path (bind, execute, fetch) against query().'
             ' A prepared statement bound three times (values, nulls, values); a write without final newline in the quick file alphabet. Round 5: INOUT variables in every state; sqlite3 statement states (prepared, stepped, closed under it, reopened, finalized); the cursor of a prepared statement as a state machine (all sequences of length <= 5 / 7). Round 6: well-formed text at the edges of every UTF-8 encoding length; file objects after a failed re-open; state reports (isopen) after failed operations. Round 7: the five utf8 transforms followed by an append.',
        note="trusted: Python codecs/sqlite3, the twin-file semantics; size arguments capped; plplot cannot be built here and is not claimed; two utf8 findings recorded (KNOWN_FINDINGS.txt)",
        design="DESIGN.md section 4, C18"),
    "C19": dict(
        engine="E5 proc",
        technique="exhaustive enumeration of (program outcome class x argument vector x invocation mode) process runs of the real bloc command, compared with the in-process run of the same text through the library",
        text="33 programs covering every outcome class (prints and succeeds, compile errors at known positions, unhandled runtime errors incl. errors inside a "
             "function and the recursion limit, handled error, return of boolean / integer / negative / decimal / 17-digit decimal / string / empty string / "
             "tuple / complex / null / typed null / table / bytes / nothing, output before a failure, $ARG readers, shebang, empty file) x all argument "
             "vectors of <=1 (quick) / <=2 (thorough) items over {\"\", \"a b\", quoted, non-ASCII, -x, --out=z, -} x modes {file, - (stdin), --out=F}; 16 "
             "expressions through -e; 10 interactive transcripts fed to -i (including errors in a while condition, a for body, a forall body and a begin "
             "block followed by break and further loops) and 2 save/load sessions. Oracle: the in-process run of the same text with $ARG set identically: "
             "selected output byte-equal (stdout or the --out file, the other empty), returned value printed by the documented rule, exit status 0 iff no "
             "unhandled error, otherwise 'Error (line:column): message' / 'Error: message' on stderr with the library's position and text; interactive "
             "transcripts (prompts, echo, banner, Elapsed removed) print the same lines in the same order as the library's statement-at-a-time run; a saved "
             "session run again prints the same and saving the loaded session gives the same text."
             ' Added: 12 source bytes x 6 places through file / stdin / --out, option-like program arguments (-e, -i, --parse, --out=), a missing --out file is a violation, save / load sessions from the C12 statement programs.'
             ' 33 compile errors at places computed from the text (after block / line comments, multi-line strings, tabs, blank lines, inside a loop) compared with the reported line:column. Argument vectors that repeat a word or contain the program operand (file, relative file, -); returned / -e strings containing %. Round 5: -e with one word / many words / --out, expressions beginning with a minus sign, words after a complete expression; every console command word as a variable in 7 statement forms; calls of functions named like commands. Round 6: equal signs inside the --out path; physical lines of 900 .. 3100 bytes through the interactive reader. Round 7: returned nulls of every type. Round 8: every option word of the tool, --, --version and = as arguments that follow the program.',
        note="trusted: the library run as reference; the ASan build of the bloc executable; terminal colour codes are stripped",
        design="DESIGN.md section 4, C19"),
    "C15": dict(
        engine="E2 hist",
        technique="exhaustive enumeration of precondition-respecting C API call sequences generated from a state-machine model of handles and ownership, executed on the real library under ASan/LSan and compared call by call with the model",
        text="A model of two contexts, symbols A and B, three caller-owned values, two library-owned pointers, one expression and one executable drives 63 "
             "operations: creation of values of every type including NULL payloads, store/load, assign, inspection by every typed accessor (match iff type, "
             "NULL data iff null, table/tuple size and items, item access past the end), parse of 13 valid and 5 invalid texts with and without position "
             "request, execute and execute2 in a clone, drop_returned, break/reset_stop, parse/type/evaluate of 6 valid and 2 invalid expressions, clone, free, "
             "purge, purge_working_mem, register, find. All sequences of length <=2 over the full alphabet and <=3 over 20 core operations (quick); all "
             "triples plus depth-4 extensions of model-distinct core triples (thorough). Library-owned pointers are re-read immediately before the next "
             "call that ends their guaranteed life (ASan reports an early death); every sequence ends by freeing everything the caller owns, then "
             "LeakSanitizer must be silent. In addition every rejected text of the C11 corpus (about 1 600 quick / 5 000 thorough truncations and "
             "single-token corruptions) is parsed through bloc_parse_executable and bloc_parse_expression, the context must still run a valid program, "
             "and no memory may remain after release."
             ' Added to the alphabet: host updates of a variable through its loaded pointer (assign literal / tabchar / null) followed by scripts reading it twice, handler-raises and forall-error executables, a tuple variable re-typed by a parse that is not executed, a table symbol registered by the host, trace flag and version calls.'
             ' A parse error inside every kind of block (while, forall, if, else, begin, handler, function body, nested, empty while body) followed by a function definition. Invariant on every inspected value, including the caller\'s value after store_variable: a null value yields NULL data from every accessor that succeeds. Round 5: a symbol registered again with another type (5 x 4 type pairs x 5 things in between); life of evaluated values of every expression kind after the expression is freed; every operator with 11 x 11 operand kinds as rejected text. Round 6: refused stores leave the caller\'s value untouched; storing a variable\'s own value into another variable copies it. Round 8: caller-owned scalars (boolean, integer, decimal and their nulls) stored twice are copies: the caller`s value is inspected before and after.',
        note="trusted: the handle/ownership model in vf/props/c15.py; ASan/LSan of clang 14 (a g++-only leak found by reading is recorded as fixed)",
        design="DESIGN.md section 4, C15"),
}

NOT_YET = {}


def main():
    props = [json.loads(l) for l in open(os.path.join(HERE, "properties.jsonl"))]
    try:
        commits = subprocess.run(["git", "-C", "/repo", "log", "--format=%h %s", "--grep=^verif hooks"], stdout=subprocess.PIPE).stdout.decode().splitlines()
    except Exception:
        commits = []
    checks = []
    na = []
    for p in props:
        pid = p["id"]
        c = CHECKS.get(pid)
        if not c:
            na.append({"property_id": pid, "reason": NOT_YET.get(pid, "check not built yet in this round; bounded-exhaustive design in DESIGN.md section 4")})
            continue
        checks.append({
            "property_id": pid,
            "quick_cmd": "./check %s quick" % pid,
            "thorough_cmd": "./check %s thorough" % pid,
            "evidence_file": "evidence/%s.json" % pid,
            "replay_cmd_template": "./check --replay {path}",
            "engine": c["engine"],
            "level_claimed": {"category": "model_checking", "text": c["text"], "design_ref": c["design"]},
            "level_note": c["note"],
            "technique": c["technique"],
        })
    man = {
        "version": 1,
        "setup_cmd": "./check --setup",
        "hooks": {
            "guard": "BLOC_VERIF",
            "enable": "cmake -DCMAKE_CXX_FLAGS='-DBLOC_VERIF -fsanitize=address,undefined' (build/asan) and '-DBLOC_VERIF -fsanitize=thread' (build/tsan); done by ./check",
            "baseline_off_cmd": "./check --baseline-off",
            "source_commits": [c.split()[0] for c in commits],
            "add_only": True,
        },
        "engines": [
            {"name": "E1 space", "path": "vf/core.py", "serves_properties": sorted(k for k, v in CHECKS.items() if v["engine"].startswith("E1")),
             "kind_free_text": "parallel exhaustive enumeration of finite case spaces through harness/vdrv.cpp (fork-isolated, ASan+UBSan, step budget, CPU watchdog)"},
            {"name": "E3 sched", "path": "harness/sched.cpp, vf/props/c14.py", "serves_properties": ["C14"],
             "kind_free_text": "cooperative scheduler over BLOC_VERIF_POINTs, depth-first iterative context bounding with fork per execution, prefix replay with divergence check; TSan free-running pass"},
            {"name": "E4 env", "path": "vf/props/c13.py, harness/vdrv.cpp (FragReader)", "serves_properties": ["C13"],
             "kind_free_text": "all environment answers with <=k deviations from the default (split points of the read stream, fixed fragment sizes, long-line alignments)"},
            {"name": "E5 proc", "path": "vf/props/c19.py (also used by C01, C13)", "serves_properties": ["C19"],
             "kind_free_text": "spawns build/asan/apps/bloc for every member of the product and compares with the in-process run"},
            {"name": "E2 hist", "path": "vf/core.py (explore + collect), vf/props/c08.py, vf/props/c09.py", "serves_properties": sorted(k for k, v in CHECKS.items() if v["engine"].startswith("E2")),
             "kind_free_text": "explicit-state search over operation histories: each state is rebuilt by replaying its shortest history on a fresh context, canonical dump -> dedup, invariant + model comparison in every state"},
        ],
        "checks": checks,
        "notes": "All checks rebuild /repo's working tree (build/asan, -DBLOC_VERIF, clang ASan+UBSan through harness/cxxwrap, which compiles a unit that clang refuses and gcc accepts with gcc) before running. KNOWN_FINDINGS.txt lists recorded findings and repaired defects.",
        "not_applicable": na,
    }
    with open(os.path.join(HERE, "MANIFEST.json"), "w") as f:
        json.dump(man, f, indent=1)
    print("MANIFEST.json: %d checks, %d not claimed" % (len(checks), len(na)))


if __name__ == "__main__":
    main()
