"""C01 — any source text is executed or rejected with an error; never a crash.

Exhaustive sweeps of (1) short byte strings, (2) short token strings, (3) all single deviations from valid seed
programs, (4) the vocabulary product: every builtin / operator / method / @rank with every argument tuple of a
boundary value alphabet, (5) representatives through the bloc command. Oracle: outcome is ok / parse error /
runtime error; no crash, no sanitizer report, no foreign exception, no hang.
"""
import itertools
import os
import subprocess
import time

from .. import build
from ..core import (Case, Violation, explore, finish, generic_safety, op_ctx, op_run, op_setvar, Result, hx)

PROP = "C01"

# ------------------------------------------------------------------------------------------------
# value alphabet
PRELUDE = (
    'vi = 7; vimax = 9223372036854775807; vimin = -9223372036854775807-1; vni = int(); '
    'vd = 2.5; vnd = num(); vs = "abc"; ves = ""; vns = str(); vb = raw("ab"); vnb = raw(); '
    'vt = true; vnt = bool(); vc = 2 + 3 * ii; vnc = num() * ii; vr = tup(1, "a", 2.5); vnr = tup(); '
    'vtab = tab(2, 5); vtabs = tab(2, "x"); vtab2 = tab(2, tab(2, 1)); vtabr = tab(2, tup(1, "a")); vntab = tab(); vetab = tab(0, 1); '
    'vu = null; '
    'if false then uq = 5; us = "a"; ut = tab(1, 1); ur = tup(1, "a"); ub = raw("b"); end if; '
    'fa = 5; forall fa in tab(2, "x") loop nop; end loop; '
    'function f1(x) return undefined is begin return x; end; '
    'function fnull() return integer is begin return int(); end; '
)
SETVARS = [("VINF", "dinf"), ("VNAN", "dnan"), ("VNEG0", "d-0x0p+0"), ("VNUL", "s" + b"a\x00b".hex()), ("VHIGH", "s" + b"\xff\x80".hex())]

V_FULL = [
    # integers
    "0", "1", "-1", "2", "255", "256", "64", "9223372036854775807", "(-9223372036854775807-1)", "4294967297", "int()", "vi", "vimax", "vimin", "vni",
    # decimals
    "0.0", "1.5", "-1.5", "9223372036854775808.0", "1e308", "5e-324", "num()", "vd", "vinf", "vnan", "vneg0", "vnd",
    # strings
    '""', '"a"', '" a "', '"12"', '"1.5e3"', '"0x1f"', '"aaaa"', "str()", "vs", "ves", "vns", "vnul", "vhigh",
    # bytes
    'raw("")', 'raw("a")', 'raw("12")', "raw(2,255)", "raw()", "vb", "vnb",
    # booleans
    "true", "false", "bool()", "vt", "vnt",
    # complex
    "ii", "vc", "vnc",
    # tuples
    'tup(1,"a")', "tup()", "vr", "vnr", "tup(int(), str())",
    # tables
    "tab(2,1)", 'tab(0,"")', "tab()", "vtab", "vtabs", "vtab2", "vtabr", "vntab", "vetab", "tab(1, num())",
    # untyped null, function results (f1 returns `undefined`: an opaque static type over a concrete run-time value)
    "null", "vu", "f1(1)", "fnull()", "f1(ii)", "f1(1.5)", 'f1("a")', "f1(vtab)", "f1(vr)", "f1(true)", 'f1(raw("a"))',
    # a variable that a forall left behind: null, and typed by the loop
    "fa",
    # named constants (nodes of the program like literals)
    "phi", "pi", "ee",
    # variables that exist (compiled) but were never assigned
    "uq", "us", "ut", "ur", "ub",
]
V_QUICK = ["0", "-1", "256", "vimax", "vimin", "vni", "1.5", "vinf", "vnan", "vnd", '""', '"a"', '"12"', "vns", "vnul",
           'raw("a")', 'raw("12")', "vnb", "vb", "true", "vnt", "vc", "vnc", "vr", "vnr", "tup()", "vtab", "vtabs", "vtab2", "vtabr", "vntab", "vetab",
           "null", "vu", "fnull()", "int()", "num()", "str()", "raw()", "bool()", "tab()", "2", "vs", "uq", "us", "ut", "ur",
           "f1(ii)", "f1(1.5)", 'f1("a")', 'f1(raw("a"))', "fa", "phi", "pi"]
REGEXES = ['"a.c"', '"a(c"', '"a)c"', '"[0-9"', '"a{2"', '"a{2,1}"', '"*a"', '"+"', '"?"', '"a**"', '"\\\\"', '"(?"', '"[[:nosuch:]]"', '"[z-a]"', '"a|"', '"()"', '"\\\\1"',
           '"(a"', '"a]"', '"{"', '"a{99999999999}"', '"((((((((((a))))))))))"', '"[a-"', '"(?=a)"', '"\\\\x"', '".*"', '""']
V_OPAQUE = ["f1(ii)", "f1(1.5)", 'f1("a")', 'f1(raw("a"))', "f1(vtab)", "f1(null)"]
V_SMALL = ["0", "-1", "vimax", "vimin", "vni", "1.5", "vnan", "vnd", '""', '"a"', "vns", "vnul", 'raw("a")', "vnb", "vnt", "vr", "vtab", "vntab",
           "null", "vu", "2", "vs", "uq", "us"]
V_SIZE = ["null", "int()", "vni", "-1", "0", "1", "2", "65536", "vi", "1.5", '"a"', "vnd"]   # capped: allocation exhaustion is out of scope

B1 = ["floor", "abs", "sign", "str", "num", "ceil", "sin", "cos", "tan", "atan", "int", "sqrt", "log", "exp", "log10", "asin", "acos",
      "sinh", "cosh", "tanh", "isnull", "isnum", "getsys", "getenv", "random", "bool", "chr", "strlen", "ltrim", "rtrim", "trim", "upper",
      "lower", "imag", "iphase", "iconj", "b64enc", "b64dec", "typeof", "readln"]
B2 = ["max", "min", "pow", "mod", "atan2", "round", "lsubstr", "rsubstr", "hash", "read", "input", "strpos", "substr", "subraw", "tokenize"]
B2_SIZE = {"hex": 1, "raw": 0, "tab": 0}     # which argument is a size
B3 = ["clamp", "substr", "subraw", "strpos", "replace", "tokenize"]
CONSTS = ["null", "true", "on", "false", "off", "error", "phi", "pi", "ee", "ii"]

BINOPS = ["+", "-", "*", "/", "%", "**", "power", "&", "|", "^", "<<", ">>", "==", "!=", "<", "<=", ">", ">=", "matches",
          "and", "&&", "or", "||", "xor"]
UNOPS = ["-", "+", "~", "not", "!"]
RANKS = ["0", "1", "2", "3", "4", "4294967297", "99999999999999999999", "18446744073709551617"]
POS = ["null", "vni", "-1", "0", "1", "2", "3", "4294967296", "vimax", "vimin", "1.5", '"a"']


def stmt_cases(prefix, exprs, n0=0):
    n = n0
    for e, tag in exprs:
        ops = [op_ctx(), op_run(PRELUDE)] + [op_setvar(k, v) for k, v in SETVARS]
        ops.append(op_run("x = %s;" % e))
        ops.append(op_run("print %s;" % e))
        ops.append(op_run("x = %s; print typeof(x) isnull(x); y = x; print y;" % e, route="capi"))
        yield Case("%s%d" % (prefix, n), ops, {"kind": "vocab", "tag": tag, "e": e})
        n += 1


def vocab_exprs(tier):
    V = V_FULL if tier == "thorough" else V_QUICK
    V2 = V_FULL if tier == "thorough" else V_SMALL
    V3 = V_SMALL if tier == "thorough" else V_SMALL[::2]
    for c in CONSTS:
        yield (c, "const:" + c)
        yield (c + "()", "const():" + c)
        yield (c + "(1)", "const(1):" + c)
    for b in B1 + B2 + B3 + ["hex", "raw", "tab", "tup"]:
        yield ("%s()" % b, "b0:" + b)
    for b in B1 + B2 + ["hex", "raw", "tab", "tup"]:
        for a in (V_SIZE if b in ("raw",) else V):
            yield ("%s(%s)" % (b, a), "b1:" + b)
    for b in B1[:6] + B2:
        for a in V2:
            for c in V2:
                yield ("%s(%s, %s)" % (b, a, c), "b2:" + b)
    if tier != "thorough":
        # an operand whose type is only known at run time, on either side of every two-argument built-in
        for b in B1[:6] + B2:
            for a in V_OPAQUE:
                for c in V2:
                    yield ("%s(%s, %s)" % (b, a, c), "b2:" + b)
                    yield ("%s(%s, %s)" % (b, c, a), "b2:" + b)
    for b, si in B2_SIZE.items():
        for a in (V_SIZE if si == 0 else V2):
            for c in (V_SIZE if si == 1 else V2):
                yield ("%s(%s, %s)" % (b, a, c), "b2:" + b)
    for a in V2:
        for c in V2:
            yield ("tup(%s, %s)" % (a, c), "b2:tup")
    for b in B3:
        for a in V3:
            for c in V3:
                for d in V3:
                    yield ("%s(%s, %s, %s)" % (b, a, c, d), "b3:" + b)
    for b in B3 + ["max", "hex", "tab", "raw"]:
        for a in V3[:4]:
            yield ("%s(%s, %s, %s, %s)" % (b, a, a, a, a), "b4:" + b)
    for o in BINOPS:
        for a in V:
            for c in V:
                yield ("%s %s %s" % (a, o, c), "op:" + o)
    # patterns of `matches`: valid and malformed regular expressions, as constant, variable content and opaque value
    for pat in REGEXES:
        for subj in ('"abc"', "vs", "vns", 'f1("a")'):
            yield ("%s matches %s" % (subj, pat), "op:matches-pattern")
            yield ("%s matches f1(%s)" % (subj, pat), "op:matches-pattern")
            yield ("%s matches (\"\" + %s)" % (subj, pat), "op:matches-pattern")
    for o in UNOPS:
        for a in V:
            yield ("%s %s" % (o, a), "unop:" + o)
            yield ("%s %s %s" % (o, o, a), "unop2:" + o)
    # type methods and ranks
    for r in V:
        yield ("%s.count()" % r, "m:count")
        for k in RANKS:
            yield ("%s@%s" % (r, k), "rank")
        for a in V:
            for m in ("at", "delete", "concat"):
                yield ("%s.%s(%s)" % (r, m, a), "m:" + m)
        for a in POS:
            for m in ("at", "delete"):
                yield ("%s.%s(%s)" % (r, m, a), "m:" + m)
    recv = [v for v in V if not v[0].isdigit() and v[0] not in "-("]
    for r in recv:
        for p in POS:
            for a in V2:
                for m in ("put", "insert"):
                    yield ("%s.%s(%s, %s)" % (r, m, p, a), "m:" + m)
        for k in RANKS[:6]:
            for a in V2:
                yield ("%s.set@%s(%s)" % (r, k, a), "m:set@")
    # chains
    for r in ["vtab", "vtab2", "vtabr", "vs", "vb", "vr"]:
        for a in V3:
            yield ("%s.at(0).at(%s)" % (r, a), "chain")
            yield ("%s.concat(%s).concat(%s).count()" % (r, a, a), "chain")
            yield ("%s.at(0)@1" % r, "chain")
            yield ("%s.put(0, %s).at(0)" % (r, a), "chain")


# ------------------------------------------------------------------------------------------------
# the same vocabulary with every operand handed over through an untyped function parameter: the compile-time type checks see an
# opaque value, only the run-time guards stand between the value and the built-in / operator / method
TABLES = ['tab(1, raw("a"))', 'tab(1, "s")', 'tab(1, tup(1, "a"))', "tab(1, tab(1, 1))", "tab(1, true)", "tab(1, 1.5)", "tab(1, ii)", "tab(2, tab(1, raw(\"b\")))",
          "tab(0, raw())", 'tup(raw("a"), tab(1, 1))']


def opaque_cases(tier):
    V1 = (V_FULL if tier == "thorough" else V_QUICK) + TABLES
    V2 = (V_QUICK if tier == "thorough" else V_SMALL) + TABLES
    V3 = V_SMALL[::2] + TABLES[:4]
    for b in B1 + ["hex", "raw", "tab", "tup", "str", "num", "int", "bool"]:
        if b in ("random", "readln", "getsys", "getenv"):
            continue
        fn = "function fo(p) return undefined is begin return %s(p); end;" % b
        for a in (V_SIZE if b == "raw" else V1):        # raw(n) allocates n bytes: sizes are capped (out of the property's domain above)
            yield fn, "fo(%s)" % a, "o1:" + b
    for b in B2 + ["hex", "raw", "tab", "tup", "lsubstr", "substr", "subraw"]:
        if b in ("read", "input"):
            continue
        fn = "function fo(p, q) return undefined is begin return %s(p, q); end;" % b
        for a in V2:
            for c in (V_SIZE if b in ("raw", "tab") else V2):
                x, y = (c, a) if b in ("raw", "tab") else (a, c)
                yield fn, "fo(%s, %s)" % (x, y), "o2:" + b
    for b in B3:
        fn = "function fo(p, q, r) return undefined is begin return %s(p, q, r); end;" % b
        for a in V3:
            for c in V3:
                for d in V3:
                    yield fn, "fo(%s, %s, %s)" % (a, c, d), "o3:" + b
    for o in BINOPS:
        fn = "function fo(p, q) return undefined is begin return p %s q; end;" % o
        for a in V2:
            for c in V2:
                yield fn, "fo(%s, %s)" % (a, c), "oop:" + o
    for o in UNOPS:
        fn = "function fo(p) return undefined is begin return %s p; end;" % o
        for a in V1:
            yield fn, "fo(%s)" % a, "ounop:" + o
    for m, ar in (("count()", 1), ("at(q)", 2), ("concat(q)", 2), ("delete(q)", 2), ("put(q, r)", 3), ("insert(q, r)", 3), ("set@1(q)", 2), ("set@2(q)", 2),
                  # ranks at and beyond the size of every tuple of the alphabet (2 and 3 items): the compile-time range check cannot apply
                  ("set@3(q)", 2), ("set@4(q)", 2), ("set@5(q)", 2), ("set@4294967297(q)", 2)):
        params = ["p", "q", "r"][:ar]
        fn = "function fo(%s) return undefined is begin return p.%s; end;" % (", ".join(params), m)
        if ar == 1:
            for a in V1:
                yield fn, "fo(%s)" % a, "om:" + m
        elif ar == 2:
            for a in V2:
                for c in V2:
                    yield fn, "fo(%s, %s)" % (a, c), "om:" + m
        else:
            for a in V2:
                for c in POS[:8]:
                    for d in V3:
                        yield fn, "fo(%s, %s, %s)" % (a, c, d), "om:" + m
    for k in RANKS[:5]:
        fn = "function fo(p) return undefined is begin return p@%s; end;" % k
        for a in V1:
            yield fn, "fo(%s)" % a, "orank"


def gen_opaque(tier):
    def gen():
        n = 0
        for fn, call, tag in opaque_cases(tier):
            ops = [op_ctx(), op_run(PRELUDE)] + [op_setvar(k, v) for k, v in SETVARS]
            ops += [op_run(fn), op_run("x = %s;" % call), op_run("print %s;" % call), op_run("y = %s; print typeof(y); z = y; print z;" % call, route="capi")]
            yield Case("o%d" % n, ops, {"kind": "vocab", "tag": tag, "e": call, "fn": fn})
            n += 1
    return gen


def gen_vocab(tier):
    def gen():
        return stmt_cases("v", vocab_exprs(tier))
    return gen


# ------------------------------------------------------------------------------------------------
# bytes
CLASS24 = [b"0", b"9", b"a", b"e", b"x", b"$", b"_", b'"', b"\\", b"=", b"<", b">", b"!", b"*", b"/", b"#", b".", b"@", b";", b" ",
           b"\n", b"\r", b"\x00", b"\xff"]
CLASS12 = [b"1", b"a", b'"', b"\\", b"/", b"*", b"#", b"\n", b"\x00", b"\x80", b"(", b"."]


def gen_bytes(tier):
    def texts():
        yield b""
        for a in range(256):
            yield bytes([a])
        for a in range(256):
            for b in range(256):
                yield bytes([a, b])
        for t in itertools.product(CLASS24, repeat=3):
            yield b"".join(t)
        if tier == "thorough":
            for t in itertools.product(CLASS12, repeat=4):
                yield b"".join(t)
            for t in itertools.product(CLASS12[:8], repeat=5):
                yield b"".join(t)

    def gen():
        for n, t in enumerate(texts()):
            yield Case("b%d" % n, [op_ctx(0), op_run(t), op_ctx(1), op_run(t, slot=1, route="capipos")], {"kind": "bytes", "t": t.hex()})
    return gen


# ------------------------------------------------------------------------------------------------
# tokens
TOKENS = ["a", "zz", "t", "r", "f", "1", "2.5", '"s"', "null", "true", "=", "==", "+", "-", "*", "**", "(", ")", ",", ";", ".", "@", ":",
          "if", "then", "else", "elsif", "end if", "for", "in", "to", "loop", "end loop", "while", "forall", "begin", "end", "exception",
          "when", "others", "raise", "return", "break", "continue", "function", "is", "print", "at", "put", "tab", "tup", "str", "int",
          "not", "and", "integer", "step", "desc", "do", "let", "import", "include", "trace", "nop", "\n"]
TOK_QUICK = ["a", "t", "r", "f", "1", '"s"', "null", "=", "+", "-", "**", "(", ")", ",", ";", ".", "@", ":", "if", "then", "end if", "for", "in",
             "to", "loop", "end loop", "while", "forall", "begin", "end", "exception", "when", "raise", "return", "break", "function", "is",
             "print", "at", "tab", "tup", "not", "integer", "import", "include"]
TOK_PRE = 'a = 1; t = tab(2, 1); r = tup(1, "x"); function f(x) return integer is begin return x; end;'


def gen_tokens(tier):
    toks = TOKENS if tier == "thorough" else TOK_QUICK
    maxlen = 3

    def gen():
        n = 0
        for l in range(1, maxlen + 1):
            for t in itertools.product(toks, repeat=l):
                text = " ".join(t)
                yield Case("t%d" % n, [op_ctx(), op_run(TOK_PRE), op_run(text), op_run(text + ";", route="capi"), op_run("print a;")],
                           {"kind": "tokens", "t": text})
                n += 1
        if tier == "thorough":
            for t in itertools.product(TOK_QUICK[:30], repeat=4):
                text = " ".join(t)
                yield Case("t%d" % n, [op_ctx(), op_run(TOK_PRE), op_run(text + ";")], {"kind": "tokens", "t": text})
                n += 1
    return gen


# ------------------------------------------------------------------------------------------------
# deviations from valid seed programs
SEEDS = [
    'a = 1 + 2 * 3; print a;',
    'let s = "he\\"l\\tlo" + "x"; print s s.count();',
    'b = raw(4, 0xff); b.put(0, 1).concat(2).insert(1, 3).delete(0); print b.at(0);',
    't = tab(3, 0); t.put(1, 5); t.insert(0, 9); t.delete(2); t.concat(7); print t.count() t.at(0);',
    'r = tup(1, "a", 2.5); print r@1 r@2; r.set@3(1.5); print r.count();',
    'tt = tab(2, tup(1, "x")); print tt.at(0)@2; tt.at(1).set@1(5);',
    'for i in 1 to 3 loop print i; end loop;',
    'for i in 10 to 1 step 3 desc loop if i == 4 then continue; end if; print i; end loop;',
    't = tab(2, 1); forall e in t desc loop e = e + 1; print e; end loop;',
    'n = 0; while n < 3 loop n = n + 1; if n == 2 then break; end if; end loop; print n;',
    'if 1 == 2 then print "a"; elsif 2 > 1 then print "b"; else print "c"; end if;',
    'begin x = 1 / 0; exception when divide_by_zero then print error@1; when others then print "o"; end;',
    'begin raise my_err; exception when my_err then print error@1 error@2; end;',
    'function f(a, b:integer) return integer is begin if a > b then return a; end if; return b; end; print f(1, 2);',
    'function g(n) return integer is begin if n <= 1 then return 1; end if; return n * g(n - 1); end; print g(5);',
    'x:integer; y:string; z = null; print isnull(x) typeof(y) typeof(z);',
    '$v = 1; $v = 2; print $v;',
    'a = 0x1f, b = 1.5e3, c = .5, print a b c;',
    'print (1 + 2) * -3 ** 2 % 5; print not true or false and null;',
    'print 1 << 2 | 3 & 4 ^ 5 >> 1; print ~1;',
    'print "a" == "b"; print 1 <= 2.5; print "abc" matches "a.c";',
    'print upper("a") lower("B") trim(" x ") substr("hello", 1, 2) strpos("hello", "l") replace("aXa", "X", "y");',
    'print hex(255, 4) chr(65) hash("abc", 7) b64enc("hi") str(b64dec("aGk=")) int("12") num("1.5") isnum("x");',
    't = tokenize("a,b,,c", ",", true); forall e in t loop put e " "; end loop; print "";',
    'c = 2 + 3 * ii; print imag(c) iphase(c) iconj(c) c * c;',
    'print max(1, 2) min(1.5, 2) floor(1.5) ceil(1.5) round(1.555, 2) abs(-1) sign(-2) pow(2, 3) mod(7, 3) sqrt(4.0) clamp(5, 1, 3);',
    'nop; do 1 + 1; trace false; /* comment */ print "x"; // tail\n# line\nprint "y";',
    'function h() return table is begin return tab(2, "z"); end; print h().at(1) h().count();',
    'function k(t) return tuple is begin return tup(t.count(), "n"); end; print k(tab(3, 0))@1;',
    'a = tab(2, tab(2, 0)); a.at(0).put(1, 5); forall r in a loop forall e in r loop put e; end loop; end loop; print "";',
    'return 42;',
    'print getsys("integer_max") getsys("system") typeof(getenv("HOME")) typeof(random()) typeof(random(5));',
    'begin begin raise e1; exception when e2 then print "no"; end; exception when others then print "yes"; end;',
    'for i in 1 to 2 loop for j in 1 to 2 loop if j == 2 then break; end if; print i j; end loop; end loop;',
    's = "abc"; s.put(0, 65).insert(1, "zz").delete(0).concat(66).concat("q"); print s s.at(0);',
    'x = null; x = 1; x = "s"; x = tab(1, 1); x = tup(1); x = raw(1); x = true; x = 1.5; x = ii; print typeof(x);',
]


def lex_spans(text):
    """Rough token spans of a program text (good enough to delete / swap tokens)."""
    spans = []
    i = 0
    n = len(text)
    while i < n:
        c = text[i]
        if c.isspace():
            i += 1
            continue
        j = i + 1
        if c == '"':
            while j < n and text[j] != '"':
                j += 2 if text[j] == "\\" else 1
            j += 1
        elif c.isalnum() or c in "_$":
            while j < n and (text[j].isalnum() or text[j] in "_$."):
                j += 1
        elif text[i:i + 2] in ("==", "!=", "<=", ">=", "**", "<<", ">>", "&&", "||", "//", "/*", "*/"):
            j = i + 2
        spans.append((i, min(j, n)))
        i = j
    return spans


def gen_deviations(tier):
    subs = CLASS24 if tier != "thorough" else [bytes([b]) for b in range(256)]

    def texts():
        for s in SEEDS:
            b = s.encode()
            yield b
            for k in range(len(b)):
                yield b[:k]
            spans = lex_spans(s)
            for (i, j) in spans:
                yield (s[:i] + s[j:]).encode()
            for (a, c) in zip(spans, spans[1:]):
                yield (s[:a[0]] + s[c[0]:c[1]] + s[a[1]:c[0]] + s[a[0]:a[1]] + s[c[1]:]).encode()
            for (i, j) in spans:
                yield (s[:j] + " " + s[i:j] + s[j:]).encode()
            for k in range(len(b)):
                for x in subs:
                    if b[k:k + 1] != x:
                        yield b[:k] + x + b[k + 1:]

    def gen():
        for n, t in enumerate(texts()):
            yield Case("d%d" % n, [op_ctx(0), op_run(t), op_ctx(1), op_run(t, slot=1, route="capipos")], {"kind": "dev", "t": t.hex()})
    return gen


# ------------------------------------------------------------------------------------------------
# loops whose body disturbs the loop's own table: every outer loop form x every inner construct that takes and releases a
# lock on the same table x every mutation of the table x use of the iterator afterwards. Accepted or refused - never a
# dangling iterator.
def gen_structure(tier):
    elems = {"i": ("5", "a = a + 1;", "1"), "s": ('"elem-of-a-table-long-enough-for-the-heap"', 'a = a + "x";', '"y"'), "t": ("tab(3, 1)", "a.concat(2);", "tab(1, 9)")}
    outers = ["forall a in t loop %s end loop;", "forall a in t desc loop %s end loop;", "for k in 0 to 1 loop forall a in t loop %s end loop; end loop;",
              "n = 0; while n < 2 loop n = n + 1; forall a in t loop %s end loop; end loop;", "forall a in t loop forall a2 in t loop %s end loop; end loop;",
              # the iterated table as its own iterator (refused, or harmless)
              "a = 0; forall t in t loop %s end loop;", "a = 0; tt = tab(2, t); forall tt in tt.at(0) loop %s end loop;",
              "a = 0; forall t in tab(2, t) loop %s end loop;"]
    inners = ["", "forall b in t loop nop; end loop;", "forall b in t loop break; end loop;", "forall b in t desc loop continue; end loop;",
              "begin forall b in t loop raise e1; end loop; exception when others then nop; end;",
              "forall b in t loop forall c in t loop nop; end loop; end loop;", "begin raise e2; exception when e2 then nop; end;",
              "if true then forall b in t loop nop; end loop; end if;"]

    def gen():
        n = 0
        for ek, (ev, use, one) in elems.items():
            muts = ["t.concat(tab(100, %s));" % one, "t.concat(%s);" % one, "t.delete(0);", "t.insert(0, %s);" % one, "t.put(0, %s);" % one, "t = tab(50, %s);" % one,
                    "t = null;", "t.concat(t);", "u = t; u.delete(0);", ""]
            for o in outers:
                for i in inners:
                    for m in muts:
                        body = "%s %s print a; %s" % (i, m, use)
                        text = "t = tab(3, %s); %s print t.count();" % (ev, o % body)
                        yield Case("s%d" % n, [op_ctx(), op_run(text), op_run(text, route="capi"), op_run("t.concat(%s); print t.count();" % one)],
                                   {"kind": "structure", "t": text})
                        n += 1
    return gen


# ------------------------------------------------------------------------------------------------
def check(case, res):
    vs = generic_safety(case, res)
    nontrivial = False
    for s in res.get("steps", []):
        r = s.get("r")
        if r == "budget" and case.meta["kind"] in ("vocab", "bytes"):
            vs.append(Violation("budget:" + case.meta["kind"], "step budget exhausted by a text without a loop", case))
        if r in ("ok", "rerr"):
            nontrivial = True
        if r == "perr" and not s.get("msg"):
            vs.append(Violation("perr-empty", "parse error without a message", case))
        if r == "rerr" and not s.get("msg") and s.get("no") != 0:
            vs.append(Violation("rerr-empty", "runtime error without a message", case))
    return vs, nontrivial


def cli_pass(reps, tier, t0):
    """Representative texts through the bloc command (file and stdin); exit status must be 0/1, never a signal."""
    build.build_tree("asan")
    exe = os.path.join(build.tree_dir("asan"), "apps", "bloc")
    env = build.run_env("asan")
    env["ASAN_OPTIONS"] = "detect_leaks=0:abort_on_error=1:allocator_may_return_null=1"
    env["UBSAN_OPTIONS"] = "halt_on_error=0:print_stacktrace=0"
    res = Result()
    sdir = os.path.join(build.BUILD, "scratch", "cli-c01")
    os.makedirs(sdir, exist_ok=True)
    for n, (text, why) in enumerate(reps):
        path = os.path.join(sdir, "p%d.bloc" % n)
        with open(path, "wb") as f:
            f.write(text)
        for mode in ("file", "stdin"):
            try:
                if mode == "file":
                    p = subprocess.run([exe, path], stdin=subprocess.DEVNULL, stdout=subprocess.PIPE, stderr=subprocess.PIPE, env=env, timeout=20)
                else:
                    p = subprocess.run([exe, "-"], input=text, stdout=subprocess.PIPE, stderr=subprocess.PIPE, env=env, timeout=20)
                rc, err = p.returncode, p.stderr.decode("latin-1")
            except subprocess.TimeoutExpired:
                rc, err = "timeout", ""
            res.evaluations += 1
            res.transitions += 1
            res.nontrivial += 1
            res.digests.add(("cli", rc, mode, n).__repr__().encode())
            bad = None
            if rc == "timeout":
                bad = "cli-hang"
            elif rc not in (0, 1):
                bad = "cli-exit:%s" % rc
            elif "runtime error:" in err:
                bad = "cli-ubsan"
            if bad:
                c = Case("cli%d" % n, ["cli %s %s" % (mode, hx(text))], {"kind": "cli", "why": why})
                e = res.viols.setdefault(bad + ":" + why, {"count": 0, "first": None})
                e["count"] += 1
                if e["first"] is None:
                    e["first"] = (Violation(bad + ":" + why, "bloc %s exited with %s: %s" % (mode, rc, err[-600:]), None, {"text": text.hex(), "mode": mode}), {})
    res.parts.append({"part": "cli", "cases": res.evaluations})
    return res


# scripts that read standard input (readln / read / input have fixed internal buffers) x inputs sized around those buffers
STDIN_PROGS = [
    ('s = ""; n = 0; while readln(s) loop n = n + strlen(s); if n > 100000 then break; end if; end loop; print n;', "readln-string"),
    ('b = raw(); n = 0; while readln(b) loop n = n + b.count(); if n > 100000 then break; end if; end loop; print n;', "readln-bytes"),
    ('s = ""; n = read(s); print n strlen(s); n = read(s, 5000); print n; n = read(s, 0); print n;', "read-string"),
    ('b = raw(); n = read(b, 1023); print n; n = read(b, 1024); print n; n = read(b, 1025); print n; n = read(b, 1048577); print n;', "read-bytes"),
    ('b = raw(); n = read(b, 31); n = read(b, 32); n = read(b, 33); print n b.count();', "read-small"),
    ('x = input(); print strlen(x); y = input("prompt> "); print isnull(y);', "input"),
    ('s = null; begin zz = readln(s); exception when others then print "refused"; end; t = 5; begin zz = read(s, 3); exception when others then print "refused"; end;', "untyped-target"),
]


def stdin_data():
    for size in (0, 1, 31, 32, 33, 1022, 1023, 1024, 1025, 2047, 2048, 2049, 5000):
        yield b"a" * size, "no-newline-%d" % size
        yield b"a" * size + b"\n", "one-line-%d" % size
        if size >= 31:
            yield (b"ab\x00cd\xff\n" * (size // 7 + 1))[:size], "mixed-%d" % size
            yield b"\n" * size, "empty-lines-%d" % size
            yield b"x" * (size - 1) + b"\r\n" + b"tail", "crlf-at-%d" % size


def stdin_pass(tier):
    """programs that read standard input through `bloc file` with every input: exit status 0/1, no sanitizer report"""
    build.build_tree("asan")
    exe = os.path.join(build.tree_dir("asan"), "apps", "bloc")
    env = build.run_env("asan")
    env["ASAN_OPTIONS"] = "detect_leaks=0:abort_on_error=1:allocator_may_return_null=1"
    env["UBSAN_OPTIONS"] = "halt_on_error=0:print_stacktrace=0"
    res = Result()
    sdir = os.path.join(build.BUILD, "scratch", "cli-c01")
    os.makedirs(sdir, exist_ok=True)
    jobs = []
    for n, (text, why) in enumerate(STDIN_PROGS):
        path = os.path.join(sdir, "in%d.bloc" % n)
        with open(path, "w") as f:
            f.write(text)
        for data, dn in stdin_data():
            jobs.append((path, text, why, data, dn))

    def one(job):
        path, text, why, data, dn = job
        try:
            p = subprocess.run([exe, path], input=data, stdout=subprocess.PIPE, stderr=subprocess.PIPE, env=env, timeout=30)
            return p.returncode, p.stdout, p.stderr.decode("latin-1")
        except subprocess.TimeoutExpired:
            return "timeout", b"", ""
    import concurrent.futures
    with concurrent.futures.ThreadPoolExecutor(max_workers=16) as ex:
        results = list(ex.map(one, jobs))
    for (path, text, why, data, dn), (rc, out, err) in zip(jobs, results):
        res.evaluations += 1
        res.transitions += 1
        res.nontrivial += 1
        res.digests.add(repr(("stdin", why, dn, rc, out[:60])).encode())
        bad = None
        if rc == "timeout":
            bad = "stdin-hang"
        elif rc not in (0, 1):
            bad = "stdin-exit:%s" % rc
        elif "runtime error:" in err:
            bad = "stdin-ubsan"
        if bad:
            e = res.viols.setdefault(bad + ":" + why, {"count": 0, "first": None})
            e["count"] += 1
            if e["first"] is None:
                e["first"] = (Violation(bad + ":" + why, "bloc running %r with %d bytes on standard input (%s) exited with %s: %s" % (text, len(data), dn, rc, err[-600:]), None,
                                        {"text": text, "stdin": data.hex()}), {})
    res.parts.append({"part": "stdin", "cases": res.evaluations})
    return res


CLI_REPS = [(s.encode(), "seed") for s in SEEDS] + [
    (b"", "empty"), (b"\x00", "nul"), (b'"', "open-string"), (b"/*", "open-comment"), (b"a = ;", "perr"), (b"print 1/0;", "rerr"),
    (b"raise x;", "raise"), (b"a = 9223372036854775807 + 1; print a;", "wrap"), (b"print (-9223372036854775807-1) / -1;", "minneg"),
    (b"t = tab(1,5); t.put(0, num());", "put-null"), (b"print chr(int());", "chr-null"), (b'print hash("x", 0);', "hash0"),
    (b"print tup(1)@99999999999999999999;", "rank-huge"), (b"function f() return integer is begin return f(); end; print f();", "recursion"),
    (b"print 1 << 64, print 3 ** 39;", "shift"), (b'import nosuchmodule;', "import"), (b'include "/nonexistent";', "include"),
    (b"while true loop break; end loop; return \"x\";", "return-str"), (b"\xff\xfe", "high"), (b"print $ARG.count();", "arg"),
]


def run(tier):
    t0 = time.time()
    deadline = t0 + (3000 if tier == "thorough" else 420)
    total = Result()
    for name, g in (("bytes", gen_bytes(tier)), ("tokens", gen_tokens(tier)), ("deviations", gen_deviations(tier)), ("vocabulary", gen_vocab(tier)),
                    ("opaque", gen_opaque(tier)), ("structure", gen_structure(tier))):
        total.merge(explore("%s-%s-%s" % (PROP, tier, name), g, check, chunk=400, deadline=deadline))
    total.merge(cli_pass(CLI_REPS, tier, t0))
    total.merge(stdin_pass(tier))
    rule = ("(1) all byte strings of length <=2 and length 3 (4, 5 in thorough) over scanner character classes; (2) all token strings of length <=3 (4) "
            "over representative tokens in a context with a variable, table, tuple and function; (3) every truncation, token deletion, adjacent token "
            "swap, token duplication and single-byte substitution of %d valid seed programs; (4) every builtin, operator, type method and @rank with every "
            "argument tuple over a boundary value alphabet (typical, boundary, typed null, untyped null, literal and variable forms); each through the "
            "C++ and the C API; (4a) the same vocabulary with every operand handed over through an untyped function parameter (only run-time guards apply), "
            "with tables of every element type added to the alphabet; (4b) every outer loop form x inner construct locking the same table x mutation of the iterated table x use of the iterator; (5) seeds and crash representatives through the bloc command (file and stdin); (6) scripts reading standard input (readln, read, input) x inputs sized around the internal buffers. Non-trivial: at least one step got past "
            "the parser (ran or raised a runtime error)" % len(SEEDS))
    return finish(PROP, tier, total, check, rule, t0,
                  assumptions=["clang 14 ASan+UBSan detect the invalid accesses", "allocation sizes capped at 65536 (out of the property's domain above)",
                               "texts outside the alphabets are not covered"])
