"""C16 — an untrusted context can never obtain an object of a module it was not granted.

Explicit-state search over event histories of the whole process (the module registry and the grant list are
process-wide, trust is per context): host events {grant vmod, grant vmod2, clear grants, clone the untrusted
context}, script events in a trusted context {import vmod, construct}, script events in the untrusted context and
in its clone {import by name, import by path, include, constructor at top level / in a function body / through an
earlier compiled program run later / in a clone via execute2, typed declaration, typed parameter, method on a
typed null}. All histories up to length 3 (quick) / 4 (thorough), then breadth-first over model-distinct states to
depth 6 / 8; every history in a process of its own. Oracle (ref_perm): a constructor of m compiles in an untrusted
context iff m is loaded and granted at that moment; import by path and include are always refused there; a trusted
context is never refused; the module's creation log shows no object created by code compiled without a grant.
"""
import copy
import itertools
import os
import time

from .. import build
from ..core import Case, Violation, explore, finish, generic_safety, op_ctx, op_run, op_dump, op_out, unhex, hx, Result

PROP = "C16"


class P:
    def __init__(self):
        self.loaded = False          # vmod loaded in the process
        self.loaded2 = False         # vmod2 (a name that begins with the other module's name) loaded in the process
        self.grants = frozenset()
        self.clone = False
        self.exe = None              # None | "granted" (compiled under a grant)
        self.fn = False              # function mk() compiled (under a grant) in ctx0
        self.fn_clone = False
        self.exe_in_clone = False    # the clone was taken after the program was compiled

    def key(self):
        return repr((self.loaded, self.loaded2, sorted(self.grants), self.clone, self.exe, self.fn, self.fn_clone, self.exe_in_clone))


def inc_path():
    d = os.path.join(build.BUILD, "scratch")
    os.makedirs(d, exist_ok=True)
    p = os.path.join(d, "c16-include.bloc")
    if not os.path.exists(p):
        with open(p, "w") as f:
            f.write("import vmod;\nzq = vmod(99);\n")
    return p


def lib_path():
    return os.path.join(build.BUILD, "harness-asan", "libbloc_vmod.so.2.9")


# event -> (driver ops, model function returning expected outcome)
# outcomes: "ok" | "refused" | "undefined" (module name unknown) | "n/a"
def ev_ops(name):
    c0, c1, c2 = 0, 1, 2
    table = {
        "grant-vmod": ["unban %s" % hx("vmod")],
        "grant-vmod2": ["unban %s" % hx("vmod2")],
        "clear": ["clearperm"],
        "clone": ["clone 0 2"],
        "t:import": [op_run("import vmod;", slot=c1)],
        "t:ctor": [op_run("import vmod; q1 = vmod(1);", slot=c1)],
        # a trusted context stays unrestricted whatever else the host does with it
        "t:purge": ["purge 1"],
        "t:purgewm": ["purgewm 1"],
        "t:include": [op_run('include "%s";' % inc_path(), slot=c1)],
        "t:import-path": [op_run('import "%s";' % lib_path(), slot=c1)],
        "t:ctor-fn": [op_run("import vmod; function tmk() return vmod is begin return vmod(2); end; q2 = tmk();", slot=c1)],
        "t:clone-ctor": ["clone 1 3", op_run("import vmod; q3 = vmod(3);", slot=3)],
        # the second module: a grant is for a whole name, not for the names that begin with it
        "t:import2": [op_run("import vmod2;", slot=c1)],
        "u:ctor2": [op_run("p1 = vmod2(1);", slot=c0)],
        "u:ctor2-fn": [op_run("function mk3() return vmod2 is begin return vmod2(2); end; p2 = mk3();", slot=c0)],
        "c:ctor2": [op_run("p1 = vmod2(11);", slot=c2)],
        "u:import": [op_run("import vmod;", slot=c0)],
        "u:import-path": [op_run('import "%s";' % lib_path(), slot=c0)],
        "u:include": [op_run('include "%s";' % inc_path(), slot=c0)],
        "u:ctor": [op_run("o1 = vmod(1);", slot=c0)],
        "u:ctor-fn": [op_run("function mk() return vmod is begin return vmod(2); end; o2 = mk();", slot=c0)],
        "u:ctor-copy": [op_run("o5 = vmod(vmod(3));", slot=c0)],
        "u:ctor-upper": [op_run("o6 = VMOD(6);", slot=c0)],
        "u:decl": [op_run("o3:vmod;", slot=c0)],
        "u:param": [op_run("function tp(p:vmod) return integer is begin return 1; end;", slot=c0)],
        "u:nullcall": [op_run("o3:vmod; zz = o3.get();", slot=c0)],
        "u:compile": ["parse 0 0 %s" % hx("o4 = vmod(4);")],
        "u:run-compiled": ["exec 0"],
        "u:call-fn": [op_run("o7 = mk();", slot=c0)],
        "c:ctor": [op_run("o1 = vmod(11);", slot=c2)],
        "c:ctor-fn": [op_run("function mk2() return vmod is begin return vmod(12); end; o2 = mk2();", slot=c2)],
        "c:run-compiled": ["exec 0 2"],
        "c:call-fn": [op_run("o7 = mk();", slot=c2)],
    }
    return table[name]


EVENTS = ["grant-vmod", "grant-vmod2", "clear", "clone", "t:import", "t:import2", "u:ctor2", "u:ctor2-fn", "c:ctor2", "t:ctor", "t:purge", "t:purgewm", "t:include", "t:import-path", "t:ctor-fn", "t:clone-ctor", "u:import", "u:import-path", "u:include", "u:ctor", "u:ctor-fn",
          "u:ctor-copy", "u:ctor-upper", "u:decl", "u:param", "u:nullcall", "u:compile", "u:run-compiled", "u:call-fn", "c:ctor", "c:ctor-fn",
          "c:run-compiled", "c:call-fn"]


def step(p, name):
    """Apply the event to the model; returns (enabled, expected outcome, creates_object)."""
    g = "vmod" in p.grants

    def ctor_outcome():
        if not p.loaded:
            return "undefined"
        return "ok" if g else "refused"
    if name == "grant-vmod":
        p.grants = p.grants | {"vmod"}
        return True, "ok", False
    if name == "grant-vmod2":
        p.grants = p.grants | {"vmod2"}
        return True, "ok", False
    if name == "clear":
        p.grants = frozenset()
        return True, "ok", False
    if name == "clone":
        if p.clone:
            return False, None, False
        p.clone = True
        p.fn_clone = p.fn
        p.exe_in_clone = p.exe is not None
        return True, "ok", False
    if name == "t:import":
        p.loaded = True
        return True, "ok", False
    if name == "t:import2":
        p.loaded2 = True
        return True, "ok", False
    if name in ("u:ctor2", "u:ctor2-fn", "c:ctor2"):
        if name == "c:ctor2" and not p.clone:
            return False, None, False
        if not p.loaded2:
            return True, "undefined", False
        return True, ("ok" if "vmod2" in p.grants else "refused"), False
    if name in ("t:ctor", "t:include", "t:ctor-fn", "t:clone-ctor", "t:import-path"):
        p.loaded = True
        return True, "ok", name != "t:import-path"
    if name in ("t:purge", "t:purgewm"):
        return True, "ok", False
    if name == "u:import":
        p.loaded = True
        return True, "ok", False
    if name in ("u:import-path", "u:include"):
        return True, "refused", False
    if name in ("u:ctor", "u:ctor-copy", "u:ctor-upper"):
        o = ctor_outcome()
        if name == "u:ctor-upper" and o != "undefined":
            return True, "any-but-ungranted-object" if not g else "any", False
        return True, o, o == "ok"
    if name == "u:ctor-fn":
        o = ctor_outcome()
        if o == "ok":
            p.fn = True
        return True, o, o == "ok"
    if name in ("u:decl", "u:param"):
        return True, ("ok" if p.loaded else "undefined"), False
    if name == "u:nullcall":
        return True, ("ok" if p.loaded else "undefined"), False
    if name == "u:compile":
        if p.exe is not None:
            return False, None, False
        o = ctor_outcome()
        if o == "ok":
            p.exe = "granted"
            p.exe_in_clone = False
        return True, o, False
    if name == "u:run-compiled":
        if p.exe is None:
            return False, None, False
        return True, "ok", True          # compiled under a grant: runs even if the grant was cleared since
    if name == "u:call-fn":
        if not p.fn:
            return False, None, False
        return True, "ok", True
    if name == "c:ctor":
        if not p.clone:
            return False, None, False
        o = ctor_outcome()
        return True, o, o == "ok"
    if name == "c:ctor-fn":
        if not p.clone:
            return False, None, False
        o = ctor_outcome()
        return True, o, o == "ok"
    if name == "c:run-compiled":
        if not p.clone or p.exe is None or not p.exe_in_clone:
            return False, None, False
        return True, "ok", True
    if name == "c:call-fn":
        if not p.clone or not p.fn_clone:
            return False, None, False
        return True, "ok", True
    raise ValueError(name)


def histories(tier):
    full = 4 if tier == "thorough" else 3
    deep = 8 if tier == "thorough" else 6
    # all histories up to `full`
    frontier = [[]]
    states = {}
    for l in range(1, full + 1):
        nxt = []
        for h in frontier:
            base = P()
            for e in h:
                step(base, e)
            for e in EVENTS:
                p = copy.deepcopy(base)
                en, _, _ = step(p, e)
                if not en:
                    continue
                nxt.append(h + [e])
                yield h + [e]
                states.setdefault(p.key(), h + [e])
        frontier = nxt
    # beyond: breadth-first over model-distinct states
    seen = set(states)
    layer = list(states.values())
    for l in range(full + 1, deep + 1):
        nxt = []
        for h in layer:
            base = P()
            for e in h:
                step(base, e)
            for e in EVENTS:
                p = copy.deepcopy(base)
                en, _, _ = step(p, e)
                if not en:
                    continue
                yield h + [e]
                k = p.key()
                if k not in seen:
                    seen.add(k)
                    nxt.append(h + [e])
        layer = nxt
        if not layer:
            break


def gen_factory(tier):
    def gen():
        n = 0
        for h in histories(tier):
            ops = ["isolate", op_ctx(0, False), op_ctx(1, True), op_run("zz = 0;", slot=0)]
            for e in h:
                ops += ev_ops(e)
                ops.append("vlog")
            ops += [op_dump(0), op_dump(2)]
            yield Case("p%d" % n, ops, {"kind": "perm", "hist": h})
            n += 1
    return gen


# every way a constructor can be written, in every permission situation that forbids it
SPELLINGS = [
    "o = vmod();", "o = vmod( );", "o = vmod(\n);", "o = vmod(/* none */);", "o = vmod (1);", "o = vmod(1);", "o = vmod(1, 2);", 'o = vmod("abc");',
    "o = vmod(vmod());", "o = Vmod();", "o = VMOD();", "print vmod().get();", "zz = vmod().id();", "w = tab(1, vmod());", "w = tup(vmod(), 1);",
    "print isnull(vmod());", "if isnull(vmod()) then nop; end if;", "forall x in tab(1, vmod()) loop nop; end loop;",
    "while isnull(vmod()) loop break; end loop;", "for i in 1 to vmod().get() loop nop; end loop;",
    "begin raise e1; exception when e1 then o = vmod(); end;", "function mk0() return vmod is begin return vmod(); end; o = mk0();",
    "function mk1() return integer is begin w = vmod(); return w.get(); end; print mk1();",
    "function mk3(n) return integer is begin if n > 0 then return vmod().get(); end if; return 0; end; print mk3(0);",
    "o = null; o = vmod();", "$s = vmod();", "return vmod();", "o = vmod().self();", "o = vmod().make();",
]
SITUATIONS = {
    "nothing": [],
    "other-module": ["unban %s" % hx("vmod2")],
    "granted-then-cleared": ["unban %s" % hx("vmod"), "clearperm"],
    "granted-compiled-then-cleared": ["unban %s" % hx("vmod"), "G", "clearperm"],
}


def spell_gen(tier):
    def gen():
        n = 0
        for sname, sops in SITUATIONS.items():
            for where in ("orig", "clone", "untrusted-again"):
                for loaded in ("t:import", "t:ctor"):
                    for sp in SPELLINGS + ['import "%s";' % lib_path(), 'include "%s";' % inc_path(), 'import str("%s");' % lib_path(),
                                           'zp = "%s"; import zp;' % lib_path(), 'import "" + "%s";' % lib_path()]:
                        c = 2 if where == "clone" else 0
                        # "untrusted-again": the host marked the context trusted and took the mark back before any script ran
                        first = [op_ctx(0, True), "trusted 0 0"] if where == "untrusted-again" else [op_ctx(0, False)]
                        ops = ["isolate"] + first + [op_ctx(1, True), op_run("zz = 0;", slot=0)] + ev_ops(loaded)
                        for o in sops:
                            ops.append(op_run("g0 = vmod(5);", slot=0) if o == "G" else o)
                        if where == "clone":
                            ops.append("clone 0 2")
                        ops += ["vlog", op_run(sp, slot=c), "vlog", op_run("import vmod; " + sp, slot=1), "vlog",
                                "unban %s" % hx("vmod"), op_run(sp, slot=c), "vlog"]
                        yield Case("s%d" % n, ops, {"kind": "spell", "sit": sname, "where": where, "sp": sp})
                        n += 1
    return gen


def check_spell(case, res, vs):
    m = case.meta
    st = res["steps"]
    # the last 7 steps: vlog, refused run, vlog, trusted run, vlog, unban, granted run, vlog
    r_ref, l_ref, r_tr, l_tr, r_gr, l_gr = st[-7], st[-6], st[-5], st[-4], st[-2], st[-1]
    created = sum(1 for line in l_ref.get("log", "").splitlines() if line.startswith("C vmod "))
    where = "%s in the %s context, situation %s" % (m["sp"], m["where"], m["sit"])
    if created:
        vs.append(Violation("spelling:object-without-grant", "%d object(s) created by %s" % (created, where), case))
    got, msg = outcome_of(r_ref)
    if got != "rejected":
        vs.append(Violation("spelling:accepted-without-grant", "%s was not refused at compile time: %s %r" % (where, got, msg), case))
    # with the grant the same text must behave as in a trusted context (keeps the family from being vacuous)
    g1, _ = outcome_of(r_tr)
    g2, _ = outcome_of(r_gr)
    if m["sp"].startswith(("import", "include", "zp =")):
        # importing by path and including a file are refused in an untrusted context whatever was granted
        if g2 != "rejected":
            vs.append(Violation("spelling:path-accepted-after-grant", "%s with vmod granted: %s" % (where, r_gr), case))
        return vs, g1 == "ok"
    if g1 != g2:
        vs.append(Violation("spelling:granted-differs-from-trusted", "%s: trusted context %s, granted untrusted context %s" % (where, r_tr, r_gr), case))
    return vs, g2 == "ok"


def outcome_of(stepres):
    """ok | rejected (any parse error: the wording and number of the message are not part of the property) | other"""
    r = stepres.get("r")
    if r == "ok":
        return "ok", ""
    if r == "perr":
        return "rejected", stepres.get("msg", "") or ""
    return r or "?", stepres.get("msg", "") or ""


def check(case, res):
    vs = generic_safety(case, res)
    if res.get("st") != "done":
        return vs, True
    m = case.meta
    st = res["steps"]
    if m["kind"] == "spell":
        return check_spell(case, res, vs)
    hist = m["hist"]
    p = P()
    k = 4
    created_total = 0
    for e in hist:
        before = copy.deepcopy(p)
        en, want, creates = step(p, e)
        nops = len(ev_ops(e))
        r, log = st[k + nops - 1], st[k + nops].get("log", "")
        k += nops + 1
        got, msg = outcome_of(r)
        ncreated = sum(1 for line in log.splitlines() if line.startswith("C vmod "))
        created_total += ncreated
        where = "event %s after %s (loaded=%s, grants=%s)" % (e, hist[:hist.index(e)] if e in hist else hist, before.loaded, sorted(before.grants))
        untrusted_event = e.startswith("u:") or e.startswith("c:")
        compiled_without_grant = untrusted_event and "vmod" not in before.grants and e not in ("u:run-compiled", "c:run-compiled", "u:call-fn", "c:call-fn")
        n2 = sum(1 for line in log.splitlines() if line.startswith("C vmod2 "))
        if untrusted_event and "vmod2" not in before.grants and n2 > 0:
            vs.append(Violation("object-without-grant:%s" % e, "an untrusted context created %d object(s) of vmod2, which is not granted (granted: %s): %s" % (n2, sorted(before.grants), where), case))
        if compiled_without_grant and ncreated > 0:
            vs.append(Violation("object-without-grant:%s" % e, "an untrusted context created %d object(s) of a module that is not granted: %s" % (ncreated, where), case))
        if want in ("any", "any-but-ungranted-object", None):
            continue
        if want == "ok" and got != "ok":
            key = "trusted-refused" if e.startswith("t:") else "granted-refused:%s" % e
            vs.append(Violation(key, "expected to be accepted, got %s %r: %s" % (got, msg, where), case))
        elif want == "refused" and got == "ok":
            vs.append(Violation("restricted-accepted:%s" % e, "must be refused in an untrusted context, but was accepted: %s" % where, case))
        elif want == "refused" and got != "rejected":
            vs.append(Violation("restricted-outcome:%s" % e, "expected a refusal at compile time, got %s %r: %s" % (got, msg, where), case))
        elif want == "undefined" and got == "ok" and creates is False and e in ("u:ctor", "u:ctor-fn", "u:ctor-copy", "c:ctor", "c:ctor-fn"):
            vs.append(Violation("unloaded-module-constructed:%s" % e, "constructor accepted although the module is not loaded: %s" % where, case))
    # no object value in the untrusted contexts unless the model allows one
    return vs, True


def run(tier):
    t0 = time.time()
    build.ensure("asan", bins=("vdrv", "vmod"))
    inc_path()
    res = explore(PROP + "-" + tier, gen_factory(tier), check, chunk=40, deadline=t0 + (3000 if tier == "thorough" else 420))
    res.merge(explore(PROP + "-" + tier + "-spellings", spell_gen(tier), check, chunk=40, deadline=t0 + (3000 if tier == "thorough" else 420)))
    rule = ("event histories over %d events (grant vmod / vmod2, clear, clone; trusted import / construct; untrusted import by name, by path, include, "
            "constructor at top level, in a function body, copy constructor, upper-case spelling, typed declaration, typed parameter, method on typed null, "
            "compile now and run later, call of a function compiled earlier; the same in the clone incl. execute2 of the original's program): all histories "
            "of length <=%d, then breadth-first over model-distinct states to depth %d; each history in a fresh process; plus %d constructor spellings (empty / blank / commented argument list, every arity, nested, "
            "upper case, inside expressions, conditions, loop headers, handlers, function bodies, return) x 4 situations without a valid grant x original / "
            "clone x module loaded by import / by construction: refused at compile time, no object created, and identical to a trusted context once granted" % (
                len(EVENTS), 4 if tier == "thorough" else 3, 8 if tier == "thorough" else 6, len(SPELLINGS)))
    return finish(PROP, tier, res, check, rule, t0, assumptions=["permission model ref_perm in vf/props/c16.py", "vmod stands for any module; csv/file are exercised by C18"])
