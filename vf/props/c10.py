"""C10 — string, bytes and conversion built-ins are total, 8-bit clean and consistent.

All byte strings up to a bounded length over a small byte alphabet (NUL, space, letters, digit, separator, quote,
LF, 0x7f, 0x80, 0xff), all positions/counts of a boundary lattice, all codes around 0..255, conversions over the
integer and decimal lattices. Oracle: a reference model (Python bytes operations) where the manual defines the
result, and for every call: a value or a BLOC error, no sanitizer report, arguments unchanged; round trips
b64dec(b64enc(x)) = x, int(str(i)) = i, num(str(d)) = d, isnum(s) <=> num(s) succeeds, codes outside 0..255 rejected.
"""
import base64
import itertools
import struct
import time

from ..core import Case, Violation, explore, finish, generic_safety, op_ctx, op_run, op_dump, op_setvar, unhex, Result
from .c03 import int_lattice, dec_lattice, dspec, parse_val, same_double

PROP = "C10"
MAX = 2 ** 63 - 1
MIN = -2 ** 63
WS = b" \t\n\v\f\r"


def sspec(b):
    return "s" + b.hex()


def xspec(b):
    return "x" + b.hex()


def ispec(i):
    return "ninteger" if i is None else "i%d" % i


def strings(alpha, maxlen):
    for l in range(0, maxlen + 1):
        for t in itertools.product(alpha, repeat=l):
            yield bytes(t)


A11 = [0x00, 0x20, 0x61, 0x41, 0x31, 0x2c, 0x22, 0x0a, 0x7f, 0x80, 0xff]
A4 = [0x61, 0x62, 0x2c, 0x20]
A3 = [0x61, 0x62, 0x00]
POS = [None, MIN, -1, 0, 1, 2, 3, 4, MAX]
NUMCH = [b"0", b"1", b".", b"e", b"E", b"-", b"+", b" ", b"x", b"a"]


def guarded(expr, var):
    """Run one call; catchable errors are recorded as strings so that the remaining calls still run."""
    return 'begin %s = %s; exception when out_of_range then %s = "E:OOR"; when divide_by_zero then %s = "E:DZ"; end;' % (var, expr, var, var)


UNARY_S = ["strlen(x)", "upper(x)", "lower(x)", "trim(x)", "ltrim(x)", "rtrim(x)", "raw(x)", "b64enc(x)", "b64dec(x)", "hash(x)", "str(x)",
           "x.count()", "isnum(x)", "b64dec(b64enc(x))", "str(raw(x))", "b64enc(raw(x))", "hash(raw(x))", "raw(x).count()", "b64dec(raw(x))",
           "isnum(raw(x))", "str(b64dec(b64enc(raw(x))))", "x + x", "typeof(x)"]
POS_S = ["lsubstr(x, p)", "rsubstr(x, p)", "substr(x, p)", "subraw(raw(x), p)", "strpos(x, y, p)", "hash(x, p)", "hex(p)", "chr(p)",
         "x.at(p)", "raw(x).at(p)"]
POS2_S = ["substr(x, p, q)", "subraw(raw(x), p, q)", "hex(p, q)", "raw(p, q)"]
TERN_S = ["replace(x, y, z)", "tokenize(x, y)", "tokenize(x, y, true)", "tokenize(x, y, false)", "strpos(x, y)"]
CODE_S = ["chr(c)", "sv.put(0, c)", "sv.concat(c)", "bv.put(0, c)", "bv.concat(c)", "raw(1, c)", "sv.insert(0, c)", "bv.insert(0, c)",
          # receivers that are null: typed, untyped, and untyped inside a function (opaque parameter)
          "nsv.concat(c)", "nbv.concat(c)", "nuv.concat(c)", "fcc(null, c)", "fcc(str(), c)", "fcc(raw(), c)"]


def chained(exprs):
    """an in-place method applied to the value a built-in returned must work on that value, not on the argument it came from:
    the statements may be refused (result is not a string / bytes array); the arguments are compared afterwards"""
    out = []
    for e in exprs:
        out.append(op_run('begin zq = (%s).concat(33); exception when others then zq = null; end;' % e))
        out.append(op_run('begin zq = (%s).put(0, 33); exception when others then zq = null; end;' % e))
    return out


def gen_factory(tier):
    thorough = tier == "thorough"

    def gen():
        n = 0
        # G1: unary functions over all strings of length <= 3 over 11 bytes
        for x in strings(A11, 3 if thorough else 2):
            ops = [op_ctx(), op_setvar("X", sspec(x))]
            for k, e in enumerate(UNARY_S):
                ops.append(op_run(guarded(e, "r%d" % k)))
            ops.append(op_run('begin r90 = num(x); exception when out_of_range then r90 = "E:OOR"; end;'))
            ops.append(op_run('begin r91 = int(x); exception when out_of_range then r91 = "E:OOR"; end;'))
            ops += chained(UNARY_S)
            ops.append(op_dump())
            yield Case("u%d" % n, ops, {"kind": "unary", "x": x.hex()})
            n += 1
        # G1b: every byte value on its own and next to the ends of the letter ranges (case mapping and trimming are byte-wise)
        for b in range(1, 256):
            for x in (bytes([b]), bytes([0x41, b, 0x5a, 0x61, b, 0x7a])):
                ops = [op_ctx(), op_setvar("X", sspec(x))]
                for k, e in enumerate(UNARY_S):
                    ops.append(op_run(guarded(e, "r%d" % k)))
                ops.append(op_run('begin r90 = num(x); exception when out_of_range then r90 = "E:OOR"; end;'))
                ops.append(op_run('begin r91 = int(x); exception when out_of_range then r91 = "E:OOR"; end;'))
                ops += chained(UNARY_S)
                ops.append(op_dump())
                yield Case("u%d" % n, ops, {"kind": "unary", "x": x.hex()})
                n += 1
        # G2: (string, position)
        for x in strings(A4, 3 if thorough else 2):
            for y in [b"a", b"", b"ab", b","]:
                for p in POS:
                    ops = [op_ctx(), op_setvar("X", sspec(x)), op_setvar("Y", sspec(y)), op_setvar("P", ispec(p))]
                    for k, e in enumerate(POS_S):
                        ops.append(op_run(guarded(e, "r%d" % k)))
                    ops += chained(POS_S)
                    ops.append(op_dump())
                    yield Case("p%d" % n, ops, {"kind": "pos", "x": x.hex(), "y": y.hex(), "p": p})
                    n += 1
        # G3: (string, position, count)
        for x in strings(A3, 3 if thorough else 2):
            for p in POS:
                for q in POS:
                    ops = [op_ctx(), op_setvar("X", sspec(x)), op_setvar("P", ispec(p)), op_setvar("Q", ispec(q if (q is None or abs(q) < 70000) else (65536 if q > 0 else q)))]
                    for k, e in enumerate(POS2_S[:2]):
                        ops.append(op_run(guarded(e, "r%d" % k)))
                    if (p is None or -70000 < p <= 65536):
                        ops.append(op_run(guarded("hex(q, p)", "r2")))
                        ops.append(op_run(guarded("raw(p, q)", "r3")))
                    ops.append(op_dump())
                    yield Case("q%d" % n, ops, {"kind": "pos2", "x": x.hex(), "p": p, "q": q})
                    n += 1
        # G4: ternary
        lim = 3 if thorough else 2
        for x in strings(A4, lim):
            for y in strings(A4, lim if thorough else 2):
                for z in strings(A4, 2 if thorough else 1):
                    ops = [op_ctx(), op_setvar("X", sspec(x)), op_setvar("Y", sspec(y)), op_setvar("Z", sspec(z))]
                    for k, e in enumerate(TERN_S):
                        ops.append(op_run(guarded(e, "r%d" % k)))
                    ops += chained(TERN_S)
                    ops.append(op_dump())
                    yield Case("t%d" % n, ops, {"kind": "tern", "x": x.hex(), "y": y.hex(), "z": z.hex()})
                    n += 1
        # G5: numeric strings
        for l in range(0, (4 if thorough else 3) + 1):
            for t in itertools.product(NUMCH, repeat=l):
                s = b"".join(t)
                ops = [op_ctx(), op_setvar("X", sspec(s)), op_run("r0 = isnum(x);"),
                       op_run('begin r1 = num(x); exception when out_of_range then r1 = "E:OOR"; end;'),
                       op_run('begin r2 = int(x); exception when out_of_range then r2 = "E:OOR"; end;'),
                       op_run("r3 = isnum(raw(x));"),
                       op_run('begin r4 = num(raw(x)); exception when out_of_range then r4 = "E:OOR"; end;'),
                       op_dump()]
                yield Case("n%d" % n, ops, {"kind": "numstr", "x": s.hex()})
                n += 1
        # G5a: numeric strings at the edges of the decimal and integer ranges
        EDGE = [b"1e308", b"1e309", b"-1e309", b"1.8e308", b"1.7976931348623157e308", b"1.7976931348623159e308", b"1e-323", b"1e-324", b"4.9e-324",
                b"2e-324", b"1e-400", b"-1e-400", b"1e999", b"9e999", b"0x1p1023", b"0x1p1024", b"0x1p-1074", b"0x1p-1076", b"0x1p2000", b"inf", b"-inf",
                b"nan", b"infinity", b"1e+308", b"1E309", b"9" * 400, b"0." + b"0" * 400 + b"1", b"9223372036854775807", b"9223372036854775808",
                b"-9223372036854775808", b"-9223372036854775809", b"18446744073709551615", b"18446744073709551616", b"0x7fffffffffffffff",
                b"0xffffffffffffffff", b"0x10000000000000000", b"1e19", b"  1e309", b"1e309  ", b"+1e309", b".5e-324",
                # leading zeros are not a base prefix
                b"010", b"08", b"0009", b"-017", b"0777", b"00", b"+010", b"000000000000000000000012", b"0100000000000000000000", b"-08", b"09223372036854775807",
                b"012345678", b"0b11", b"0o17", b"1_000", b"0x", b"0x0x1", b"0X1F", b"-0x10", b"+0x10", b"0x-1"]
        for s0 in EDGE:
            for var in (s0, s0 + b"x", b" " + s0):
                ops = [op_ctx(), op_setvar("X", sspec(var)), op_run("r0 = isnum(x);"),
                       op_run('begin r1 = num(x); exception when out_of_range then r1 = "E:OOR"; end;'),
                       op_run('begin r2 = int(x); exception when out_of_range then r2 = "E:OOR"; end;'),
                       op_run("r3 = isnum(raw(x));"),
                       op_run('begin r4 = num(raw(x)); exception when out_of_range then r4 = "E:OOR"; end;'),
                       op_dump()]
                yield Case("n%d" % n, ops, {"kind": "numstr", "x": var.hex()})
                n += 1
        # G4b: separators and patterns containing NUL and high bytes
        ANUL = [0x61, 0x00, 0x7c, 0xff]
        for x in strings(ANUL, 3):
            for y in strings(ANUL, 2):
                if not y:
                    continue
                ops = [op_ctx(), op_setvar("X", sspec(x)), op_setvar("Y", sspec(y)), op_setvar("Z", sspec(b"#"))]
                for k, e in enumerate(TERN_S):
                    ops.append(op_run(guarded(e, "r%d" % k)))
                ops.append(op_dump())
                yield Case("t%d" % n, ops, {"kind": "tern", "x": x.hex(), "y": y.hex(), "z": b"#".hex()})
                n += 1
        # G5b: conversions of numbers
        for i in int_lattice(tier):
            ops = [op_ctx(), op_setvar("I", "i%d" % i), op_run("r0 = str(i);"), op_run("r1 = int(str(i));"), op_run("r2 = isnum(str(i));"),
                   op_run("r3 = hex(i);"), op_run("r4 = num(str(i));"), op_dump()]
            yield Case("ci%d" % n, ops, {"kind": "convi", "i": i})
            n += 1
        for d in dec_lattice(tier):
            ops = [op_ctx(), op_setvar("D", dspec(d)), op_run("r0 = str(d);"),
                   op_run('begin r1 = num(str(d)); exception when out_of_range then r1 = "E:OOR"; end;'), op_run("r2 = isnum(str(d));"), op_dump()]
            yield Case("cd%d" % n, ops, {"kind": "convd", "d": d.hex() if d == d else "nan"})
            n += 1
        # G6: base64 over all byte strings of length <= 2 (all 256 values) and longer over 16 bytes
        B16 = [0x00, 0x01, 0x3f, 0x40, 0x7f, 0x80, 0xbf, 0xc0, 0xfb, 0xfc, 0xff, 0x2b, 0x2f, 0x3d, 0x41, 0x0a]
        def b64inputs():
            yield b""
            for a in range(256):
                yield bytes([a])
            for a in range(256):
                for b in range(0, 256, 1 if thorough else 5):
                    yield bytes([a, b])
            for t in itertools.product(B16, repeat=3):
                yield bytes(t)
            if thorough:
                for t in itertools.product(B16, repeat=4):
                    yield bytes(t)
        for x in b64inputs():
            ops = [op_ctx(), op_setvar("B", xspec(x)), op_run("r0 = b64enc(b);"), op_run("r1 = b64dec(b64enc(b));"), op_run("r2 = b64dec(b);"),
                   op_run("r3 = b64enc(str(b));"), op_dump()]
            yield Case("b%d" % n, ops, {"kind": "b64", "x": x.hex()})
            n += 1
        # G7: codes
        codes = sorted(set(int_lattice(tier)) | {254, 255, 256, 257, 127, 128, 65, 0, -1, -255, -256})
        for c in codes + [None]:
            ops = [op_ctx(), op_setvar("C", ispec(c)), op_run('sv = "ab"; bv = raw("ab"); function fcc(x, k) return undefined is begin x.concat(k); return x; end;')]
            for k, e in enumerate(CODE_S):
                ops.append(op_run('sv = "ab"; bv = raw("ab"); nsv = str(); nbv = raw(); nuv = null; ' + guarded(e, "r%d" % k)))
            ops.append(op_dump())
            yield Case("c%d" % n, ops, {"kind": "code", "c": c})
            n += 1
        # G8: hex(value, width) over value x width lattices (the width is a count of digits, not an allocation)
        hv = [0, 1, 9, 10, 255, 256, 4095, 2 ** 32, 2 ** 32 + 1, MAX, MIN, -1, -255, None]
        hw = [None, MIN, -70000, -5, -1, 0, 1, 2, 3, 4, 8, 15, 16, 17, 20, 32, 64, 255, 256, 65536, 2 ** 31, 2 ** 32 + 3, MAX]
        for v in hv:
            for w in hw:
                ops = [op_ctx(), op_setvar("P", ispec(v)), op_setvar("Q", ispec(w)),
                       op_run(guarded("hex(p, q)", "r0")), op_run(guarded("hex(p)", "r1")), op_run(guarded("hex(p + 0, q + 0)", "r2")), op_dump()]
                yield Case("h%d" % n, ops, {"kind": "hexw", "v": v, "w": w})
                n += 1
        # G9: operand provenance: the same call with the string argument taken from a variable (decided by the models above), from a
        # temporary, from a function result, from a table element and from a constant must give the same value
        import re as _re
        PROV_E = [e for e in UNARY_S + POS_S + TERN_S if "x" in e]
        FORMS = ['(x + "")', "fid(x)", "sv.at(0)", "str(x)", "lsubstr(x, 99)", "upper(lower(x))"]
        for x in strings([0x20, 0x61, 0x62, 0x2c, 0x09], 3 if thorough else 2):
            for y, z, p in ((b"a", b"#", 1), (b",", b"", 0), (b" ", b"  ", 2)):
                ops = [op_ctx(), op_setvar("X", sspec(x)), op_setvar("Y", sspec(y)), op_setvar("Z", sspec(z)), op_setvar("P", ispec(p)),
                       op_run("function fid(a) return string is begin return a; end; sv = tab(1, x);")]
                names = []
                for k, e in enumerate(PROV_E):
                    ops.append(op_run(guarded(e, "ra%d" % k)))
                    for j, f in enumerate(FORMS):
                        if f == "upper(lower(x))" and x.lower().upper() != x:
                            continue
                        ops.append(op_run(guarded(_re.sub(r"\bx\b", f, e), "rb%d_%d" % (k, j))))
                        names.append((k, j))
                ops.append(op_dump())
                yield Case("v%d" % n, ops, {"kind": "prov", "x": x.hex(), "y": y.hex(), "z": z.hex(), "p": p, "names": names})
                n += 1
    return gen


# --- reference ------------------------------------------------------------------------------------
def djb(b):
    h = 5381
    for c in b:
        h = (h * 33 + c) & 0xffffffff
    return h


def val(dump, name):
    s = dump.get(name)
    if s is None:
        return ("none", None)
    t, _, v = s.partition("=")
    if v.startswith("i"):
        return ("i", int(v[1:]))
    if v.startswith("s"):
        return ("s", unhex(v[1:]))
    if v.startswith("x"):
        return ("x", unhex(v[1:]))
    if v.startswith("b"):
        return ("b", v[1:] == "1")
    if v.startswith("d"):
        return parse_val(s)
    if v.startswith("N("):
        return ("N", v[2:-1])
    if v.startswith("T("):
        return ("T", v)
    return ("?", v)


def table_strings(v):
    """Parse 'T(string*1)[s61,s,...]' into a list of bytes."""
    inner = v[v.index("[") + 1:-1]
    if inner == "":
        return []
    out = []
    for it in inner.split(","):
        if it.startswith("s"):
            out.append(unhex(it[1:]))
        else:
            out.append(it)
    return out


def check(case, res):
    vs = generic_safety(case, res)
    if res.get("st") != "done":
        return vs, True
    m = case.meta
    st = res["steps"]
    dump = st[-1].get("vars", {})
    kind = m["kind"]

    def bad(key, msg):
        vs.append(Violation(key, msg + " [%s]" % {k: v for k, v in m.items() if k != "kind"}, case))

    def unchanged(name, spec):
        got = dump.get(name)
        want_type = {"s": "string", "x": "bytes", "i": "integer", "n": "integer"}[spec[0]]
        want = "%s=%s" % (want_type, spec if spec[0] != "n" else "N(integer)")
        if got != want:
            bad("argument-changed:" + kind, "argument %s is %r after the calls, expected %r" % (name, got, want))

    def total(k0, exprs):
        """every call gave a value (result variable set) or a BLOC error"""
        for k, e in enumerate(exprs):
            s = st[k0 + k]
            if s.get("r") not in ("ok", "rerr"):
                bad("not-total:" + e.split("(")[0], "%s -> %s" % (e, s))

    if kind == "prov":
        unchanged("X", sspec(unhex(m["x"])))
        exprs = [e for e in UNARY_S + POS_S + TERN_S if "x" in e]
        forms = ['(x + "")', "fid(x)", "sv.at(0)", "str(x)", "lsubstr(x, 99)", "upper(lower(x))"]
        for k, j in m["names"]:
            a, b = dump.get("RA%d" % k), dump.get("RB%d_%d" % (k, j))
            if a is None or a != b:
                bad("provenance:%s:%s" % (exprs[k].split("(")[0], forms[j].replace("x", "_")),
                    "%s gives %r with a variable and %r with %s" % (exprs[k], a, b, forms[j]))
        return vs, True
    if kind == "unary":
        x = unhex(m["x"])
        total(2, UNARY_S)
        unchanged("X", sspec(x))
        exp = {0: ("i", len(x)), 1: ("s", bytes(c - 32 if 97 <= c <= 122 else c for c in x)),
               2: ("s", bytes(c + 32 if 65 <= c <= 90 else c for c in x)), 6: ("x", x), 7: ("s", base64.b64encode(x)),
               9: ("i", djb(x)), 10: ("s", x), 11: ("i", len(x)), 13: ("x", x), 14: ("s", x), 15: ("s", base64.b64encode(x)), 16: ("i", djb(x)),
               17: ("i", len(x)), 20: ("s", x), 21: ("s", x + x), 22: ("s", b"string")}
        if any(c >= 0x80 for c in x):
            # DJB over `char`: the manual does not say whether bytes are signed; only require one deterministic 32-bit value
            del exp[9], exp[16]
            h1, h2 = val(dump, "R9"), val(dump, "R16")
            if h1[0] != "i" or h1 != h2 or not (0 <= h1[1] < 2 ** 32):
                bad("model:hash-highbytes", "hash(x) = %r, hash(raw(x)) = %r" % (h1, h2))
        for k, w in exp.items():
            g = val(dump, "R%d" % k)
            if g != w:
                bad("model:" + UNARY_S[k].split("(")[0], "%s gave %r, expected %r" % (UNARY_S[k], g, w))
        # trim family: only whitespace removed, no space left at the trimmed side
        for k, side in ((3, "lr"), (4, "l"), (5, "r")):
            g = val(dump, "R%d" % k)
            if g[0] != "s":
                bad("model:" + UNARY_S[k].split("(")[0], "%s gave %r" % (UNARY_S[k], g))
                continue
            r = g[1]
            i = x.find(r) if r else None
            okk = True
            if r:
                cands = [j for j in range(len(x) - len(r) + 1) if x[j:j + len(r)] == r]
                okk = False
                for j in cands:
                    pre, post = x[:j], x[j + len(r):]
                    if all(c in WS for c in pre) and all(c in WS for c in post) and ("l" in side or pre == b"") and ("r" in side or post == b""):
                        if ("l" not in side or not r.startswith(b" ")) and ("r" not in side or not r.endswith(b" ")):
                            okk = True
            else:
                okk = all(c in WS for c in x)
            if not okk:
                bad("model:" + UNARY_S[k].split("(")[0], "%s gave %r for %r" % (UNARY_S[k], r, x))
        # isnum <=> num succeeds
        isn = val(dump, "R12")
        numstep = st[2 + len(UNARY_S)]
        num_ok = numstep.get("r") == "ok" and val(dump, "R90")[0] == "d"
        if isn[0] != "b" or isn[1] != num_ok:
            bad("isnum-vs-num", "isnum gave %r but num -> %s %r" % (isn, numstep, val(dump, "R90")))
        return vs, True

    if kind == "pos":
        x, y, p = unhex(m["x"]), unhex(m["y"]), m["p"]
        total(4, POS_S)
        unchanged("X", sspec(x))
        unchanged("Y", sspec(y))
        unchanged("P", ispec(p))
        n = len(x)
        g = [val(dump, "R%d" % k) for k in range(len(POS_S))]
        if p is not None and 0 <= p:
            if g[0] != ("s", x[:p]):
                bad("model:lsubstr", "lsubstr gave %r, expected %r" % (g[0], x[:p]))
            w = x[max(0, n - p):]
            if g[1] != ("s", w):
                bad("model:rsubstr", "rsubstr gave %r, expected %r" % (g[1], w))
        if p is not None and 0 <= p <= n:
            if g[2] != ("s", x[p:]):
                bad("model:substr", "substr(x,p) gave %r, expected %r" % (g[2], x[p:]))
            if g[3] != ("x", x[p:]):
                bad("model:subraw", "subraw(x,p) gave %r, expected %r" % (g[3], x[p:]))
            if y:
                f = x.find(y, p)
                w = ("N", "integer") if f < 0 else ("i", f)
                if g[4] != w and not (f < 0 and g[4][0] == "N"):
                    bad("model:strpos", "strpos(x,y,p) gave %r, expected %r" % (g[4], w))
        if p is not None and 1 <= p <= 0xffffffff and all(c < 0x80 for c in x):
            if g[5] != ("i", djb(x) % p):
                bad("model:hash", "hash(x,p) gave %r, expected %r" % (g[5], djb(x) % p))
        if p is not None and p < 1:
            s5 = st[4 + 5]
            if not (s5.get("r") == "rerr" or g[5] == ("s", b"E:OOR")):
                bad("model:hash-buckets", "hash(x,%d) gave %r" % (p, g[5]))
        if p is not None:
            if g[6][0] != "s" or int(g[6][1] or b"x", 16) != (p & (2 ** 64 - 1)):
                bad("model:hex", "hex(p) gave %r" % (g[6],))
            if 0 <= p <= 255:
                if g[7] != ("s", bytes([p])):
                    bad("model:chr", "chr(%d) gave %r" % (p, g[7]))
            elif g[7] != ("s", b"E:OOR"):
                bad("chr-range", "chr(%d) gave %r, expected OUT_OF_RANGE" % (p, g[7]))
        # at: in range -> element, else an error (index error or none)
        for k, conv in ((8, lambda c: ("s", bytes([c]))), (9, lambda c: ("i", c))):
            s = st[4 + k]
            if p is not None and 0 <= p < n:
                w = conv(x[p])
                if g[k] != w and not (k == 8 and g[k] == ("i", x[p])):
                    bad("model:at", "%s gave %r, expected %r" % (POS_S[k], g[k], w))
            elif s.get("r") == "ok":
                bad("at-range", "%s with position %r on length %d was accepted: %r" % (POS_S[k], p, n, g[k]))
        return vs, True

    if kind == "pos2":
        x, p, q = unhex(m["x"]), m["p"], m["q"]
        unchanged("X", sspec(x))
        n = len(x)
        for k in range(len(st) - 5):
            s = st[4 + k]
            if s.get("r") not in ("ok", "rerr"):
                bad("not-total:pos2", "%s" % s)
        if p is not None and q is not None and 0 <= p <= n and q >= 0:
            w = x[p:p + q]
            if val(dump, "R0") != ("s", w):
                bad("model:substr3", "substr(x,p,q) gave %r, expected %r" % (val(dump, "R0"), w))
            if val(dump, "R1") != ("x", w):
                bad("model:subraw3", "subraw(x,p,q) gave %r, expected %r" % (val(dump, "R1"), w))
        return vs, True

    if kind == "tern":
        x, y, z = unhex(m["x"]), unhex(m["y"]), unhex(m["z"])
        total(4, TERN_S)
        unchanged("X", sspec(x))
        unchanged("Y", sspec(y))
        unchanged("Z", sspec(z))
        if y:
            w = x.replace(y, z)
            if val(dump, "R0") != ("s", w):
                bad("model:replace", "replace gave %r, expected %r" % (val(dump, "R0"), w))
            if x:
                toks = x.split(y)
                for k, ww in ((1, toks), (2, [t for t in toks if t]), (3, toks)):
                    g = val(dump, "R%d" % k)
                    if g[0] != "T" or table_strings(g[1]) != ww:
                        bad("model:tokenize", "%s gave %r, expected %r" % (TERN_S[k], g, ww))
            f = x.find(y)
            g = val(dump, "R4")
            if (f < 0 and g[0] != "N") or (f >= 0 and g != ("i", f)):
                bad("model:strpos2", "strpos(x,y) gave %r, expected %r" % (g, f))
        return vs, True

    if kind == "hexw":
        v, w = m["v"], m["w"]
        for k in (0, 1, 2):
            if st[3 + k].get("r") not in ("ok", "rerr"):
                bad("not-total:hex", "%s" % st[3 + k])
        if v is None:
            for k in (0, 1, 2):
                if val(dump, "R%d" % k)[0] != "N":
                    bad("model:hex-null", "hex of a null value gave %r" % (val(dump, "R%d" % k),))
            return vs, True
        digits = ("%x" % (v % (1 << 64))).encode()
        width = 0 if w is None else min(max(w, 0), 16)
        want = digits.rjust(width, b"0")
        for k, ww in ((0, want), (1, digits), (2, want)):
            if val(dump, "R%d" % k) != ("s", ww):
                bad("model:hex", "hex(%r%s) gave %r, expected %r" % (v, "" if k == 1 else ", %r" % w, val(dump, "R%d" % k), ww))
        return vs, True

    if kind == "numstr":
        isn = val(dump, "R0")
        s1 = st[3]
        num_ok = s1.get("r") == "ok" and val(dump, "R1")[0] == "d"
        if s1.get("r") not in ("ok", "rerr") or st[4].get("r") not in ("ok", "rerr"):
            bad("not-total:num", "%s %s" % (s1, st[4]))
        if isn[0] != "b" or isn[1] != num_ok:
            bad("isnum-vs-num", "isnum(x) = %r but num(x) -> %s %r" % (isn, s1, val(dump, "R1")))
        isn2 = val(dump, "R3")
        s4 = st[6]
        num2_ok = s4.get("r") == "ok" and val(dump, "R4")[0] == "d"
        if isn2[0] != "b" or isn2[1] != num2_ok:
            bad("isnum-vs-num:bytes", "isnum(raw(x)) = %r but num(raw(x)) -> %s %r" % (isn2, s4, val(dump, "R4")))
        unchanged("X", sspec(unhex(m["x"])))
        # int(x) of a string of decimal digits (optional blanks in front, optional sign) is that number, whatever its leading zeros
        import re as _re
        xs = unhex(m["x"])
        mm = _re.match(rb"^[ \t\n\v\f\r]*([+-]?[0-9]+)$", xs)
        if mm:
            want = int(mm.group(1))
            g = val(dump, "R2")
            if -2 ** 63 <= want < 2 ** 63:
                if g != ("i", want):
                    bad("model:int-of-decimal-string", "int(%r) gave %r, expected %d" % (xs, g, want))
            elif g != ("s", b"E:OOR"):
                bad("model:int-of-decimal-string:range", "int(%r) gave %r, expected OUT_OF_RANGE" % (xs, g))
        return vs, True

    if kind == "convi":
        i = m["i"]
        if val(dump, "R0") != ("s", str(i).encode()):
            bad("model:str-int", "str(i) gave %r" % (val(dump, "R0"),))
        if val(dump, "R1") != ("i", i):
            bad("roundtrip:int-str", "int(str(i)) gave %r" % (val(dump, "R1"),))
        if val(dump, "R2") != ("b", True):
            bad("isnum-str-int", "isnum(str(i)) gave %r" % (val(dump, "R2"),))
        g = val(dump, "R3")
        if g[0] != "s" or int(g[1], 16) != (i & (2 ** 64 - 1)):
            bad("model:hex", "hex(i) gave %r" % (g,))
        return vs, True

    if kind == "convd":
        d = float.fromhex(m["d"]) if m["d"] != "nan" else float("nan")
        g0 = val(dump, "R0")
        g1 = val(dump, "R1")
        if g0[0] != "s":
            bad("model:str-dec", "str(d) gave %r" % (g0,))
        elif g1[0] == "d":
            back = g1[1]
            if d != d:
                okk = back != back
            elif d in (float("inf"), float("-inf")) or d == 0:
                okk = back == d
            else:
                okk = abs(back - d) <= abs(d) * 1e-15
            if not okk:
                bad("roundtrip:num-str", "num(str(d)) gave %r for %r (text %r)" % (back, d, g0[1]))
        else:
            # subnormals may print as text that stod refuses (out of range): accepted only as OUT_OF_RANGE
            if g1 == ("s", b"E:OOR") and abs(d) > 1.797693134862315e308:
                bad("roundtrip:num-str:rounds-above-DBL_MAX", "num(str(d)) is OUT_OF_RANGE for %r: str gives %r" % (d, g0[1]))
            elif not (g1 == ("s", b"E:OOR") and abs(d) < 2.3e-308):
                bad("roundtrip:num-str", "num(str(d)) failed for %r (text %r): %r %s" % (d, g0[1], g1, st[3]))
        return vs, True

    if kind == "b64":
        x = unhex(m["x"])
        if val(dump, "R0") != ("s", base64.b64encode(x)):
            bad("model:b64enc", "b64enc gave %r, expected %r" % (val(dump, "R0"), base64.b64encode(x)))
        if val(dump, "R1") != ("x", x):
            bad("roundtrip:b64", "b64dec(b64enc(b)) gave %r" % (val(dump, "R1"),))
        if st[4].get("r") not in ("ok", "rerr"):
            bad("not-total:b64dec", "%s" % st[4])
        unchanged("B", xspec(x))
        return vs, True

    if kind == "code":
        c = m["c"]
        for k, e in enumerate(CODE_S):
            s = st[3 + k]
            g = val(dump, "R%d" % k)
            if s.get("r") not in ("ok", "rerr"):
                bad("not-total:code", "%s -> %s" % (e, s))
                continue
            if c is None:
                continue
            if 0 <= c <= 255:
                want = {0: ("s", bytes([c])), 1: ("s", bytes([c]) + b"b"), 2: ("s", b"ab" + bytes([c])), 3: ("x", bytes([c]) + b"b"),
                        4: ("x", b"ab" + bytes([c])), 5: ("x", bytes([c])), 6: ("s", bytes([c]) + b"ab"), 7: ("x", bytes([c]) + b"ab"),
                        8: ("s", bytes([c])), 9: ("x", bytes([c])), 12: ("s", bytes([c])), 13: ("x", bytes([c])),
                        # an untyped null becomes a string, or a bytes array for the code 0 (a string cannot hold NUL by concat)
                        10: ("x" if c == 0 else "s", bytes([c])), 11: ("x" if c == 0 else "s", bytes([c]))}[k]
                if s.get("r") != "ok" or g != want:
                    bad("model:code:" + e.split("(")[0], "%s with %d gave %s %r, expected %r" % (e, c, s.get("r"), g, want))
            else:
                if not (g == ("s", b"E:OOR")):
                    bad("code-range:" + e.split("(")[0], "%s with %d gave %s %r, expected OUT_OF_RANGE" % (e, c, s, g))
        return vs, True
    return vs, False


def run(tier):
    t0 = time.time()
    res = explore(PROP + "-" + tier, gen_factory(tier), check, chunk=200, deadline=t0 + (2400 if tier == "thorough" else 420))
    from ..core import explore_gcc
    res.merge(explore_gcc(PROP + "-" + tier, gen_factory("quick"), check, chunk=200, deadline=t0 + (2700 if tier == "thorough" else 600)))
    rule = ("all strings of length <=%d over 11 bytes (NUL, space, a, A, 1, comma, quote, LF, 0x7f, 0x80, 0xff) for the unary functions; length <=%d over "
            "4 bytes x positions {null, MIN, -1, 0..4, MAX} for the positional ones; all triples for replace/tokenize/strpos; all strings of length <=%d over "
            "0 1 . e E - + space x a for isnum/num/int; integer and decimal lattices for str/int/num round trips; all byte strings of length <=2 and "
            "3 (4) over 16 bytes for base64; codes over the integer lattice and 254..257 for chr/put/concat/insert/raw" % ((3, 3, 4) if tier == "thorough" else (2, 2, 3)))
    return finish(PROP, tier, res, check, rule, t0, assumptions=["Python bytes operations and base64 as the reference where the manual defines the result",
                                                              "C locale for upper/lower", "arguments are bound exactly through the API"])
