"""C11 — a rejected source text does not disturb anything that was valid before it.

For every valid prefix P (contexts with variables of every type, $-variables, tables, tuples, overloaded and
recursive functions), every valid text Q touching what P made, and every text R derived from Q by truncation at
every token boundary or by replacing one token with each poison token (kept iff the parser rejects it):
  dump(P; R) = dump(P) for every name P introduced (value, type, symbol type, constraint flags), the function
  table is unchanged (names, arities, bodies), no parsing state is left, and a probe suite (call every function,
  print every variable, retype every variable, forall/concat every table, run every Q) behaves identically in the
  disturbed context and in an undisturbed twin. Routes: Parser::parse, the C API, the interactive parser.
"""
import itertools
import time

from ..core import Case, Violation, explore, finish, generic_safety, op_ctx, op_run, op_dump, op_out, unhex, Result
from .c01 import lex_spans

PROP = "C11"

VARS = ('a = 1; s = "str"; d = 2.5; b = raw("b"); t = tab(3, 1); r = tup(1, "x"); $k = 5; n = null; tt = tab(2, tab(2, 0)); ty:integer; e = 0; i = 0; '
        'tq = tab(2, tup(1, "x")); rq = tup(3, "r"); $tk = tab(2, 1); $rk = tup(1, "a"); $sk = "s"; '
        # variables that already have the type a loop will give them as control variable
        'et = tup(7, "z"); ei = 5; eb = tab(1, 4);')
FUNS = ('function f1(x) return integer is begin return x + 1; end;\n'
        'function f2(x, y) return integer is begin return x * y; end;\n'
        'function f2(x) return integer is begin return -x; end;\n'
        'function fr(n) return integer is begin if n <= 0 then return 0; end if; return n + fr(n - 1); end;\n'
        'function f3() return string is begin return "three"; end;\n')
PREFIXES = {
    "vars+funs": VARS + "\n" + FUNS,
    "vars": VARS,
    "funs": FUNS,
    "empty": "zq = 0;",
}

QS = [
    "for i in 1 to 3 loop a = a + i; end loop;",
    "forall e in t loop e = e + 1; end loop;",
    "forall e in tt loop forall g in e loop g = 1; end loop; end loop;",
    "begin a = 1 / 0; exception when divide_by_zero then a = -1; when others then a = -2; end;",
    'if a > 0 then s = "pos"; elsif a < 0 then s = "neg"; else s = "zero"; end if;',
    "while a < 10 loop a = a + 1; if a == 5 then break; end if; end loop;",
    'a = "now a string"; t = tab(1, "x"); r = tup("y", 2);',
    "a:string; d:integer;",
    "$k = 6; $k = $k + 1;",
    "function f1(x) return integer is begin return x + 100; end;",
    "function f2(x, y) return integer is begin return x - y; end;",
    'function f3() return string is begin return "new"; end;',
    "function f1(x, y, z) return integer is begin return x; end;",
    "function g(p) return integer is begin for i in 1 to p loop if i > 2 then return i; end if; end loop; return 0; end;",
    "function fr(n) return integer is begin if n <= 0 then return 100; end if; return n + fr(n - 1); end;",
    't.concat(5).put(0, 9); s.concat("!"); r.set@1(7);',
    "print f1(a) f2(a, 2) f2(3) fr(3) f3();",
    "a = 1, b2 = 2, print a b2;",
    'x1 = tup(1, 2.5, "z"); print x1@3;',
    "for i in 1 to 2 loop forall e in t loop begin a = a + e * i; exception when others then a = 0; end; end loop; end loop;",
    "function f2(x) return integer is begin begin return fr(x); exception when others then return 0; end; end;",
    "n = tab(2, tup(1, 2)); forall e in n loop e.set@1(3); end loop;",
    # control variables that exist beforehand with the very type the loop gives them, re-typed or not in the body
    'forall et in tq loop et = tup(2.5, true); end loop;',
    'forall et in tq loop a = a + et@1; end loop; forall ei in t loop a = a + ei; end loop; for ei in 1 to 2 loop a = a + ei; end loop;',
    'forall eb in tt loop eb = tab(1, "s"); end loop;',
    # structured variables re-typed with another rank / another structure
    'tq = tup(1, "x", 2.5); rq = tab(2, tup(5, "w"));',
    'tq = tab(1, tab(1, tup(1, "x"))); rq = tup("s", 1);',
    'if a > 100 then tq = 5; rq = "s"; r = tab(1, tup(1, "x")); end if;',
    # type-safe variables assigned a value of the same major type and another structure
    '$tk = tab(1, tab(1, "s")); $rk = tup("z", 2.5, 1);',
    '$tk = tab(1, "s"); $rk = tup(2, "b");',
]
POISON = [")", "end", ";", '"unterminated', "@", "1x", "loop", "=", "nosuchname", "then"]
DIRECT_R = ["import nosuchmodule;", 'include "/nonexistent/file.bloc";', "a = nosuch + 1;", "f1();", "f9(1);", "t.nosuch(1);", "a = 1 +;", "$k = \"s\";",
            "function f1(x) return integer is begin return nosuch; end;", "function f2(x, y) return integer is begin return x +; end;",
            "function f3() return string is begin return 1 +; end;", "function fr(n) return integer is begin return n.at(; end;",
            "function f2(x) return integer is begin for q in 1 to loop end;", "forall e in t loop t.concat(1); end loop;",
            "for i in 1 to 3 loop i = \"s\"; end loop;", "forall e in t loop e = \"s\"; end loop;",
            # the path expression of include / import is evaluated while compiling: a run-time error there rejects the text like any other
            'a = "s"; include str(1 / (e - e));', 'function f1(x) return integer is begin return x + 9; end; include "x" + str(1 / (e - e));',
            'a = "s"; import str(1 / (e - e));', 'd = "t"; include str(tab(1, 1).at(5));']

PROBES = ('print a s d $k isnull(n) typeof(ty) r@1 r@2 t.count() tt.count() b.count();\n'
          # programs whose acceptance depends on the declared type of each variable
          'print a + 1 d * 2 s + "x" t.at(0) + 1 r@1 + 1 e + 1 i + 1 tt.at(0).at(0) + 1 b.at(0) + 1 ty + 1 tq.at(0)@1 + 1 rq@1 + 1 (n + 1);\n'
          'forall pe in t loop put pe " "; end loop; print "";\n'
          't.concat(42); tt.at(0).put(0, 7); r.set@1(11); s.concat("?"); b.concat(1); print t.at(t.count() - 1) tt.at(0).at(0) r@1 s b.count();\n'
          'a = "retyped"; d = "retyped"; n = 5; e = "s"; i = "s"; print a d n e i;\n'
          'forall et in tq loop put et@1; end loop; forall ei in t loop put ei; end loop; for ei in 1 to 2 loop put ei; end loop; forall eb in tt loop put eb.count(); end loop; print "";\n'
          'et = "text"; ei = "s"; eb = 3; print et ei eb;\n'
          '$k = 77; print $k;\n'
          '$tk.concat(5); $rk.set@2("c"); print $tk.count() $tk.at(0) $rk@1 $rk@2 $sk; tq.at(0).set@2("y"); rq.set@2("s"); tq.concat(tup(9, "z")); print tq.at(0)@2 tq.count() tq.at(2)@1 rq@2 rq@1;\n')
FPROBES = ('print f1(1) f2(2, 3) f2(4) fr(4) f3();\n'
           'function f1(x) return integer is begin return x + 1000; end; print f1(1) f2(2, 3) f2(4) fr(4) f3();\n'
           'function zlast() return integer is begin return 5; end; print zlast();\n')


def inc_path():
    """a source file that redefines existing functions and declares a new one: included successfully by a text that fails later"""
    import os
    from .. import build
    d = os.path.join(build.BUILD, "scratch")
    os.makedirs(d, exist_ok=True)
    p = os.path.join(d, "c11-include.bloc")
    if not os.path.exists(p):
        with open(p, "w") as f:
            f.write('function f1(x) return integer is begin return x + 500; end;\nfunction f3() return string is begin return "included"; end;\n'
                    'function ginc() return integer is begin return 1; end;\nzinc = 5;\n')
    return p


def include_rejected():
    p = inc_path()
    return ['include "%s"; a = 1 +;' % p, 'include "%s"; zz9 = nosuch;' % p, 'include "%s"; include "%s"; a = ;' % (p, p),
            'function f1(x) return integer is begin return x + 300; end; include "%s"; a = ;' % p,
            'include "%s"; function f2(x) return integer is begin return x +; end;' % p,
            'for i in 1 to 2 loop include "%s"; end loop;' % p]


def rejected_variants(q):
    spans = lex_spans(q)
    seen = set()
    for (i, j) in spans:
        cut = q[:i].rstrip()
        if cut and cut not in seen:
            seen.add(cut)
            yield ("cut@%d" % i, cut)
    for (i, j) in spans:
        for p in POISON:
            if q[i:j] == p:
                continue
            r = q[:i] + p + q[j:]
            if r not in seen:
                seen.add(r)
                yield ("poison@%d:%s" % (i, p), r)


def gen_factory(tier):
    prefixes = PREFIXES if tier == "thorough" else {k: PREFIXES[k] for k in ("vars+funs", "funs")}

    def gen():
        n = 0
        for pname, ptext in prefixes.items():
            hasv = "vars" in pname
            hasf = "funs" in pname
            probes = (PROBES if hasv else "") + (FPROBES if hasf else "") + 'print "alive";'
            qprobe = "\n".join(q for q in QS if (hasv and hasf))
            items = []
            for qi, q in enumerate(QS):
                for tag, r in rejected_variants(q):
                    items.append(("q%d:%s" % (qi, tag), r))
            for k, r in enumerate(DIRECT_R):
                items.append(("direct%d" % k, r))
            for k, r in enumerate(include_rejected()):
                items.append(("include%d" % k, r))
            # the path expression of include / import is evaluated while the statement is compiled: what it changes stays changed when the
            # text is rejected (recorded finding; the cases keep watching that nothing else is disturbed)
            if hasv:
                for k, r in enumerate(['include s.concat(".none") junk;', 'include s.concat(".none");', 'a = 5; include s.concat("/x/y") + str(a);',
                                       'import s.concat(".none") junk;', 'import s.concat("/nonexistent");']):
                    items.append(("pathexpr:%s%d" % (r.split()[0] if not r.startswith("a =") else "include", k), r))
            # rejected texts that (re)declare several functions - also the same one twice, with different bodies - before the error
            decls = [("f1a", "function f1(x) return integer is begin return x + 100; end;"), ("f1b", "function f1(x) return integer is begin return x + 200; end;"),
                     ("f2a", "function f2(x, y) return integer is begin return x - y; end;"), ("f2b", "function f2(x) return integer is begin return x + 7; end;"),
                     ("f3a", 'function f3() return string is begin return "new"; end;'), ("fra", "function fr(n) return integer is begin return f1(n); end;"),
                     ("new", "function gnew(p) return integer is begin return f1(p) + 1; end;"), ("newb", "function gnew(p) return integer is begin return 2; end;")]
            tails = ["a = 1 +;", "print f1(1) ;;)", 'function f3() return string is begin return 1 +; end;', "function gnew(p) return integer is begin return nosuch; end;"]
            for (n1, d1) in decls:
                for (n2, d2) in decls:
                    for ti, tl in enumerate(tails):
                        items.append(("multi:%s+%s+t%d" % (n1, n2, ti), d1 + "\n" + d2 + "\n" + tl))
            for (n1, d1) in decls[:4]:
                for (n2, d2) in decls[:4]:
                    for (n3, d3) in decls[:6]:
                        items.append(("multi3:%s+%s+%s" % (n1, n2, n3), d1 + "\n" + d2 + "\n" + d3 + "\n" + tails[1]))
            # rejected texts that give one variable another type more than once before the error (every step is backed up)
            if hasv:
                RT = ['"s"', "2.5", "tab(1, 1)", 'tup("a", 2)', "true", "null", 'raw("x")', "7"]
                for var in ("a", "d", "s", "t", "r", "n", "b", "tt", "tq", "rq", "ty"):
                    for v1 in RT:
                        for v2 in RT:
                            items.append(("retype:%s:%s,%s" % (var, v1, v2), "%s = %s; %s = %s; a = 1 +;" % (var, v1, var, v2)))
                for var in ("a", "t", "r"):
                    for v1, v2, v3 in itertools.product(RT[:5], repeat=3):
                        items.append(("retype3:%s:%s,%s,%s" % (var, v1, v2, v3), "%s = %s; e = %s; %s = %s; %s = %s; zz9 = nosuch;" % (var, v1, v1, var, v2, var, v3)))
                for d1, d2 in itertools.product(("string", "decimal", "table", "tuple", "boolean", "integer"), repeat=2):
                    items.append(("retype:decl:%s,%s" % (d1, d2), "a:%s; a:%s; d:%s; d:%s; a = 1 +;" % (d1, d2, d2, d1)))
            if tier == "thorough":
                # chains of two rejected texts
                base = [it for it in items if it[0].startswith("q9:") or it[0].startswith("q10:") or it[0].startswith("direct")]
                for (t1, r1) in base[::7]:
                    for (t2, r2) in base[::5]:
                        items.append(("chain:%s+%s" % (t1, t2), (r1, r2)))
            for tag, r in items:
                routes = ("cpp", "capipos", "istmt") if tier == "thorough" else (("cpp", "capipos", "istmt")[n % 3],)
                if tag.startswith(("retype", "pathexpr")) and tier != "thorough":
                    routes = (("cpp", "capipos")[n % 2],)
                for route in routes:
                    rs = r if isinstance(r, tuple) else (r,)
                    if route == "istmt" and any(x.count(";") > 1 and not x.startswith("function") and "loop" not in x and "begin" not in x and "if" not in x for x in rs):
                        continue
                    # statement-wise hosts also compile what came before statement by statement (each accepted statement is final)
                    proute = "istmt" if route == "istmt" else "cpp"
                    ops = [op_ctx(0), op_run(ptext, route=proute), op_dump(0), "funcs 0"]
                    for x in rs:
                        ops.append(op_run(x, route=route))
                    ops += [op_dump(0), "funcs 0", op_out(0), op_run(probes), op_out(0), op_run(qprobe), op_out(0), op_dump(0), "funcs 0",
                            op_ctx(1), op_run(ptext, slot=1), op_out(1), op_run(probes, slot=1), op_out(1), op_run(qprobe, slot=1), op_out(1), op_dump(1), "funcs 1"]
                    yield Case("r%d" % n, ops, {"kind": "rej", "prefix": pname, "tag": tag, "route": route, "nr": len(rs), "r": list(rs)})
                    n += 1
    return gen


MODNAMES = ["utf8", "csv", "file", "sqlite3"]


def modname_gen():
    """a rejected text that imports a module: a variable of that name, valid before, must stay usable (each case in its own process:
    the set of loaded modules is process-wide)"""
    def gen():
        for n, mod in enumerate(MODNAMES):
            for tail in ("zz9 = ;", "a = 1 +;"):
                ops = ["isolate", op_ctx(0), op_run("%s = 5; print %s;" % (mod, mod)), op_run("import %s; %s" % (mod, tail)),
                       op_run("%s = %s + 1; print %s;" % (mod, mod, mod)), op_out(0)]
                yield Case("m%d" % n, ops, {"kind": "modname", "mod": mod, "tail": tail})
    return gen


def check(case, res):
    vs = generic_safety(case, res)
    if res.get("st") != "done":
        return vs, True
    m = case.meta
    st = res["steps"]
    if m.get("kind") == "modname":
        before, rej, after, out = st[2], st[3], st[4], unhex(st[5].get("out", ""))
        if before.get("r") != "ok" or rej.get("r") != "perr":
            return vs, False
        if after.get("r") != "ok" or out != b"5\n6\n":
            vs.append(Violation("import-in-rejected-text:name-becomes-reserved:%s" % m["mod"], "after the rejected text 'import %s; %s' the program '%s = %s + 1;' "
                                "that was valid before gives %s (printed %r)" % (m["mod"], m["tail"], m["mod"], m["mod"], after, out), case))
        return vs, True
    if st[1].get("r") != "ok":
        vs.append(Violation("setup-rejected", "prefix rejected: %s" % st[1], case))
        return vs, False
    d0, f0 = st[2], st[3]
    k = 4
    rej = st[k:k + m["nr"]]
    k += m["nr"]
    d1, f1, o1, pr, po, qr, qo, d2, f2 = st[k:k + 9]
    k += 9
    tw = st[k:]
    # twin: ctx, prefix, out, probes, out, qprobe, out, dump, funcs
    tpr, tpo, tqr, tqo, td2, tf2 = tw[3], tw[4], tw[5], tw[6], tw[7], tw[8]
    # keep only texts the parser really rejects (interactive route: no statement of the text was executed before the error)
    for s in rej:
        if s.get("r") != "perr":
            return vs, False
        if m["route"] == "istmt" and s.get("executed", 0) != 0:
            return vs, False
    cls = m["tag"].split(":")[0] if not m["tag"].startswith("chain") else "chain"
    where = "%s:%s" % (m["route"], cls)

    def bad(key, msg):
        vs.append(Violation("%s:%s" % (key, where), "%s after rejected %r (prefix %s)" % (msg, m["r"], m["prefix"]), case))
    v0, v1 = d0.get("vars", {}), d1.get("vars", {})
    if cls == "pathexpr":
        # one narrow key for the recorded finding: only S, only the concatenated text
        changed = {name for name in v0 if v1.get(name) != v0[name]}
        which = "include" if "include" in m["tag"] else "import"
        if changed == {"S"} and v1.get("S", "").startswith(v0["S"]) and f0.get("funcs") == f1.get("funcs"):
            vs.append(Violation("path-expression-evaluated-in-rejected-text:%s" % which,
                                "S was %r, is %r after rejected %r" % (v0["S"], v1.get("S"), m["r"]), case))
            return vs, True
        if not changed and f0.get("funcs") == f1.get("funcs") and d1.get("backed") == 0:
            return vs, True
    for name, val in v0.items():
        if v1.get(name) != val:
            bad("variable-disturbed", "variable %s was %r, is %r" % (name, val, v1.get(name)))
            break
    if f0.get("funcs") != f1.get("funcs"):
        bad("functions-disturbed", "function table was %r, is %r" % (short(f0.get("funcs")), short(f1.get("funcs"))))
    if d1.get("flags") not in ("", None) or d1.get("xlevel") != 0 or d1.get("cdepth") != 0 or d1.get("backed") != 0:
        bad("parse-state-left", "flags %r, block level %s, control depth %s, backed-up symbols %s" % (d1.get("flags"), d1.get("xlevel"), d1.get("cdepth"), d1.get("backed")))
    if (pr.get("r"), pr.get("msg"), po.get("out")) != (tpr.get("r"), tpr.get("msg"), tpo.get("out")):
        bad("probes-differ", "probes give %s %r, in an undisturbed twin %s %r" % (pr.get("r") + ":" + str(pr.get("msg")), unhex(po.get("out", ""))[-200:], tpr.get("r"), unhex(tpo.get("out", ""))[-200:]))
    elif (qr.get("r"), qr.get("msg"), qo.get("out")) != (tqr.get("r"), tqr.get("msg"), tqo.get("out")):
        bad("valid-programs-differ", "the valid programs give %s %r, in an undisturbed twin %s %r" % (qr, unhex(qo.get("out", ""))[-200:], tqr, unhex(tqo.get("out", ""))[-200:]))
    else:
        tv, dv = td2.get("vars", {}), d2.get("vars", {})
        diff = [kk for kk in tv if dv.get(kk) != tv[kk]]
        if diff or f2.get("funcs") != tf2.get("funcs"):
            bad("final-state-differs", "after the probes %s differ: %r vs twin %r; functions equal: %s" % (
                diff, short({kk: dv.get(kk) for kk in diff}), short({kk: tv[kk] for kk in diff}), f2.get("funcs") == tf2.get("funcs")))
    if tpr.get("r") != "ok":
        vs.append(Violation("oracle:twin-probe-failed", "probe suite fails in the undisturbed twin: %s" % tpr, case))
    return vs, True


def vals(d, like=None):
    v = d.get("vars", {})
    if like is not None:
        # names only the rejected text introduced are outside the guarantee
        return {k: x for k, x in v.items() if k in like.get("vars", {}) and k in v}
    return dict(v)


def short(x):
    s = repr(x)
    return s if len(s) < 500 else s[:500] + "..."


def run(tier):
    t0 = time.time()
    res = explore(PROP + "-" + tier, gen_factory(tier), check, chunk=100, deadline=t0 + (3000 if tier == "thorough" else 420))
    res.merge(explore(PROP + "-" + tier + "-module-names", modname_gen(), check, chunk=2, deadline=t0 + (3000 if tier == "thorough" else 420)))
    rule = ("for %d prefixes x %d valid texts: every truncation at a token boundary and every single-token replacement by %d poison tokens, plus %d directly "
            "invalid texts%s; kept iff rejected by the parser; routes Parser::parse / bloc_parse_executable / interactive parseStatement+clear; "
            "non-trivial = the text was rejected and the comparison was made" % (len(PREFIXES) if tier == "thorough" else 2, len(QS), len(POISON), len(DIRECT_R),
                                                                              " and chains of two rejected texts" if tier == "thorough" else ""))
    return finish(PROP, tier, res, check, rule, t0, assumptions=["names introduced only by the rejected text are ignored", "differential oracle: undisturbed twin context"])
