"""C05 — evaluating an expression changes nothing but its target (value semantics).

(a) Purity: every expression of the vocabulary product (every builtin, operator, method and @rank over the value
    alphabet of C01) is evaluated three times by the same node inside a loop in a context holding variables of
    every type; the three printed results must be equal and the deep dump of ALL variables must be unchanged,
    except the receiver of an in-place method.
(b) No aliasing: breadth-first search over histories of assignments, in-place mutations, container stores,
    function calls and forall writes on variables {a, b, t, u} for strings, bytes, tables and tuples; in every
    state the deep dump equals a Python deep-copy model.
"""
import copy
import re
import time

from ..core import Case, Violation, explore, finish, generic_safety, op_ctx, op_run, op_dump, op_out, op_setvar, unhex, Result, run_batch
from ..dumpparse import parse_symbol
from . import c01

PROP = "C05"

IMPURE = ("random", "read(", "readln", "input", "getsys", "getenv", "error")
INPLACE = re.compile(r"^([a-z0-9_]+)\.(put|insert|delete|concat|set@)")


def purity_gen(tier):
    def gen():
        n = 0
        seen = set()
        for e, tag in c01.vocab_exprs(tier):
            if any(w in e for w in IMPURE):
                continue
            if e in seen:
                continue
            seen.add(e)
            ops = [op_ctx(), op_run(c01.PRELUDE)] + [op_setvar(k, v) for k, v in c01.SETVARS]
            ops += [op_dump(), op_run("for kq in 1 to 3 loop print %s; end loop;" % e), op_out(), op_dump(),
                    op_run("for kq in 1 to 2 loop xq = %s; end loop;" % e), op_dump()]
            yield Case("p%d" % n, ops, {"kind": "pure", "e": e, "tag": tag})
            n += 1
    return gen


def check_pure(case, res, vs):
    m = case.meta
    st = res["steps"]
    k = len(st) - 6
    d0, run, out, d1, run2, d2 = st[k], st[k + 1], unhex(st[k + 2].get("out", "")), st[k + 3], st[k + 4], st[k + 5]
    e = m["e"]
    mo = INPLACE.match(e)
    recv = mo.group(1).upper() if mo else None
    chained_inplace = bool(re.search(r"\.(put|insert|delete|concat|set@)", e))
    cls = m["tag"].split(":")[0] + ":" + (m["tag"].split(":")[1] if ":" in m["tag"] else "")

    def cmp_dump(a, b, which):
        va, vb = a.get("vars", {}), b.get("vars", {})
        for name in va:
            if name in ("KQ", "XQ") or name == recv:
                continue
            if va[name] != vb.get(name):
                vs.append(Violation("variable-changed:%s" % cls, "evaluating %s (%s) changed variable %s from %r to %r" % (e, which, name, va[name], vb.get(name)), case))
                return
    if run.get("r") in ("ok", "rerr"):
        cmp_dump(d0, d1, "print x3")
    if run2.get("r") in ("ok", "rerr"):
        cmp_dump(d1, d2, "assign x2")
    if run.get("r") == "ok" and not chained_inplace:
        n = len(out)
        if n % 3 != 0 or out[:n // 3] * 3 != out:
            vs.append(Violation("reevaluation-differs:%s" % cls, "three evaluations of %s by the same node printed %r" % (e, out[:300]), case))
    return vs, run.get("r") == "ok"


# ------------------------------------------------------------------------------------------------
# (b) aliasing BFS
FUNCS = {
    "S": 'function fmut(p) return integer is begin p.concat("M"); return p.count(); end; function fret(p) return string is begin p.concat("f"); return p; end;',
    "X": 'function fmut(p) return integer is begin p.concat(77); return p.count(); end; function fret(p) return bytes is begin p.concat(102); return p; end;',
    "T": 'function fmut(p) return integer is begin p.concat(77); p.put(0, 55); return p.count(); end; function fret(p) return table is begin p.concat(8); return p; end;',
    "R": 'function fmut(p) return integer is begin p.set@1(77); return p.count(); end; function fret(p) return tuple is begin p.set@1(8); return p; end;',
}
INIT = {
    "S": 'a = "abc"; b = "x"; t = tab(2, "t"); u = tup("u", 1);',
    "X": 'a = raw("abc"); b = raw("x"); t = tab(2, raw("t")); u = tup(raw("u"), 1);',
    "T": "a = tab(2, 1); b = tab(1, 9); t = tab(2, tab(1, 0)); u = tab(1, tab(1, 5));",
    "R": 'a = tup(1, "a"); b = tup(9, "b"); t = tab(2, tup(0, "t")); u = tab(1, tup(5, "u"));',
}


def init_model(fam):
    if fam == "S":
        return {"a": b"abc", "b": b"x", "t": [b"t", b"t"], "u": [b"u", 1]}
    if fam == "X":
        return {"a": b"abc", "b": b"x", "t": [b"t", b"t"], "u": [b"u", 1]}
    if fam == "T":
        return {"a": [1, 1], "b": [9], "t": [[0], [0]], "u": [[5]]}
    if fam == "R":
        return {"a": [1, b"a"], "b": [9, b"b"], "t": [[0, b"t"], [0, b"t"]], "u": [[5, b"u"]]}


def ops_for(fam):
    """[(text, model function(state) mutating a deep copy)]"""
    def lit(s):
        return ('"%s"' % s) if fam == "S" else 'raw("%s")' % s
    ops = []

    def add(text, fn):
        ops.append((text, fn))
    add("b = a;", lambda s: s.__setitem__("b", copy.deepcopy(s["a"])))
    add("a = b;", lambda s: s.__setitem__("a", copy.deepcopy(s["b"])))
    add("a = a;", lambda s: None)
    if fam in ("S", "X"):
        add("a = %s;" % lit("new"), lambda s: s.__setitem__("a", b"new"))
        add("a.concat(%s);" % lit("1"), lambda s: s.__setitem__("a", s["a"] + b"1"))
        add("b.concat(%s);" % lit("2"), lambda s: s.__setitem__("b", s["b"] + b"2"))
        add("a.concat(a);", lambda s: s.__setitem__("a", s["a"] + s["a"]))
        add("a.concat(b);", lambda s: s.__setitem__("a", s["a"] + s["b"]))
        add("a.put(0, 65);", lambda s: s.__setitem__("a", b"A" + s["a"][1:]) if len(s["a"]) > 0 else "reject")
        add("b.put(0, 66);", lambda s: s.__setitem__("b", b"B" + s["b"][1:]) if len(s["b"]) > 0 else "reject")
        add("a.delete(0);", lambda s: s.__setitem__("a", s["a"][1:]) if len(s["a"]) > 0 else "reject")
        add("b.insert(0, %s);" % lit("i"), lambda s: s.__setitem__("b", b"i" + s["b"]))
        add("t.put(0, a);", lambda s: s["t"].__setitem__(0, s["a"]) if len(s["t"]) > 0 else "reject")
        add("t.put(1, b);", lambda s: s["t"].__setitem__(1, s["b"]) if len(s["t"]) > 1 else "reject")
        add("t = tab(2, a);", lambda s: s.__setitem__("t", [s["a"], s["a"]]))
        add("t.concat(a);", lambda s: s["t"].append(s["a"]))
        add("t.insert(0, b);", lambda s: s["t"].insert(0, s["b"]))
        add("u = tup(a, 1);", lambda s: s.__setitem__("u", [s["a"], 1]))
        add("u.set@1(b);", lambda s: s["u"].__setitem__(0, s["b"]))
        add("t.at(0).concat(%s);" % lit("z"), lambda s: s["t"].__setitem__(0, s["t"][0] + b"z") if len(s["t"]) > 0 else "reject")
        add("zz = fmut(a);", lambda s: None)
        add("a = fret(a);", lambda s: s.__setitem__("a", s["a"] + b"f"))
        add("b = fret(a);", lambda s: s.__setitem__("b", s["a"] + b"f"))
        add("a = t.at(0);", lambda s: s.__setitem__("a", s["t"][0]) if len(s["t"]) > 0 else "reject")
        add("b = u@1;", lambda s: s.__setitem__("b", s["u"][0]))
        add("forall e in t loop e.concat(%s); end loop;" % lit("e"), lambda s: s.__setitem__("t", [x + b"e" for x in s["t"]]))
        if fam == "S":
            add("a = a + b;", lambda s: s.__setitem__("a", s["a"] + s["b"]))
            add('b = a + "k";', lambda s: s.__setitem__("b", s["a"] + b"k"))
            add("b = upper(a);", lambda s: s.__setitem__("b", s["a"].upper()))
            add("b = substr(a, 1);", lambda s: s.__setitem__("b", s["a"][1:]))
        else:
            add("b = subraw(a, 1);", lambda s: s.__setitem__("b", s["a"][1:]))
    if fam == "T":
        add("a = tab(2, 3);", lambda s: s.__setitem__("a", [3, 3]))
        add("a.concat(1);", lambda s: s["a"].append(1))
        add("b.concat(2);", lambda s: s["b"].append(2))
        add("a.concat(a);", lambda s: s.__setitem__("a", s["a"] + s["a"]))
        add("a.concat(b);", lambda s: s.__setitem__("a", s["a"] + s["b"]))
        add("a.put(0, 5);", lambda s: s["a"].__setitem__(0, 5) if s["a"] else "reject")
        add("b.put(0, 6);", lambda s: s["b"].__setitem__(0, 6) if s["b"] else "reject")
        add("a.delete(0);", lambda s: s["a"].pop(0) if s["a"] else "reject")
        add("b.insert(0, 4);", lambda s: s["b"].insert(0, 4))
        add("t.put(0, a);", lambda s: s["t"].__setitem__(0, copy.deepcopy(s["a"])) if s["t"] else "reject")
        add("t.put(1, b);", lambda s: s["t"].__setitem__(1, copy.deepcopy(s["b"])) if len(s["t"]) > 1 else "reject")
        add("t = tab(2, a);", lambda s: s.__setitem__("t", [copy.deepcopy(s["a"]), copy.deepcopy(s["a"])]))
        add("t.concat(tab(1, a));", lambda s: s["t"].append(copy.deepcopy(s["a"])))
        add("u = tab(1, b);", lambda s: s.__setitem__("u", [copy.deepcopy(s["b"])]))
        add("t.at(0).concat(7);", lambda s: s["t"][0].append(7) if s["t"] else "reject")
        add("t.at(0).put(0, 8);", lambda s: s["t"][0].__setitem__(0, 8) if (s["t"] and s["t"][0]) else "reject")
        add("zz = fmut(a);", lambda s: None)
        add("a = fret(a);", lambda s: s["a"].append(8))
        add("b = fret(a);", lambda s: s.__setitem__("b", s["a"] + [8]))
        add("a = t.at(0);", lambda s: s.__setitem__("a", copy.deepcopy(s["t"][0])) if s["t"] else "reject")
        add("b = u.at(0);", lambda s: s.__setitem__("b", copy.deepcopy(s["u"][0])) if s["u"] else "reject")
        add("forall e in t loop e.concat(3); end loop;", lambda s: [x.append(3) for x in s["t"]] and None)
        add("forall e in a loop e = e + 1; end loop;", lambda s: s.__setitem__("a", [x + 1 for x in s["a"]]))
        add("forall e in t loop forall g in e loop g = g + 10; end loop; end loop;", lambda s: s.__setitem__("t", [[y + 10 for y in x] for x in s["t"]]))
    if fam == "R":
        add('a = tup(3, "n");', lambda s: s.__setitem__("a", [3, b"n"]))
        add("a.set@1(5);", lambda s: s["a"].__setitem__(0, 5))
        add('b.set@2("q");', lambda s: s["b"].__setitem__(1, b"q"))
        add("a.set@2(b@2);", lambda s: s["a"].__setitem__(1, s["b"][1]))
        add("t.put(0, a);", lambda s: s["t"].__setitem__(0, copy.deepcopy(s["a"])) if s["t"] else "reject")
        add("t.put(1, b);", lambda s: s["t"].__setitem__(1, copy.deepcopy(s["b"])) if len(s["t"]) > 1 else "reject")
        add("t = tab(2, a);", lambda s: s.__setitem__("t", [copy.deepcopy(s["a"]), copy.deepcopy(s["a"])]))
        add("t.concat(a);", lambda s: s["t"].append(copy.deepcopy(s["a"])))
        add("u = tab(1, b);", lambda s: s.__setitem__("u", [copy.deepcopy(s["b"])]))
        add("t.at(0).set@1(7);", lambda s: s["t"][0].__setitem__(0, 7) if s["t"] else "reject")
        add("zz = fmut(a);", lambda s: None)
        add("a = fret(a);", lambda s: s["a"].__setitem__(0, 8))
        add("b = fret(a);", lambda s: s.__setitem__("b", [8, s["a"][1]]))
        add("a = t.at(0);", lambda s: s.__setitem__("a", copy.deepcopy(s["t"][0])) if s["t"] else "reject")
        add("b = u.at(0);", lambda s: s.__setitem__("b", copy.deepcopy(s["u"][0])) if s["u"] else "reject")
        add('forall e in t loop e.set@2("e"); end loop;', lambda s: [x.__setitem__(1, b"e") for x in s["t"]] and None)
        add("a.set@1(a@1 + 1);", lambda s: s["a"].__setitem__(0, s["a"][0] + 1))
    return ops


def to_py(v):
    """parsed dump value -> plain Python (bytes, int, lists)"""
    k = v[0]
    if k in ("s", "x", "i", "d", "b"):
        return v[1]
    if k in ("T", "R"):
        return [to_py(e) for e in v[2]]
    if k == "N":
        return None
    if k == "P":
        return to_py(v[1])
    return v


def model_apply(fam, hist):
    state = init_model(fam)
    table = dict(ops_for(fam))
    for h in hist:
        s2 = copy.deepcopy(state)
        r = table[h](s2)
        if r == "reject":
            return None
        state = copy.deepcopy(s2)
    return state


def alias_level_gen(frontier):
    def gen():
        n = 0
        for fam, hist in frontier:
            for text, fn in ops_for(fam):
                ops = [op_ctx(), op_run(FUNCS[fam]), op_run(INIT[fam] + " zz = 0;")]
                for h in hist:
                    ops.append(op_run(h))
                ops += [op_run(text), op_dump(0, "A,B,T,U")]
                yield Case("a%d" % n, ops, {"kind": "alias", "fam": fam, "hist": hist, "op": text})
                n += 1
    return gen


def check_alias(case, res, vs):
    m = case.meta
    st = res["steps"]
    for s in st[1:-2]:
        if s.get("r") != "ok":
            vs.append(Violation("alias:replay-failed", "replayed history step failed: %s" % s, case))
            return vs, False
    run, dump = st[-2], st[-1].get("vars", {})
    want = model_apply(m["fam"], m["hist"] + [m["op"]])
    if want is None:
        # the model says the operation is out of range here: nothing to compare
        return vs, False
    if run.get("r") != "ok":
        vs.append(Violation("alias:rejected:%s" % m["fam"], "%s after %s was rejected: %s" % (m["op"], m["hist"], run), case))
        return vs, True
    got = {}
    try:
        for name in ("A", "B", "T", "U"):
            got[name.lower()] = to_py(parse_symbol(dump[name])[2])
    except Exception as e:
        vs.append(Violation("alias:dump", "cannot parse dump %r (%s)" % (dump, e), case))
        return vs, False
    for name in ("a", "b", "t", "u"):
        if got[name] != want[name]:
            opk = m["op"].split("(")[0].split("=")[0].strip() if "forall" not in m["op"] else "forall"
            vs.append(Violation("alias:%s:%s" % (m["fam"], name), "after %s then %s: %s is %r, deep-copy model says %r (all: %r)" % (
                m["hist"], m["op"], name, got[name], want[name], got), case))
            break
    return vs, True


def collect_alias(case, res):
    m = case.meta
    if m.get("kind") != "alias" or res.get("st") != "done":
        return []
    st = res["steps"]
    if st[-2].get("r") != "ok":
        return []
    d = st[-1].get("vars", {})
    key = (m["fam"], d.get("A"), d.get("B"), d.get("T"), d.get("U"))
    if sum(len(str(x)) for x in key) > 600:
        return []
    return [(key, m["hist"] + [m["op"]])]


def check(case, res):
    vs = generic_safety(case, res)
    if res.get("st") != "done":
        return vs, True
    if case.meta["kind"] == "pure":
        return check_pure(case, res, vs)
    return check_alias(case, res, vs)


def run(tier):
    t0 = time.time()
    deadline = t0 + (3000 if tier == "thorough" else 420)
    total = Result()
    total.merge(explore("%s-%s-purity" % (PROP, tier), purity_gen(tier), check, chunk=300, deadline=deadline))
    depth = 4 if tier == "thorough" else 3
    frontier = [(fam, []) for fam in INIT]
    seen = set()
    states = len(frontier)
    for lvl in range(1, depth + 1):
        res = explore("%s-%s-alias-level%d" % (PROP, tier, lvl), alias_level_gen(frontier), check, chunk=150, deadline=deadline, collect=collect_alias)
        total.merge(res)
        new = []
        for key in sorted(res.collected, key=repr):
            if key in seen:
                continue
            seen.add(key)
            new.append((key[0], res.collected[key]))
        states += len(new)
        frontier = new
        if res.capped:
            break
        if len(frontier) > 2500:
            total.parts.append({"part": "alias-frontier-bound", "level": lvl, "distinct_states": len(frontier), "expanded": 2500})
            frontier = sorted(frontier, key=lambda f: (len(repr(f[1])), repr(f[1])))[:2500]
    rule = ("(a) every expression of the vocabulary product (builtins, operators, methods, @rank over the boundary value alphabet; impure builtins random/"
            "read/readln/input/getsys/getenv excluded) printed three times by the same node and assigned twice, with a deep dump of all %d variables before "
            "and after; (b) breadth-first search to depth %d over histories of assignment, self-assignment, in-place mutators, container stores, element "
            "access, function calls with mutated parameters, returned parameters and forall writes, for strings, bytes, tables and tuples (%d distinct "
            "states), dump compared with a Python deep-copy model in every state" % (24, depth, states))
    return finish(PROP, tier, total, check, rule, t0, extra={"states": states + total.evaluations, "bfs_states": states},
                  assumptions=["Python deep-copy model of value semantics", "objects are shared by reference by design (covered by C17)"])
