"""C05 — evaluating an expression changes nothing but its target (value semantics).

(a) Purity: every expression of the vocabulary product (every builtin, operator, method and @rank over the value
    alphabet of C01) is evaluated three times by the same node inside a loop in a context holding variables of
    every type; the three printed results must be equal and the deep dump of ALL variables must be unchanged,
    except the receiver of an in-place method.
(b) No aliasing: breadth-first search over histories of assignments, in-place mutations, container stores,
    function calls and forall writes on variables {a, b, t, u} for strings, bytes, tables and tuples; in every
    state the deep dump equals a Python deep-copy model.
"""
import copy
import re
import time

from ..core import Case, Violation, explore, finish, generic_safety, op_ctx, op_run, op_dump, op_out, op_setvar, unhex, Result, run_batch
from ..dumpparse import parse_symbol
from . import c01

PROP = "C05"

IMPURE = ("random", "read(", "readln", "input", "getsys", "getenv", "error")
INPLACE = re.compile(r"^([a-z0-9_]+)\.(put|insert|delete|concat|set@)")


def purity_gen(tier):
    def gen():
        n = 0
        seen = set()
        for e, tag in c01.vocab_exprs(tier):
            if any(w in e for w in IMPURE):
                continue
            if e in seen:
                continue
            seen.add(e)
            ops = [op_ctx(), op_run(c01.PRELUDE)] + [op_setvar(k, v) for k, v in c01.SETVARS]
            ops += [op_dump(), op_run("for kq in 1 to 3 loop print %s; end loop;" % e), op_out(), op_dump(),
                    op_run("for kq in 1 to 2 loop xq = %s; end loop;" % e), op_dump()]
            yield Case("p%d" % n, ops, {"kind": "pure", "e": e, "tag": tag})
            n += 1
    return gen


def check_pure(case, res, vs):
    m = case.meta
    st = res["steps"]
    k = len(st) - 6
    d0, run, out, d1, run2, d2 = st[k], st[k + 1], unhex(st[k + 2].get("out", "")), st[k + 3], st[k + 4], st[k + 5]
    e = m["e"]
    mo = INPLACE.match(e)
    recv = mo.group(1).upper() if mo else None
    chained_inplace = bool(re.search(r"\.(put|insert|delete|concat|set@)", e))
    cls = m["tag"].split(":")[0] + ":" + (m["tag"].split(":")[1] if ":" in m["tag"] else "")

    def cmp_dump(a, b, which):
        va, vb = a.get("vars", {}), b.get("vars", {})
        for name in va:
            if name in ("KQ", "XQ") or name == recv:
                continue
            if va[name] != vb.get(name):
                vs.append(Violation("variable-changed:%s" % cls, "evaluating %s (%s) changed variable %s from %r to %r" % (e, which, name, va[name], vb.get(name)), case))
                return
    if run.get("r") in ("ok", "rerr"):
        cmp_dump(d0, d1, "print x3")
    if run2.get("r") in ("ok", "rerr"):
        cmp_dump(d1, d2, "assign x2")
    def same_vars(a, b):
        va, vb = a.get("vars", {}), b.get("vars", {})
        return all(va[k] == vb.get(k) for k in va if k not in ("KQ", "XQ"))
    # an in-place method changes its receiver between the evaluations; when no variable changed at all (the receiver is
    # a constant or a temporary, or the method changed nothing) the three evaluations ran in the same state
    if run.get("r") == "ok" and (not chained_inplace or same_vars(d0, d1)):
        n = len(out)
        if n % 3 != 0 or out[:n // 3] * 3 != out:
            vs.append(Violation("reevaluation-differs:%s" % cls, "three evaluations of %s by the same node printed %r" % (e, out[:300]), case))
    return vs, run.get("r") == "ok"


# ------------------------------------------------------------------------------------------------
# (b) aliasing BFS
FUNCS = {
    "S": 'function fmut(p) return integer is begin p.concat("M"); return p.count(); end; function fret(p) return string is begin p.concat("f"); return p; end;',
    "X": 'function fmut(p) return integer is begin p.concat(77); return p.count(); end; function fret(p) return bytes is begin p.concat(102); return p; end;',
    "T": 'function fmut(p) return integer is begin p.concat(77); p.put(0, 55); return p.count(); end; function fret(p) return table is begin p.concat(8); return p; end;',
    "R": 'function fmut(p) return integer is begin p.set@1(77); return p.count(); end; function fret(p) return tuple is begin p.set@1(8); return p; end;',
}
INIT = {
    "S": 'a = "abc"; b = "x"; t = tab(2, "t"); u = tup("u", 1);',
    "X": 'a = raw("abc"); b = raw("x"); t = tab(2, raw("t")); u = tup(raw("u"), 1);',
    "T": "a = tab(2, 1); b = tab(1, 9); t = tab(2, tab(1, 0)); u = tab(1, tab(1, 5));",
    "R": 'a = tup(1, "a"); b = tup(9, "b"); t = tab(2, tup(0, "t")); u = tab(1, tup(5, "u"));',
}


def init_model(fam):
    if fam == "S":
        return {"a": b"abc", "b": b"x", "t": [b"t", b"t"], "u": [b"u", 1]}
    if fam == "X":
        return {"a": b"abc", "b": b"x", "t": [b"t", b"t"], "u": [b"u", 1]}
    if fam == "T":
        return {"a": [1, 1], "b": [9], "t": [[0], [0]], "u": [[5]]}
    if fam == "R":
        return {"a": [1, b"a"], "b": [9, b"b"], "t": [[0, b"t"], [0, b"t"]], "u": [[5, b"u"]]}


def ops_for(fam):
    """[(text, model function(state) mutating a deep copy)]"""
    def lit(s):
        return ('"%s"' % s) if fam == "S" else 'raw("%s")' % s
    ops = []

    def add(text, fn):
        ops.append((text, fn))
    add("b = a;", lambda s: s.__setitem__("b", copy.deepcopy(s["a"])))
    add("a = b;", lambda s: s.__setitem__("a", copy.deepcopy(s["b"])))
    add("a = a;", lambda s: None)
    # a host that goes on using the context after a return: the returned value was copied, the variables are what they were
    add("return a;", lambda s: None)
    add("return t;", lambda s: None)
    add("return u;", lambda s: None)
    add("return t.at(0);", lambda s: None if s["t"] else "reject")
    if fam in ("S", "X"):
        add("a = %s;" % lit("new"), lambda s: s.__setitem__("a", b"new"))
        add("a.concat(%s);" % lit("1"), lambda s: s.__setitem__("a", s["a"] + b"1"))
        add("b.concat(%s);" % lit("2"), lambda s: s.__setitem__("b", s["b"] + b"2"))
        add("a.concat(a);", lambda s: s.__setitem__("a", s["a"] + s["a"]))
        add("a.concat(b);", lambda s: s.__setitem__("a", s["a"] + s["b"]))
        add("a.put(0, 65);", lambda s: s.__setitem__("a", b"A" + s["a"][1:]) if len(s["a"]) > 0 else "reject")
        add("b.put(0, 66);", lambda s: s.__setitem__("b", b"B" + s["b"][1:]) if len(s["b"]) > 0 else "reject")
        add("a.delete(0);", lambda s: s.__setitem__("a", s["a"][1:]) if len(s["a"]) > 0 else "reject")
        add("b.insert(0, %s);" % lit("i"), lambda s: s.__setitem__("b", b"i" + s["b"]))
        add("t.put(0, a);", lambda s: s["t"].__setitem__(0, s["a"]) if len(s["t"]) > 0 else "reject")
        add("t.put(1, b);", lambda s: s["t"].__setitem__(1, s["b"]) if len(s["t"]) > 1 else "reject")
        add("t = tab(2, a);", lambda s: s.__setitem__("t", [s["a"], s["a"]]))
        add("t.concat(a);", lambda s: s["t"].append(s["a"]))
        add("t.insert(0, b);", lambda s: s["t"].insert(0, s["b"]))
        add("u = tup(a, 1);", lambda s: s.__setitem__("u", [s["a"], 1]))
        add("u.set@1(b);", lambda s: s["u"].__setitem__(0, s["b"]))
        add("t.at(0).concat(%s);" % lit("z"), lambda s: s["t"].__setitem__(0, s["t"][0] + b"z") if len(s["t"]) > 0 else "reject")
        add("zz = fmut(a);", lambda s: None)
        add("a = fret(a);", lambda s: s.__setitem__("a", s["a"] + b"f"))
        add("b = fret(a);", lambda s: s.__setitem__("b", s["a"] + b"f"))
        add("a = t.at(0);", lambda s: s.__setitem__("a", s["t"][0]) if len(s["t"]) > 0 else "reject")
        add("b = u@1;", lambda s: s.__setitem__("b", s["u"][0]))
        add("forall e in t loop e.concat(%s); end loop;" % lit("e"), lambda s: s.__setitem__("t", [x + b"e" for x in s["t"]]))
        if fam == "S":
            add("a = a + b;", lambda s: s.__setitem__("a", s["a"] + s["b"]))
            add('b = a + "k";', lambda s: s.__setitem__("b", s["a"] + b"k"))
            add("b = upper(a);", lambda s: s.__setitem__("b", s["a"].upper()))
            add("b = substr(a, 1);", lambda s: s.__setitem__("b", s["a"][1:]))
        else:
            add("b = subraw(a, 1);", lambda s: s.__setitem__("b", s["a"][1:]))
    if fam == "T":
        add("a = tab(2, 3);", lambda s: s.__setitem__("a", [3, 3]))
        add("a.concat(1);", lambda s: s["a"].append(1))
        add("b.concat(2);", lambda s: s["b"].append(2))
        add("a.concat(a);", lambda s: s.__setitem__("a", s["a"] + s["a"]))
        add("a.concat(b);", lambda s: s.__setitem__("a", s["a"] + s["b"]))
        add("a.put(0, 5);", lambda s: s["a"].__setitem__(0, 5) if s["a"] else "reject")
        add("b.put(0, 6);", lambda s: s["b"].__setitem__(0, 6) if s["b"] else "reject")
        add("a.delete(0);", lambda s: s["a"].pop(0) if s["a"] else "reject")
        add("b.insert(0, 4);", lambda s: s["b"].insert(0, 4))
        add("t.put(0, a);", lambda s: s["t"].__setitem__(0, copy.deepcopy(s["a"])) if s["t"] else "reject")
        add("t.put(1, b);", lambda s: s["t"].__setitem__(1, copy.deepcopy(s["b"])) if len(s["t"]) > 1 else "reject")
        add("t = tab(2, a);", lambda s: s.__setitem__("t", [copy.deepcopy(s["a"]), copy.deepcopy(s["a"])]))
        add("t.concat(tab(1, a));", lambda s: s["t"].append(copy.deepcopy(s["a"])))
        add("u = tab(1, b);", lambda s: s.__setitem__("u", [copy.deepcopy(s["b"])]))
        add("t.at(0).concat(7);", lambda s: s["t"][0].append(7) if s["t"] else "reject")
        add("t.at(0).put(0, 8);", lambda s: s["t"][0].__setitem__(0, 8) if (s["t"] and s["t"][0]) else "reject")
        add("zz = fmut(a);", lambda s: None)
        add("a = fret(a);", lambda s: s["a"].append(8))
        add("b = fret(a);", lambda s: s.__setitem__("b", s["a"] + [8]))
        add("a = t.at(0);", lambda s: s.__setitem__("a", copy.deepcopy(s["t"][0])) if s["t"] else "reject")
        add("b = u.at(0);", lambda s: s.__setitem__("b", copy.deepcopy(s["u"][0])) if s["u"] else "reject")
        add("forall e in t loop e.concat(3); end loop;", lambda s: [x.append(3) for x in s["t"]] and None)
        add("forall e in a loop e = e + 1; end loop;", lambda s: s.__setitem__("a", [x + 1 for x in s["a"]]))
        add("forall e in t loop forall g in e loop g = g + 10; end loop; end loop;", lambda s: s.__setitem__("t", [[y + 10 for y in x] for x in s["t"]]))
    if fam == "R":
        add('a = tup(3, "n");', lambda s: s.__setitem__("a", [3, b"n"]))
        add("a.set@1(5);", lambda s: s["a"].__setitem__(0, 5))
        add('b.set@2("q");', lambda s: s["b"].__setitem__(1, b"q"))
        add("a.set@2(b@2);", lambda s: s["a"].__setitem__(1, s["b"][1]))
        add("t.put(0, a);", lambda s: s["t"].__setitem__(0, copy.deepcopy(s["a"])) if s["t"] else "reject")
        add("t.put(1, b);", lambda s: s["t"].__setitem__(1, copy.deepcopy(s["b"])) if len(s["t"]) > 1 else "reject")
        add("t = tab(2, a);", lambda s: s.__setitem__("t", [copy.deepcopy(s["a"]), copy.deepcopy(s["a"])]))
        add("t.concat(a);", lambda s: s["t"].append(copy.deepcopy(s["a"])))
        add("u = tab(1, b);", lambda s: s.__setitem__("u", [copy.deepcopy(s["b"])]))
        add("t.at(0).set@1(7);", lambda s: s["t"][0].__setitem__(0, 7) if s["t"] else "reject")
        add("zz = fmut(a);", lambda s: None)
        add("a = fret(a);", lambda s: s["a"].__setitem__(0, 8))
        add("b = fret(a);", lambda s: s.__setitem__("b", [8, s["a"][1]]))
        add("a = t.at(0);", lambda s: s.__setitem__("a", copy.deepcopy(s["t"][0])) if s["t"] else "reject")
        add("b = u.at(0);", lambda s: s.__setitem__("b", copy.deepcopy(s["u"][0])) if s["u"] else "reject")
        add('forall e in t loop e.set@2("e"); end loop;', lambda s: [x.__setitem__(1, b"e") for x in s["t"]] and None)
        add("a.set@1(a@1 + 1);", lambda s: s["a"].__setitem__(0, s["a"][0] + 1))
    return ops


def to_py(v):
    """parsed dump value -> plain Python (bytes, int, lists)"""
    k = v[0]
    if k in ("s", "x", "i", "d", "b"):
        return v[1]
    if k in ("T", "R"):
        return [to_py(e) for e in v[2]]
    if k == "N":
        return None
    if k == "P":
        return to_py(v[1])
    return v


def model_apply(fam, hist):
    state = init_model(fam)
    table = dict(ops_for(fam))
    for h in hist:
        s2 = copy.deepcopy(state)
        r = table[h](s2)
        if r == "reject":
            return None
        state = copy.deepcopy(s2)
    return state


def alias_level_gen(frontier):
    def gen():
        n = 0
        for fam, hist in frontier:
            for text, fn in ops_for(fam):
                ops = [op_ctx(), op_run(FUNCS[fam]), op_run(INIT[fam] + " zz = 0;")]
                for h in hist:
                    ops.append(op_run(h))
                ops += [op_run(text), op_dump(0, "A,B,T,U")]
                yield Case("a%d" % n, ops, {"kind": "alias", "fam": fam, "hist": hist, "op": text})
                n += 1
    return gen


def check_alias(case, res, vs):
    m = case.meta
    st = res["steps"]
    for s in st[1:-2]:
        if s.get("r") != "ok":
            vs.append(Violation("alias:replay-failed", "replayed history step failed: %s" % s, case))
            return vs, False
    run, dump = st[-2], st[-1].get("vars", {})
    want = model_apply(m["fam"], m["hist"] + [m["op"]])
    if want is None:
        # the model says the operation is out of range here: nothing to compare
        return vs, False
    if run.get("r") != "ok":
        vs.append(Violation("alias:rejected:%s" % m["fam"], "%s after %s was rejected: %s" % (m["op"], m["hist"], run), case))
        return vs, True
    got = {}
    try:
        for name in ("A", "B", "T", "U"):
            got[name.lower()] = to_py(parse_symbol(dump[name])[2])
    except Exception as e:
        vs.append(Violation("alias:dump", "cannot parse dump %r (%s)" % (dump, e), case))
        return vs, False
    for name in ("a", "b", "t", "u"):
        if got[name] != want[name]:
            opk = m["op"].split("(")[0].split("=")[0].strip() if "forall" not in m["op"] else "forall"
            vs.append(Violation("alias:%s:%s" % (m["fam"], name), "after %s then %s: %s is %r, deep-copy model says %r (all: %r)" % (
                m["hist"], m["op"], name, got[name], want[name], got), case))
            break
    return vs, True


def collect_alias(case, res):
    m = case.meta
    if m.get("kind") != "alias" or res.get("st") != "done":
        return []
    st = res["steps"]
    if st[-2].get("r") != "ok":
        return []
    d = st[-1].get("vars", {})
    key = (m["fam"], d.get("A"), d.get("B"), d.get("T"), d.get("U"))
    if sum(len(str(x)) for x in key) > 600:
        return []
    return [(key, m["hist"] + [m["op"]])]


# ------------------------------------------------------------------------------------------------
# (c) operand kinds: every typed signature with every argument supplied as constant, variable, temporary, table
#     element, tuple item or function result of the SAME value; the result must equal the all-constant form
#     evaluated in the same context, no variable may change (except the root of an in-place receiver), and
#     re-evaluation in an unchanged state must repeat the result.
KVALS = {
    "S": ['"a,b,c"', '","', '"-"'],
    "I": ["2", "1", "3"],
    "D": ["2.5", "0.5", "4.0"],
    "B": ["true", "false", "true"],
    "X": ['raw("a,b")', 'raw(",")', 'raw("-")'],
    # tables as arguments (of tab, put, insert, concat and as receivers): no tuple can hold one, so there is no "item" kind for them
    "T": ["tab(2, 7)", "tab(1, 8)", "tab(3, 9)"],
}
KTMP = {"S": '(%s + "")', "I": "(%s + 0)", "D": "(%s * 1.0)", "B": "(%s and true)", "X": "subraw(%s, 0)", "T": "ftid(%s)"}
KNULL = {"S": "str()", "I": "int()", "D": "num()", "B": "bool()", "X": "raw()", "T": "tab()"}
KTYPE = {"S": "string", "I": "integer", "D": "decimal", "B": "boolean", "X": "bytes", "T": "table"}
KINDS = ("const", "var", "tmp", "elem", "item", "fret", "param")


def kprelude():
    out = []
    for t, vals in KVALS.items():
        for i, v in enumerate(vals):
            out.append("k%s%d = %s;" % (t.lower(), i, v))
        out.append("kt%s = tab(0, %s);" % (t.lower(), vals[0]))
        for i, v in enumerate(vals):
            out.append("kt%s.concat(%s);" % (t.lower(), v))
        if t != "T":
            out.append("kr%s = tup(%s);" % (t.lower(), ", ".join(vals)))
        for i, v in enumerate(vals):
            out.append("function f%s%d() return %s is begin return %s; end;" % (t.lower(), i, KTYPE[t], v))
        # a null of the type, as a variable
        out.append("kn%s = %s;" % (t.lower(), KNULL[t]))
    out.append("function ftid(x) return table is begin return x; end;")
    return " ".join(out)


def karg(t, slot, kind):
    v = KVALS[t][slot]
    tl = t.lower()
    if kind == "const":
        return v
    if kind == "var":
        return "k%s%d" % (tl, slot)
    if kind == "tmp":
        return KTMP[t] % ("k%s%d" % (tl, slot))
    if kind == "elem":
        return "kt%s.at(%d)" % (tl, slot)
    if kind == "item":
        return "kr%s@%d" % (tl, slot + 1)
    if kind == "fret":
        return "f%s%d()" % (tl, slot)
    if kind == "nconst":
        return KNULL[t]
    if kind == "nvar":
        return "kn%s" % tl
    raise ValueError(kind)


# (format, argument types, in-place receiver?)
KSIGS = [
    ("replace(%s, %s, %s)", "SSS"), ("substr(%s, %s, %s)", "SII"), ("substr(%s, %s)", "SI"), ("strpos(%s, %s)", "SS"),
    ("strpos(%s, %s, %s)", "SSI"), ("lsubstr(%s, %s)", "SI"), ("rsubstr(%s, %s)", "SI"), ("tokenize(%s, %s)", "SS"),
    ("tokenize(%s, %s, %s)", "SSB"), ("upper(%s)", "S"), ("lower(%s)", "S"), ("trim(%s)", "S"), ("ltrim(%s)", "S"), ("rtrim(%s)", "S"),
    ("strlen(%s)", "S"), ("str(%s)", "S"), ("str(%s)", "I"), ("str(%s)", "D"), ("str(%s)", "B"), ("str(%s)", "X"), ("num(%s)", "I"), ("int(%s)", "D"),
    ("hash(%s)", "S"), ("hash(%s, %s)", "SI"), ("b64enc(%s)", "X"), ("raw(%s)", "S"), ("raw(%s, %s)", "II"), ("hex(%s)", "I"), ("hex(%s, %s)", "II"),
    ("chr(%s)", "I"), ("subraw(%s, %s, %s)", "XII"), ("subraw(%s, %s)", "XI"), ("clamp(%s, %s, %s)", "III"), ("clamp(%s, %s, %s)", "DDD"),
    ("max(%s, %s)", "II"), ("min(%s, %s)", "DD"), ("max(%s, %s)", "ID"), ("pow(%s, %s)", "DD"), ("pow(%s, %s)", "II"), ("mod(%s, %s)", "II"),
    ("atan2(%s, %s)", "DD"), ("round(%s, %s)", "DI"), ("round(%s)", "D"), ("abs(%s)", "I"), ("abs(%s)", "D"), ("sign(%s)", "D"), ("floor(%s)", "D"),
    ("ceil(%s)", "D"), ("sqrt(%s)", "D"), ("exp(%s)", "D"), ("bool(%s)", "B"), ("bool(%s)", "I"), ("isnull(%s)", "S"), ("typeof(%s)", "S"),
    ("tab(%s, %s)", "IS"), ("tab(%s, %s)", "II"), ("tab(%s, %s)", "IX"), ("tup(%s, %s)", "SI"), ("tup(%s, %s, %s)", "XDB"),
    ("tab(2, %s).concat(%s)", "SS"), ("tup(%s, 1).set@1(%s)", "SS"), ("tab(2, %s).put(0, %s)", "II"),
    ("%s + %s", "SS"), ("%s + %s", "II"), ("%s - %s", "II"), ("%s * %s", "II"), ("%s / %s", "II"), ("%s %% %s", "II"), ("%s ** %s", "II"),
    ("%s + %s", "DD"), ("%s - %s", "DD"), ("%s * %s", "DD"), ("%s / %s", "DD"), ("%s + %s", "ID"), ("%s * %s", "DI"), ("%s ** %s", "DD"),
    ("%s & %s", "II"), ("%s | %s", "II"), ("%s ^ %s", "II"), ("%s << %s", "II"), ("%s >> %s", "II"), ("- %s", "I"), ("- %s", "D"), ("~ %s", "I"),
    ("not %s", "B"), ("%s and %s", "BB"), ("%s or %s", "BB"), ("%s xor %s", "BB"),
    ("%s == %s", "SS"), ("%s != %s", "SS"), ("%s < %s", "SS"), ("%s >= %s", "SS"), ("%s == %s", "II"), ("%s < %s", "II"), ("%s <= %s", "DD"),
    ("%s > %s", "ID"), ("%s == %s", "XX"), ("%s != %s", "BB"), ("%s matches %s", "SS"),
    ("%s + %s + %s", "SSS"), ("%s + %s * %s", "III"), ("(%s + %s) * %s", "DDD"), ("%s - (%s - %s)", "III"),
    ("%s.at(%s)", "SI"), ("%s.at(%s)", "XI"), ("%s.count()", "S"), ("%s.count()", "X"),
    ("%s.concat(%s)", "SS"), ("%s.concat(%s)", "SI"), ("%s.concat(%s)", "XX"), ("%s.concat(%s)", "XI"), ("%s.put(%s, %s)", "SII"),
    ("%s.insert(%s, %s)", "SIS"), ("%s.insert(%s, %s)", "XIX"), ("%s.delete(%s)", "SI"), ("%s.delete(%s)", "XI"),
    # table arguments stored into / appended to temporaries and variables, and tables as receivers
    ("tab(2, %s)", "T"), ("tab(2, tab(1, 0)).put(1, %s)", "T"), ("tab(1, tab(1, 0)).insert(0, %s)", "T"), ("tab(1, tab(1, 0)).concat(%s)", "T"),
    ("tab(0, 0).concat(%s)", "T"), ("tab(1, 5).insert(0, %s)", "T"), ("tab(2, tab(1, 0)).put(%s, %s)", "IT"), ("ftid(%s).count()", "T"),
    ("tab(2, %s).at(1).at(0)", "T"), ("tab(2, tab(1, 0)).put(1, %s).at(1).count()", "T"), ("tab(1, 5).insert(0, %s).at(0)", "T"),
    ("%s.count()", "T"), ("%s.at(%s)", "TI"), ("%s.concat(%s)", "TI"), ("%s.concat(%s)", "TT"), ("%s.put(%s, %s)", "TII"), ("%s.insert(%s, %s)", "TIT"),
    ("%s.insert(%s, %s)", "TII"), ("%s.delete(%s)", "TI"),
]
KINPLACE = re.compile(r"^%s\.(concat|put|insert|delete)\(")


def kinds_gen(tier):
    kinds = ("const", "var", "tmp", "elem", "item", "fret")
    pre = kprelude()

    def gen():
        n = 0
        for fmt, types in KSIGS:
            arity = len(types)
            inplace = bool(KINPLACE.match(fmt))
            ref = fmt % tuple(karg(t, i, "const") for i, t in enumerate(types))
            for combo in __import__("itertools").product(kinds, repeat=arity):
                if any(t == "T" and k == "item" for t, k in zip(types, combo)):
                    continue
                e = fmt % tuple(karg(t, i, k) for i, (t, k) in enumerate(zip(types, combo)))
                root = None
                if inplace and combo[0] in ("var", "elem", "item"):
                    tl = types[0].lower()
                    root = {"var": "K%s0" % tl.upper(), "elem": "KT%s" % tl.upper(), "item": "KR%s" % tl.upper()}[combo[0]]
                variants = [(e, ref, "")]
                if not inplace and "T" not in types:
                    # an in-place method chained on the result works on the result, never on an operand the result was taken from
                    variants.append(('(%s).concat("!")' % e, '(%s).concat("!")' % ref, "+concat"))
                for e2, ref2, suffix in variants:
                    ops = [op_ctx(), op_run(pre), op_dump(), op_run("print %s;" % ref2), op_out(), op_dump(),
                           op_run("print %s;" % e2), op_out(), op_dump(),
                           op_run("for kq in 1 to 2 loop print %s; end loop;" % e2), op_out(), op_dump()]
                    yield Case("k%d" % n, ops, {"kind": "kinds", "e": e2, "ref": ref2, "root": root, "sig": fmt % tuple(types) + suffix, "combo": "/".join(combo)})
                    n += 1
            # one argument null (as constant, as variable) next to stored values in the other places: the answer (often null) must not be
            # written into one of them
            if arity >= 2 and not inplace:
                for pnull in range(arity):
                    for nk in ("nconst", "nvar"):
                        for ok in ("var", "elem", "item"):
                            if ok == "item" and "T" in types:
                                continue
                            combo = tuple(nk if i == pnull else ok for i in range(arity))
                            e = fmt % tuple(karg(t, i, k) for i, (t, k) in enumerate(zip(types, combo)))
                            ref = fmt % tuple(karg(t, i, "nconst" if i == pnull else "const") for i, t in enumerate(types))
                            ops = [op_ctx(), op_run(pre), op_dump(), op_run("print %s;" % ref), op_out(), op_dump(),
                                   op_run("print %s;" % e), op_out(), op_dump(),
                                   op_run("for kq in 1 to 2 loop print %s; end loop;" % e), op_out(), op_dump()]
                            yield Case("k%d" % n, ops, {"kind": "kinds", "e": e, "ref": ref, "root": None, "sig": fmt % tuple(types) + ":null@%d" % pnull, "combo": "/".join(combo)})
                            n += 1
    return gen


def check_kinds(case, res, vs):
    m = case.meta
    st = res["steps"]
    if st[1].get("r") != "ok":
        vs.append(Violation("kinds:prelude", "prelude failed: %s" % st[1], case))
        return vs, False
    d0, r_ref, o_ref, d1, r1, o1, d2, r2, o2, d3 = st[2:12]
    o_ref, o1, o2 = unhex(o_ref.get("out", "")), unhex(o1.get("out", "")), unhex(o2.get("out", ""))
    cls = "%s:%s" % (m["sig"], m["combo"])

    def changed(a, b, allow=None):
        va, vb = a.get("vars", {}), b.get("vars", {})
        return [k for k in va if k != "KQ" and k != allow and va[k] != vb.get(k)]
    ch = changed(d0, d1)
    if ch:
        vs.append(Violation("kinds:constant-form-changed-variable:%s" % m["sig"], "print %s changed %s" % (m["ref"], ch), case))
        return vs, True
    if r_ref.get("r") != r1.get("r"):
        vs.append(Violation("kinds:outcome-differs:%s" % cls, "%s -> %s but constant form %s -> %s" % (m["e"], r1, m["ref"], r_ref), case))
        return vs, True
    ch = changed(d1, d2, m["root"]) + changed(d2, d3, m["root"])
    if ch:
        vs.append(Violation("kinds:variable-changed:%s" % cls, "evaluating %s changed %s: %r -> %r -> %r" % (
            m["e"], ch, d1["vars"].get(ch[0]), d2["vars"].get(ch[0]), d3["vars"].get(ch[0])), case))
        return vs, True
    if r1.get("r") != "ok":
        return vs, True
    if o1 != o_ref:
        vs.append(Violation("kinds:result-differs:%s" % cls, "%s printed %r, constant form %s printed %r" % (m["e"], o1, m["ref"], o_ref), case))
        return vs, True
    if r2.get("r") == "ok" and not changed(d1, d3) and o2 != o1 + o1:
        vs.append(Violation("kinds:reevaluation-differs:%s" % cls, "%s printed %r then %r in an unchanged state" % (m["e"], o1, o2), case))
    return vs, True


# ------------------------------------------------------------------------------------------------
# (d) storage locations x readers: a location that was just written (plain variable, forall iterator, for control variable,
#     function parameter, function local, table element, tuple item), then read twice as operand of an operator or
#     builtin that may reuse temporaries, still holds the written value.
LOC_VALS = {"I": ("20", "(4 * 5)", "ksrc", 20), "S": ('"id"', '("i" + "d")', "ksrc", b"id"), "D": ("2.5", "(5.0 / 2)", "ksrc", 2.5),
            "X": ('raw("id")', 'subraw(raw("xid"), 1)', "ksrc", b"id")}
READERS = {
    "I": ["%s / 2", "%s * 3", "%s + 1", "- %s", "2 - %s", "max(%s, 1)", "str(%s)", "%s + 0.5", "hex(%s)", "pow(%s, 2)", "mod(%s, 7)", "%s == 20", "chr(%s)",
          "tab(1, %s)", "tup(%s, 1)", "clamp(%s, 0, 5)", "%s << 1", "abs(%s)", "%s * 1.5"],
    "S": ['%s + "-1"', '"-" + %s', "upper(%s)", "trim(%s)", 'replace(%s, "i" + "", "o")', "substr(%s, 1)", "lsubstr(%s, 1)", 'strpos(%s, "d")', "strlen(%s)",
          "raw(%s)", '%s == "id"', "tab(1, %s)", "tup(%s, 1)", "%s.at(0)", "hash(%s)", 'tokenize(%s, "d")', '%s + "a" + "b"'],
    "D": ["%s / 2", "%s * 3", "%s + 1", "- %s", "round(%s)", "floor(%s)", "str(%s)", "max(%s, 1.0)", "pow(%s, 2)", "%s < 3", "tab(1, %s)", "sqrt(%s)", "abs(%s)"],
    "X": ["%s.at(0)", "subraw(%s, 1)", "b64enc(%s)", "str(%s)", "%s == raw(\"id\")", "tab(1, %s)", "%s.count()"],
}


def loc_programs(t, src, reader):
    """[(name, program)]: each program prints the location after two reads; `src` is the written expression"""
    r = reader % "e"
    rp = reader % "p"
    rl = reader % "l"
    rv = reader % "v"
    seed = LOC_VALS[t][0]
    other = {"I": "1", "S": '"x"', "D": "0.5", "X": 'raw("x")'}[t]
    # a function body cannot see the caller's ksrc: it copies from a local of its own
    fsrc, fpre = (src, "") if src != "ksrc" else ("lsrc", "lsrc = %s; " % seed)
    out = [
        ("var", "v = %s; z1 = %s; z2 = %s; print v;" % (src, rv, rv)),
        ("var-retyped", "v = null; v = %s; z1 = %s; z2 = %s; print v;" % (src, rv, rv)),
        ("forall-iter", "w = tab(2, %s); forall e in w loop e = %s; z1 = %s; z2 = %s; end loop; print w.at(0); print w.at(1);" % (other, src, r, r)),
        ("forall-iter-read-only", "w = tab(2, %s); forall e in w loop z1 = %s; z2 = %s; end loop; print w.at(0); print w.at(1);" % (seed, r, r)),
        ("forall-iter-desc", "w = tab(2, %s); forall e in w desc loop e = %s; z1 = %s; end loop; print w.at(0); print w.at(1);" % (other, src, r)),
        ("param", "function g(p) return boolean is begin z1 = %s; z2 = %s; print p; return true; end; zz = g(%s);" % (rp, rp, src)),
        ("param-assigned", "function g(p) return boolean is begin %sp = %s; z1 = %s; z2 = %s; print p; return true; end; zz = g(%s);" % (fpre, fsrc, rp, rp, other)),
        ("local", "function g() return boolean is begin %sl = %s; z1 = %s; z2 = %s; print l; return true; end; zz = g();" % (fpre, fsrc, rl, rl)),
        ("caller-arg", "function g(p) return boolean is begin z1 = %s; p = %s; return true; end; v = %s; zz = g(v); print v;" % (rp, other, src)),
        ("table-elem", "w = tab(2, %s); w.put(0, %s); z1 = %s; z2 = %s; print w.at(0); print w.at(1);" % (other, src, reader % "w.at(0)", reader % "w.at(0)")),
        ("tuple-item", "u = tup(%s, 1); u.set@1(%s); z1 = %s; z2 = %s; print u@1;" % (other, src, reader % "u@1", reader % "u@1")),
        ("returned", "function g() return %s is begin %sl = %s; return l; end; v = g(); z1 = %s; z2 = %s; print v; print g();" % (KTYPE[t], fpre, fsrc, rv, rv)),
    ]
    if t == "I":
        out.append(("for-var", "for e in 20 to 21 loop z1 = %s; z2 = %s; print e; end loop;" % (r, r)))
    return out


LOC_OTHER = {"I": "1", "S": '"x"', "D": "0.5", "X": 'raw("x")'}


def locs_gen(tier):
    def gen():
        n = 0
        for t, (c, tmp, var, _) in LOC_VALS.items():
            for skind, src in (("const", c), ("tmp", tmp), ("var", var)):
                for reader in READERS[t]:
                    for name, prog in loc_programs(t, src, reader):
                        ops = [op_ctx(), op_run("ksrc = %s;" % c), op_run("print %s;" % c), op_out(), op_run("print %s;" % LOC_OTHER[t]), op_out(),
                               op_run(prog), op_out(), op_run("print ksrc;"), op_out()]
                        yield Case("l%d" % n, ops, {"kind": "locs", "t": t, "loc": name, "src": skind, "reader": reader, "prog": prog})
                        n += 1
    return gen


def check_locs(case, res, vs):
    m = case.meta
    st = res["steps"]
    want, other = unhex(st[3].get("out", "")), unhex(st[5].get("out", ""))
    run, out, out2 = st[6], unhex(st[7].get("out", "")), unhex(st[9].get("out", ""))
    t = m["t"]
    cls = "%s:%s:%s" % (t, m["loc"], m["src"])
    if st[2].get("r") != "ok" or st[4].get("r") != "ok" or not want or not other:
        vs.append(Violation("locs:reference-failed", "reference prints failed: %s %s" % (st[2], st[4]), case))
        return vs, False
    if run.get("r") != "ok":
        vs.append(Violation("locs:failed:%s" % cls, "%s -> %s" % (m["prog"], run), case))
        return vs, True
    if m["loc"] == "for-var":
        exp = b"20\n21\n"
    elif m["loc"] in ("forall-iter", "forall-iter-read-only", "forall-iter-desc", "returned"):
        exp = want + want
    elif m["loc"] == "table-elem":
        exp = want + other
    else:
        exp = want
    if out != exp:
        vs.append(Violation("locs:value-changed:%s" % cls, "%s printed %r, expected %r" % (m["prog"], out, exp), case))
        return vs, True
    if out2 != want:
        vs.append(Violation("locs:source-changed:%s" % cls, "after %s the source variable prints %r, expected %r" % (m["prog"], out2, want), case))
    return vs, True


def check(case, res):
    vs = generic_safety(case, res)
    if res.get("st") != "done":
        return vs, True
    if case.meta["kind"] == "pure":
        return check_pure(case, res, vs)
    if case.meta["kind"] == "kinds":
        return check_kinds(case, res, vs)
    if case.meta["kind"] == "locs":
        return check_locs(case, res, vs)
    return check_alias(case, res, vs)


def run(tier):
    t0 = time.time()
    deadline = t0 + (3000 if tier == "thorough" else 420)
    total = Result()
    total.merge(explore("%s-%s-purity" % (PROP, tier), purity_gen(tier), check, chunk=300, deadline=deadline))
    total.merge(explore("%s-%s-kinds" % (PROP, tier), kinds_gen(tier), check, chunk=300, deadline=deadline))
    total.merge(explore("%s-%s-locs" % (PROP, tier), locs_gen(tier), check, chunk=300, deadline=deadline))
    from ..core import explore_gcc
    total.merge(explore_gcc("%s-%s-kinds" % (PROP, tier), kinds_gen(tier), check, chunk=300, deadline=deadline))
    total.merge(explore_gcc("%s-%s-locs" % (PROP, tier), locs_gen(tier), check, chunk=300, deadline=deadline))
    depth = 4 if tier == "thorough" else 3
    frontier = [(fam, []) for fam in INIT]
    seen = set()
    states = len(frontier)
    for lvl in range(1, depth + 1):
        res = explore("%s-%s-alias-level%d" % (PROP, tier, lvl), alias_level_gen(frontier), check, chunk=150, deadline=deadline, collect=collect_alias)
        total.merge(res)
        new = []
        for key in sorted(res.collected, key=repr):
            if key in seen:
                continue
            seen.add(key)
            new.append((key[0], res.collected[key]))
        states += len(new)
        frontier = new
        if res.capped:
            break
        if len(frontier) > 2500:
            total.parts.append({"part": "alias-frontier-bound", "level": lvl, "distinct_states": len(frontier), "expanded": 2500})
            frontier = sorted(frontier, key=lambda f: (len(repr(f[1])), repr(f[1])))[:2500]
    rule = ("(a) every expression of the vocabulary product (builtins, operators, methods, @rank over the boundary value alphabet; impure builtins random/"
            "read/readln/input/getsys/getenv excluded) printed three times by the same node and assigned twice, with a deep dump of all %d variables before "
            "and after; (b) breadth-first search to depth %d over histories of assignment, self-assignment, in-place mutators, container stores, element "
            "access, function calls with mutated parameters, returned parameters and forall writes, for strings, bytes, tables and tuples (%d distinct "
            "states), dump compared with a Python deep-copy model in every state" % (24, depth, states))
    return finish(PROP, tier, total, check, rule, t0, extra={"states": states + total.evaluations, "bfs_states": states},
                  assumptions=["Python deep-copy model of value semantics", "objects are shared by reference by design (covered by C17)"])
