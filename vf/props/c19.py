"""C19 — the bloc command reports outcome, output and arguments faithfully.

Programs of every outcome class (prints and succeeds; compile error at a known position; unhandled runtime error;
handled error; return of boolean / integer / decimal / string / tuple / complex / null / table / bytes / nothing;
output before a failure; reads $ARG) x argument vectors (all vectors of <= 1 (quick) / <= 2 (thorough) items over
"", "a b", "\"q\"", "é", "-x", "--out=z", "-", "-e", "-i", "--parse") x modes {file, - (stdin), --out=F file, -e expr, -i fed on stdin}.
Oracle: the in-process run of the same program through the library with $ARG set identically: selected output
byte-equal (stdout or the --out file, the other empty), $ARG in order, returned value printed by the documented
rule, exit status 0 iff compiled and ran without unhandled error, otherwise a message on stderr with (line:column)
equal to the library's position; the -i transcript contains the same printed lines in order, also after errors
(no residue of an interrupted loop), and save/load reproduce the session.
"""
import concurrent.futures
import itertools
import os
import re
import subprocess
import time

from .. import build
from ..core import Case, Violation, finish, generic_safety, op_ctx, op_run, op_dump, op_out, op_setvar, run_batch, unhex, hx, Result, NWORK

PROP = "C19"

PROGRAMS = [
    ("print", 'print "hello"; print 1 + 2;'),
    ("args", 'print $ARG.count(); forall a in $ARG loop print "[" a "]"; end loop;'),
    ("args-index", 'if $ARG.count() > 0 then print $ARG.at(0) "|" $ARG.at($ARG.count() - 1); else print "none"; end if;'),
    ("compile-error", 'print "before";\nx = 1 +;\nprint "after";'),
    ("compile-error-2", 'a = 1;\n\n  b = a ++ nosuch(;'),
    ("runtime-error", 'print "before"; x = 1 / 0; print "after";'),
    ("raise", 'print "a"; raise my_error; print "b";'),
    ("handled", 'begin x = 1 / 0; exception when divide_by_zero then print "handled" error@1; end; print "end";'),
    ("return-bool", "return 1 < 2;"),
    ("return-int", 'print "x"; return 42;'),
    ("return-neg", "return -7;"),
    ("return-dec", "return 2.5;"),
    ("return-dec17", "return 0.30000000000000004;"),
    ("return-str", 'return "text";'),
    ("return-empty-str", 'return "";'),
    # text is data, never a format
    ("return-str-percent", 'return "25%";'),
    ("return-str-format", 'print "100%"; return "%s %d %% %5$x %n";'),
    ("return-tuple-format", 'put "%d"; return tup("%s%s", 1);'),
    ("return-str-backslash", 'return "a\\nb\\\\%c";'),
    ("return-tuple", 'return tup(1, "a", 2.5);'),
    ("return-complex", "return 1 + 2 * ii;"),
    ("return-null", "return null;"),
    ("return-typed-null", "return int();"),
    # a null is printed as null whatever its type
    ("return-null-table", "t:table; return t;"), ("return-null-table2", "return tab(int(), 1);"), ("return-null-string", "return str();"), ("return-null-bytes", "return raw();"),
    ("return-null-tuple", "return tup();"), ("return-null-table-of-tuples", 'return tab(int(), tup(1, "a"));'), ("return-null-element", "t = tab(2, tab(1, 1)); t.put(0, null); return t.at(0);"),
    ("return-table", "return tab(2, 1);"),
    ("return-bytes", 'return raw("ab");'),
    ("return-nothing", 'print "r"; return;'),
    ("no-return", 'x = 1;'),
    ("output-then-fail", 'put "partial"; for i in 1 to 3 loop print i; if i == 2 then raise stop_here; end if; end loop;'),
    ("function", 'function f(n) return integer is begin if n < 2 then return 1; end if; return n * f(n - 1); end; print f(5); return f(3);'),
    ("loop-return", 'for i in 1 to 5 loop if i == 3 then return i; end if; print i; end loop; print "not reached";'),
    ("stderr-free", 'trace false; print "t";'),
    ("multi-line", 'a = 1;\nb = 2;\n// comment\n/* block\ncomment */ print a + b;\n'),
    ("shebang", '#!/usr/bin/bloc\nprint "sb";\n'),
    ("empty", ''),
    ("only-comment", '// nothing\n'),
    ("error-in-function", 'function g(a) return integer is begin return 1 / a; end; print "go"; print g(0);'),
    ("recursion-limit", 'function r(n) return integer is begin return r(n + 1); end; print r(1);'),
]
# every interesting source byte at every kind of place: the file and stdin readers must hand the library the bytes of the file
for _b in (0x01, 0x09, 0x0b, 0x0c, 0x1a, 0x1b, 0x7f, 0x80, 0xa0, 0xc3, 0xfe, 0xff):
    _c = bytes([_b])
    PROGRAMS.append(("byte-%02x-in-string" % _b, b'print "a' + _c + b'b"; print "next";\n'))
    PROGRAMS.append(("byte-%02x-string-line-start" % _b, b'print "a\n' + _c + b'b";\nprint "next";\n'))
    PROGRAMS.append(("byte-%02x-in-comment" % _b, b'print "x"; // c' + _c + b'd\nprint "next";\n'))
    PROGRAMS.append(("byte-%02x-block-comment-line-start" % _b, b'print "x"; /* c\n' + _c + b' d */\nprint "next";\n'))
    PROGRAMS.append(("byte-%02x-last-byte" % _b, b'print "x"; #' + _c))
    PROGRAMS.append(("byte-%02x-bare" % _b, b'print "x";\n' + _c + b'\nprint "next";\n'))
# compile errors at a known place: the offending token starts at a (line, column) computed here from the text (lines count from 1,
# columns from 1, a tab is one column, comments and strings before the token may span lines)
POS_EXPECT = {}
_prefixes = [("none", ""), ("line", "a = 1;\n"), ("block-comment", "/* c1\n c2 */ "), ("inline-comment", "a = 1; /* x */ "), ("line-comment", "// line\n"),
             ("multi-line-string", 's = "l1\nl2";\n'), ("tab", "\t  "), ("blank-lines", "a = 1;\n\n\n"), ("two-comments", "/* a */ /* b\n\n*/\n  "),
             ("directive-line", "# hash\n"), ("nested-text", "for i in 1 to 2 loop\n  /* c */ print i;\n")]
_errors = [("undefined", "zz = nosuch9;", "nosuch9"), ("operator", "zz = 1 +;", "+;"), ("paren", 'print "a" );', ");")]
for _pn, _pt in _prefixes:
    for _en, _et, _mk in _errors:
        _text = _pt + _et + ("\nend loop;" if _pn == "nested-text" else "") + "\n"
        _off = len(_pt) + _et.index(_mk) + (1 if _mk in ("+;",) else 0)
        _line = _text.count("\n", 0, _off) + 1
        _colm = _off - (_text.rfind("\n", 0, _off) + 1) + 1
        _name = "pos-%s-%s" % (_pn, _en)
        PROGRAMS.append((_name, _text))
        POS_EXPECT[_name] = (_line, _colm)
# every option word of the tool (and the conventional ones it does not have) is an ordinary argument once it follows the program
ARGS = ["", "a b", '"q"', "é", "-x", "--out=z", "-", "-e", "-i", "--parse", "--", "--help", "-h", "--cli", "--expr", "--color", "--debug", "--out", "=", "--version"]


def tb(text):
    return text if isinstance(text, bytes) else text.encode("utf-8")

EXPRS = ["1 + 2", '"a" + "b"', "2.5 * 2", "1 < 2", "null", "tup(1, \"x\")", "1 + 2 * ii", "1 / 0", "1 +", "nosuch", "tab(2, 1)", 'raw("x")', "int()",
         "9223372036854775807 + 1", 'upper("abc")', "3 ** 39", '"50%"', '"%s%d%n"', '"%%"+"%5$s"', 'tup("%s",1)',
         # expressions that begin with a minus sign (they are not options)
         "-1 + 2", "-1", "- 1", "-(2 + 3)", "-2.5 * 2", "-ii", "-e", "-x + 1"]
# words that follow a complete expression are an error, not something to ignore
EXPRS += ["tab(int(),1)", "str()", "tup()", "raw()", "bool()"]
EXPRS_EXTRA = ["1 2", "1 + 2 3", '"a" "b"', "1 )", "tup(1) 2", "1 print 2"]

INTERACTIVE = [
    ("i-print", ['print "hello";', "a = 1 + 2;", "print a;"]),
    ("i-loop", ["for i in 1 to 2 loop", "print i;", "end loop;", 'print "done";']),
    ("i-error-then-ok", ['print "one";', "x = 1 / 0;", 'print "two";']),
    ("i-parse-error-then-ok", ['print "one";', "x = 1 +;", 'print "two";']),
    ("i-while-cond-error", ["z = 0;", "while 1 / z == 1 loop", 'print "x";', "end loop;", 'print "next";', "break;", "for i in 1 to 3 loop", "print i;", "end loop;", 'print "end";']),
    ("i-for-body-error", ["for i in 1 to 3 loop", "print i;", "y = 1 / 0;", "end loop;", "break;", "n = 0;", "while n < 3 loop", "n = n + 1;", "print n;", "end loop;", 'print "end";']),
    ("i-forall-body-error", ["t = tab(2, 1);", "forall e in t loop", "raise boom;", "end loop;", "t.concat(5);", "print t.count();", 'e = "s";', "print e;"]),
    ("i-function", ["function f(a) return integer is", "begin", "return a * 2;", "end;", "print f(4);"]),
    ("i-return", ["return;", 'print "after";']),
    # variables whose names are also console commands
    ("i-command-name-run", ['print "a";', "run = 3;", "print run;"]),
    ("i-command-name-list", ["list = 5;", "print list + 1;"]),
    ("i-command-name-dump", ["dump = 5;", "print dump + 1;"]),
    ("i-command-name-call", ["function run(x) return integer is", "begin", "return x * 2;", "end;", 'print "OUT " run(4);', "run(4);", 'print "after";']),
    ("i-command-name-call-list", ["function list(x) return integer is", "begin", "return x;", "end;", "list(3);", "zz = list(4);", "print zz;"]),
    ("i-command-name-call-help", ["function help(x) return integer is", "begin", "return x;", "end;", "help(3);", "print help(5);"]),
] + [
    # every console command name as a variable, with every statement form that can begin with a variable
    ("i-command-word-%s-%s" % (_w, _f), _lines) for _w in ("exit", "clear", "list", "load", "save", "run", "desc", "dump", "help", "copyright", "license")
    for _f, _lines in (("assign", ["%s = 3;" % _w, "print %s + 1;" % _w]), ("assign2", ["%s := 4;" % _w, "print %s + 1;" % _w]),
                       ("declare", ["%s:integer;" % _w, "print isnull(%s);" % _w]), ("declare-spaced", ["%s : string;" % _w, "print typeof(%s);" % _w]),
                       ("member", ['zq = "s"; %s = zq;' % _w, '%s.concat("x");' % _w, "print %s;" % _w]),
                       ("spaced-assign", ["%s   =   5;" % _w, "print %s;" % _w]), ("chained", ["%s = 1, print %s;" % (_w, _w)]))
] + [
    # physical lines longer than the reader's buffer
    ("i-long-line-%d" % _l, ['x = "' + "a" * _l + '";', "print strlen(x);", 'y = 1 + ' + " " * _l + '2; print y;']) for _l in (900, 1015, 1016, 1017, 1018, 1019, 1020, 1021, 1022, 1023, 1024, 2040, 2046, 3100)
] + [
    ("i-begin-error", ["begin", "for i in 1 to 2 loop", "raise inner;", "end loop;", "exception when others then", 'print "caught";', "end;", "for k in 1 to 2 loop", "print k;", "end loop;"]),
]

SAVELOAD = [
    ("s-basic", ["a = 0.30000000000000004;", 'b = "q\\"x";', "for i in 1 to 2 loop", "a = a + i;", "end loop;", "print a b;"]),
    ("s-func", ["function f(n) return integer is", "begin", "return n + 1;", "end;", "c = f(1) * (2 + 3);", "print c;"]),
]


def exe_env():
    build.build_tree("asan")
    exe = os.path.join(build.tree_dir("asan"), "apps", "bloc")
    env = build.run_env("asan")
    env["ASAN_OPTIONS"] = "detect_leaks=0:abort_on_error=1"
    env["UBSAN_OPTIONS"] = "halt_on_error=0:print_stacktrace=0"
    env["TERM"] = "dumb"
    env.pop("HOME", None)
    env["HOME"] = os.path.join(build.BUILD, "scratch")
    return exe, env


def wdir():
    d = os.path.join(build.BUILD, "scratch", "c19")
    os.makedirs(d, exist_ok=True)
    return d


def run_cli(job):
    exe, env, argv, stdin, outfile = job
    try:
        p = subprocess.run([exe] + argv, input=stdin, stdout=subprocess.PIPE, stderr=subprocess.PIPE, env=env, timeout=30, cwd=wdir())
        rc, out, err = p.returncode, p.stdout, p.stderr
    except subprocess.TimeoutExpired as e:
        rc, out, err = "timeout", e.stdout or b"", e.stderr or b""
    filedata = None
    if outfile:
        try:
            with open(outfile, "rb") as f:
                filedata = f.read()
            os.unlink(outfile)
        except OSError:
            filedata = None
    return rc, out, err, filedata


def reference(programs, argvecs):
    """in-process runs: (program index, arg vector index) -> (result step, stdout)"""
    cases = []
    for pi, (name, text) in enumerate(programs):
        for ai, av in enumerate(argvecs):
            if name.startswith(("byte-", "pos-")) and av:
                continue
            ops = [op_ctx(0, True)]
            build_arg = '$ARG = tab(0, "");'
            for k, a in enumerate(av):
                ops.append(op_setvar("ZA%d" % k, "s" + a.encode("utf-8").hex()))
                build_arg += " $ARG.concat(za%d);" % k
            ops += [op_run(build_arg), op_run(text), op_out(0)]
            cases.append(Case("r%d_%d" % (pi, ai), ops, {"pi": pi, "ai": ai}))
    res = {}
    for i in range(0, len(cases), 300):
        chunk = cases[i:i + 300]
        for c, r in zip(chunk, run_batch(chunk)):
            st = r.get("steps", [])
            if r.get("st") != "done" or len(st) < 2:
                res[(c.meta["pi"], c.meta["ai"])] = ({"r": "crash"}, b"")
            else:
                res[(c.meta["pi"], c.meta["ai"])] = (st[-2], unhex(st[-1].get("out", "")))
    return res


def render_return(ret):
    """The documented printing rule for a returned value, from the in-process dump; None when not printable / unknown."""
    if ret is None:
        return b""
    if ret.startswith("N("):
        return b"null"
    k = ret[0]
    if k == "b":
        return b"TRUE" if ret[1] == "1" else b"FALSE"
    if k == "i":
        return ret[1:].encode()
    if k == "d":
        v = float.fromhex(ret[1:]) if ret[1:] not in ("nan", "inf", "-inf") else float(ret[1:])
        return ("%.16g" % v).encode()
    if k == "s":
        return bytes.fromhex(ret[1:]).split(b"\x00")[0]
    if k in ("T", "x"):
        return b""                  # tables and bytes are not printed
    return None                     # tuple / complex: compared with the library's own rendering below


class Collector:
    def __init__(self):
        self.res = Result()

    def viol(self, key, msg, detail):
        e = self.res.viols.setdefault(key, {"count": 0, "first": None})
        e["count"] += 1
        if e["first"] is None:
            e["first"] = (Violation(key, msg, None, detail), {})

    def count(self, outcome):
        self.res.evaluations += 1
        self.res.transitions += 1
        self.res.nontrivial += 1
        self.res.digests.add(repr(outcome).encode())


def strip_interactive(out):
    """Printed results of an interactive transcript: prompts with echo, Elapsed lines, banner and blank lines removed."""
    lines = []
    text = out.decode("utf-8", "replace")
    text = re.sub(r"\x1b\[[0-9;]*m", "", text)
    for ln in text.split("\n"):
        if ln.startswith(">>> ") or ln.startswith("... ") or ln in (">>> ", "... ", ">>>", "..."):
            continue
        if ln.startswith("Elapsed:") or ln.strip() == "" or ln.startswith("BLOC") or ln.startswith("Type \"help\"") or "compiled on" in ln:
            continue
        lines.append(ln)
    return lines



def interactive_pass(col, exe, env, scenarios, tag="interactive"):
    """Feed each scenario (list of physical lines) to `bloc -i`; the printed results must equal those of the library running
    the same statements one at a time with its own error cleanup."""
    ijobs = []
    for name, lines in scenarios:
        ijobs.append((exe, env, ["-i"], ("\n".join(lines) + "\n").encode(), None))
    with concurrent.futures.ThreadPoolExecutor(max_workers=NWORK) as ex:
        ires = list(ex.map(run_cli, ijobs))
    icases = [Case("i%d" % i, [op_ctx(0, True)] + [op_run(ln, route="istmt2") for ln in stmts_of(lines)] + [op_out(0)], {"name": name})
              for i, (name, lines) in enumerate(scenarios)]
    iref = []
    for i in range(0, len(icases), 200):
        iref += run_batch(icases[i:i + 200])
    for (name, lines), rr, (rc, out, err, _) in zip(scenarios, iref, ires):
        col.count(("-i", name, rc))
        got = [l for l in strip_interactive(out) if not l.startswith("Error")]
        lib_out = unhex(rr["steps"][-1].get("out", "")).decode("utf-8", "replace") if rr.get("st") == "done" and rr.get("steps") else "<crash>"
        want = [l for l in lib_out.split("\n") if l.strip() != ""]
        det = {"lines": lines, "exit": rc, "stdout": out[:1500].decode("latin-1"), "stderr": err[:300].decode("latin-1"), "library_stdout": lib_out}
        cls = name.split("#")[0]
        if rc not in (0, 1):
            col.viol("%s:exit:%s" % (tag, cls), "bloc -i (%s): exit %s" % (name, rc), det)
        elif got != want:
            col.viol("%s:transcript:%s" % (tag, cls), "bloc -i (%s): printed results %r, the library running the same statements prints %r" % (name, got, want), det)


def run(tier):
    t0 = time.time()
    exe, env = exe_env()
    build.ensure("asan")
    col = Collector()
    maxargs = 2 if tier == "thorough" else 1
    argvecs = [()]
    for l in range(1, maxargs + 1):
        argvecs += list(itertools.product(ARGS, repeat=l))
    ref = reference(PROGRAMS, argvecs)
    # the library's rendering of tuple / complex results (print adds a newline)
    jobs, meta = [], []
    d = wdir()
    for pi, (name, text) in enumerate(PROGRAMS):
        path = os.path.join(d, "p%d.bloc" % pi)
        with open(path, "wb") as f:
            f.write(tb(text))
        for ai, av in enumerate(argvecs):
            if name.startswith(("byte-", "pos-")) and av:
                continue
            for mode in ("file", "stdin", "out"):
                if tier != "thorough" and mode != "file" and len(av) == 1 and ai % 2:
                    continue
                if mode == "file":
                    argv, stdin, outfile = [path] + list(av), None, None
                elif mode == "stdin":
                    argv, stdin, outfile = ["-"] + list(av), tb(text), None
                else:
                    outfile = os.path.join(d, "o=%d=%d.txt" % (pi, ai))      # the value of an option is everything after its own equal sign
                    argv, stdin = ["--out=" + outfile, path] + list(av), None
                jobs.append((exe, env, argv, stdin, outfile))
                meta.append((pi, ai, mode))
    with concurrent.futures.ThreadPoolExecutor(max_workers=NWORK) as ex:
        results = list(ex.map(run_cli, jobs))
    for (pi, ai, mode), (rc, out, err, filedata) in zip(meta, results):
        name, text = PROGRAMS[pi]
        av = argvecs[ai]
        step, rout = ref[(pi, ai)]
        det = {"program": tb(text).decode("latin-1"), "args": list(av), "mode": mode, "exit": rc, "stdout": out[:400].decode("latin-1"), "stderr": err[:400].decode("latin-1"),
               "library": {k: v for k, v in step.items() if k in ("r", "msg", "line", "col", "ret", "no")}, "library_stdout": rout[:400].decode("latin-1")}
        col.count((name, mode, rc, step.get("r")))
        where = "program %s, args %r, mode %s" % (name, list(av), mode)
        if rc == "timeout" or (isinstance(rc, int) and rc < 0) or rc not in (0, 1):
            col.viol("exit-status:%s:%s" % (name, rc), "%s: exit status %s" % (where, rc), det)
            continue
        sel = filedata if mode == "out" else out
        other = out if mode == "out" else None
        if sel is None:
            col.viol("out-routing:file-missing:%s" % name, "%s: the file named by --out was not written; standard output %r" % (where, out[:200]), det)
            continue
        r = step.get("r")
        if r == "ok":
            want = rout
            rr = render_return(step.get("ret"))
            if rr is None:
                if not sel.startswith(rout):
                    col.viol("output:%s" % name, "%s: output %r does not start with the library's output %r" % (where, sel[:200], rout[:200]), det)
            else:
                want = rout + rr
                if sel != want:
                    col.viol("output:%s" % name, "%s: selected output %r, the library prints %r and returns %r" % (where, sel[:300] if sel is not None else None, rout[:300], step.get("ret")), det)
            if rc != 0:
                col.viol("exit-status:%s:success-reported-as-failure" % name, "%s: exit %s although the program ran without error; stderr %r" % (where, rc, err[:200]), det)
            if err.strip():
                col.viol("stderr-on-success:%s" % name, "%s: stderr %r on a successful run" % (where, err[:200]), det)
        elif r == "perr":
            if rc != 1:
                col.viol("exit-status:%s:compile-error-exit-0" % name, "%s: exit %s for a compile error" % (where, rc), det)
            want = "Error (%s:%s): %s" % (step.get("line"), step.get("col"), step.get("msg"))
            if want.encode() not in err:
                col.viol("compile-error-message:%s" % name, "%s: stderr %r, expected %r" % (where, err[:300], want), det)
            if name in POS_EXPECT and ("Error (%d:%d):" % POS_EXPECT[name]).encode() not in err:
                col.viol("compile-error-position:%s" % name.split("-")[1], "%s: stderr %r, the offending token starts at line %d column %d" % (
                    where, err[:200], POS_EXPECT[name][0], POS_EXPECT[name][1]), det)
            if sel:
                col.viol("output:%s" % name, "%s: output %r although the program did not compile" % (where, sel[:200]), det)
        elif r == "rerr":
            if rc != 1:
                col.viol("exit-status:%s:runtime-error-exit-0" % name, "%s: exit %s for an unhandled runtime error" % (where, rc), det)
            want = "Error: %s" % step.get("msg")
            if want.encode() not in err:
                col.viol("runtime-error-message:%s" % name, "%s: stderr %r, expected %r" % (where, err[:300], want), det)
            if sel != rout:
                col.viol("output:%s" % name, "%s: output before the failure %r, the library printed %r" % (where, sel[:300] if sel is not None else None, rout[:300]), det)
        else:
            col.viol("reference:%s" % name, "%s: the in-process reference run gave %s" % (where, step), det)
        if mode == "out" and other:
            col.viol("out-routing:%s" % name, "%s: standard output %r although --out selects a file" % (where, other[:200]), det)
    # $ARG holds every word after the program operand, in order - also words equal to the operand itself or to each other
    ptext = 'print $ARG.count(); forall a in $ARG loop print "[" a "]"; end loop;'
    ppath = os.path.join(d, "pa.bloc")
    with open(ppath, "wb") as f:
        f.write(tb(ptext))
    pjobs, pmeta = [], []
    for mode, operand in (("file", ppath), ("stdin", "-"), ("file-relative", "pa.bloc")):
        vocab = [operand, "a", os.path.basename(ppath), "-"]
        vecs = [v for l in (1, 2, 3) for v in itertools.product(vocab, repeat=l) if operand in v or len(set(v)) < len(v)]
        for v in vecs:
            pjobs.append((exe, env, [operand] + list(v), tb(ptext) if mode == "stdin" else None, None))
            pmeta.append((mode, operand, v))
    with concurrent.futures.ThreadPoolExecutor(max_workers=NWORK) as ex:
        pres = list(ex.map(run_cli, pjobs))
    for (mode, operand, v), (rc, out, err, _) in zip(pmeta, pres):
        want = ("%d\n" % len(v) + "".join("[%s]\n" % a for a in v)).encode()
        col.count(("arg-repeat", mode, len(v), rc, out == want))
        if rc != 0 or out != want:
            col.viol("args:repeated-word:%s" % mode, "bloc %s %s: exit %s, $ARG printed as %r, expected %r" % (operand, " ".join(v), rc, out[:200], want),
                     {"argv": [operand] + list(v), "stdout": out[:300].decode("latin-1"), "stderr": err[:300].decode("latin-1")})
    # -e expressions
    ecases = [Case("e%d" % i, [op_ctx(0, True), "expr 0 %s" % hx(e + " ;"), op_run("print %s;" % e), op_out(0)], {"e": e}) for i, e in enumerate(EXPRS)]
    eref = run_batch(ecases)
    # three ways to hand over the same expression: one word per token, one word in all, and with the value sent to a file
    eforms = [("words", lambda e: (["-e"] + e.split(" "), None)), ("one-word", lambda e: (["-e", e], None)),
              ("out-file", lambda e: (["--out=" + os.path.join(d, "e=out=.txt"), "-e"] + e.split(" "), os.path.join(d, "e=out=.txt")))]
    for fname, mk in eforms[1:]:
        for e, rr in zip(EXPRS, eref):
            argv, outfile = mk(e)
            rc, out, err, filedata = run_cli((exe, env, argv, None, outfile))
            st = rr.get("steps", [{}, {}, {}, {}])
            ex_step = st[1]
            col.count(("-e", fname, e, rc))
            det = {"argv": argv, "exit": rc, "stdout": out[:300].decode("latin-1"), "stderr": err[:300].decode("latin-1"), "library": ex_step}
            sel = filedata if outfile else out
            if rc not in (0, 1):
                col.viol("exit-status:-e:%s" % rc, "bloc %s: exit %s" % (" ".join(argv), rc), det)
            elif ex_step.get("r") == "ok":
                want = render_return(ex_step.get("val"))
                if want is None:
                    want = unhex(st[3].get("out", "")).rstrip(b"\n") if len(st) > 3 else b""
                if rc != 0 or sel != want or (outfile and out):
                    col.viol("output:-e:%s" % fname, "bloc %s: exit %s, selected output %r, standard output %r; the value is %r" % (" ".join(argv), rc, sel, out[:100], ex_step.get("val")), det)
            elif rc != 1 or not err.strip():
                col.viol("exit-status:-e:error-not-reported", "bloc %s: exit %s stderr %r although the library reports %s" % (" ".join(argv), rc, err[:200], ex_step), det)
    for e in EXPRS_EXTRA:
        for argv in (["-e"] + e.split(" "), ["-e", e]):
            rc, out, err, _ = run_cli((exe, env, argv, None, None))
            col.count(("-e", "extra", e, rc))
            if rc != 1 or out.strip() or not err.strip():
                col.viol("-e:extra-input-accepted", "bloc %s: exit %s, stdout %r, stderr %r; the words after the expression must be reported" % (" ".join(argv), rc, out[:100], err[:100]),
                         {"argv": argv, "exit": rc, "stdout": out[:300].decode("latin-1"), "stderr": err[:300].decode("latin-1")})
    ejobs = [(exe, env, ["-e"] + e.split(" "), None, None) for e in EXPRS]
    with concurrent.futures.ThreadPoolExecutor(max_workers=NWORK) as ex:
        eres = list(ex.map(run_cli, ejobs))
    for e, rr, (rc, out, err, _) in zip(EXPRS, eref, eres):
        st = rr.get("steps", [{}, {}, {}, {}])
        ex_step = st[1]
        col.count(("-e", e, rc))
        det = {"expr": e, "exit": rc, "stdout": out[:300].decode("latin-1"), "stderr": err[:300].decode("latin-1"), "library": ex_step}
        if rc not in (0, 1):
            col.viol("exit-status:-e:%s" % rc, "bloc -e %s: exit %s" % (e, rc), det)
            continue
        if ex_step.get("r") == "ok":
            want = render_return(ex_step.get("val"))
            if rc != 0:
                col.viol("exit-status:-e:success-reported-as-failure", "bloc -e %s: exit %s, stderr %r" % (e, rc, err[:200]), det)
            if want is not None and out != want:
                col.viol("output:-e", "bloc -e %s prints %r, the value is %r" % (e, out[:200], ex_step.get("val")), det)
            if want is None:
                lib = unhex(st[3].get("out", "")).rstrip(b"\n") if len(st) > 3 else b""
                if out != lib:
                    col.viol("output:-e", "bloc -e %s prints %r, the library renders %r" % (e, out[:200], lib[:200]), det)
        else:
            if rc != 1 or not err.strip():
                col.viol("exit-status:-e:error-not-reported", "bloc -e %s: exit %s stderr %r although the library reports %s" % (e, rc, err[:200], ex_step), det)
    # a program file that cannot be read, an output file that cannot be written: message on standard error, failure status,
    # nothing on standard output
    for argv, what in ((["/nonexistent/dir/prog.bloc"], "missing-program"), ([os.path.join(d, "no-such-file.bloc"), "a"], "missing-program-args"),
                       (["--out=/nonexistent/dir/out.txt", os.path.join(d, "p0.bloc")], "unwritable-out")):
        rc, out, err, _ = run_cli((exe, env, argv, None, None))
        col.count(("nofile", what, rc))
        det = {"argv": argv, "exit": rc, "stdout": out[:300].decode("latin-1"), "stderr": err[:300].decode("latin-1")}
        if rc in (0, "timeout") or (isinstance(rc, int) and (rc < 0 or rc > 1)):
            col.viol("nofile:exit:%s" % what, "bloc %s: exit %s" % (" ".join(argv), rc), det)
        if out.strip() or not err.strip():
            col.viol("nofile:message:%s" % what, "bloc %s: the error message belongs on standard error; stdout %r stderr %r" % (" ".join(argv), out[:120], err[:120]), det)
    interactive_pass(col, exe, env, INTERACTIVE)
    # save / load: the hand-written sessions and the statement programs of the C12 corpus, one physical line each
    from . import c12
    sessions = list(SAVELOAD)
    for i, prog in enumerate(c12.MISC):
        if "return" in prog or "trace" in prog:
            continue          # `return` ends the session before save
        sessions.append(("misc%d" % i, [prog]))
    for name, lines in sessions:
        path = os.path.join(d, "saved-%s.bloc" % name)
        if os.path.exists(path):
            os.unlink(path)
        feed = "\n".join(lines) + '\nsave "%s"\n' % path
        rc, out, err, _ = run_cli((exe, env, ["-i"], feed.encode(), None))
        first = [l for l in strip_interactive(out) if not l.startswith("Error")]
        col.count(("save", name, rc))
        det = {"lines": lines, "stdout": out[:1500].decode("latin-1")}
        if not os.path.exists(path):
            col.viol("save:no-file:%s" % name, "save did not write %s" % path, det)
            continue
        saved = open(path, "rb").read()
        det["saved"] = saved.decode("latin-1")
        rc2, out2, err2, _ = run_cli((exe, env, [path], None, None))
        col.count(("load", name, rc2))
        printed = [l for l in out2.decode("utf-8", "replace").split("\n") if l.strip() != ""]
        det["reloaded_stdout"] = out2.decode("latin-1")
        det["reloaded_stderr"] = err2.decode("latin-1")
        if rc2 != 0 or printed != [l for l in first if not l.startswith("Saved") and "saved" not in l.lower()]:
            col.viol("save:reload-differs:%s" % name, "the saved session prints %r (exit %s) when run again, the session printed %r" % (printed, rc2, first), det)
        rc3, out3, err3, _ = run_cli((exe, env, ["-i"], ('load "%s"\nsave "%s.2"\n' % (path, path)).encode(), None))
        p2 = path + ".2"
        if os.path.exists(p2):
            again = open(p2, "rb").read()
            os.unlink(p2)
            if again != saved:
                col.viol("save:not-a-fixpoint:%s" % name, "saving a loaded session gives a different text: %r vs %r" % (again[:300], saved[:300]), det)
        os.unlink(path)
    res = col.res
    res.samples = [{"program": PROGRAMS[1][1], "args": ["a b", "-x"], "mode": "file"}, {"expr": EXPRS[0]}, {"interactive": INTERACTIVE[4][1]}]
    res.parts = [{"part": "programs x args x modes", "runs": len(jobs)}, {"part": "-e", "runs": len(EXPRS)}, {"part": "-i", "runs": len(INTERACTIVE)}, {"part": "save/load", "runs": len(sessions) * 3}]
    rule = ("%d programs x %d argument vectors (all vectors of <=%d items over 7 strings) x {file, stdin, --out}; %d expressions through -e; %d interactive "
            "transcripts incl. errors inside loop headers and bodies followed by further statements; %d save/load sessions; each compared with the in-process "
            "run of the same text through the library" % (len(PROGRAMS), len(argvecs), maxargs, len(EXPRS), len(INTERACTIVE), len(sessions)))

    def nocheck(c, r):
        return [], True
    rc = finish(PROP, tier, res, nocheck, rule, t0, assumptions=["the in-process run through the library is the reference", "prompts, echo, banner and Elapsed lines are removed from interactive transcripts"])
    import shutil
    shutil.rmtree(wdir(), ignore_errors=True)
    return rc


def stmts_of(lines):
    """group physical lines into complete statements for the reference route (one interactive statement may span lines)"""
    out, cur, depth, need_begin = [], [], 0, False
    for ln in lines:
        cur.append(ln)
        w = ln.strip().split(" ")[0]
        if w == "function":
            need_begin = True
        if w in ("for", "while", "forall", "begin", "if"):
            depth += 1
            if w == "begin":
                need_begin = False
        t = ln.strip()
        if t.startswith("end loop;") or t.startswith("end if;") or t == "end;":
            depth -= 1
        if depth <= 0 and not need_begin:
            out.append("\n".join(cur))
            cur, depth = [], 0
    if cur:
        out.append("\n".join(cur))
    return out
