"""C15 — the C API honours its ownership and result contract for every call sequence.

A state-machine model of handles (two contexts, symbols A and B, three caller-owned values, two library-owned
pointers, an expression, an executable) drives the real C API through harness/vdrv.cpp: all sequences of <= 2
calls over the full alphabet and <= 3 over the core alphabet (quick), all triples and a state-deduplicated
breadth-first search to depth 4 (thorough). Every sequence starts from a context holding A = 1, B = "x" and
ends with an epilogue freeing everything the caller owns, followed by a LeakSanitizer check. Oracle: every return
value and out-parameter equals the model's; typed accessors succeed exactly on the matching type and give NULL
data for a null; failed calls give NULL/false with a non-zero errno and a non-empty text; library-owned pointers
are re-read right before the next invalidating call of their context (ASan catches early death); no leak.
"""
import copy
import itertools
import time

from ..core import Case, Violation, explore, finish, generic_safety, hx, unhex, Result
from .c03 import parse_val

PROP = "C15"

MAJOR = {"b": 1, "i": 2, "d": 3, "s": 4, "x": 6, "c": 9}
ACC = {"b": "boolean", "i": "integer", "d": "numeric", "s": "literal", "x": "tabchar", "c": "imaginary"}

# executable texts: name -> text
EXES = {
    "inc": "a = a + 1;",
    "app": 'b = b + "!";',
    "ret": "return a * 2;",
    "rets": 'return b + "r";',
    "div": "x = 1 / (a - a);",
    "fun": "function f(p) return integer is begin return p + 1; end;",
    "call": "a = f(a);",
    "bind": "a = f(1 / (a - a));",
    "loop": "for i in 1 to 3 loop a = a + i; end loop;",
    "print": "print a b;",
    "raise": "raise my_err;",
    "handled": "begin raise e1; exception when e1 then a = a + 10; end;",
    "tab": "t = tab(2, a); r = tup(a, b);",
    "rehandle": "begin raise e1; exception when e1 then raise e2; end;",
    "falldiv": "t = tab(2, a); forall e in t loop x = 1 / (a - a); end loop;",
    "useb": "b2 = b; b3 = b; print b b2 b3;",
    "usey": "y2 = y; y3 = y; print y.count() y2.count() y3.count();",
    "usea": "a2 = a + 1; a3 = a + 1; print a a2 a3;",
    "retnone": "return;",
    "rint": "r = 5;",
    "rset": 'r.set@2("k");',
    "useout": "for i in 1 to 3 loop out.concat(i * i); end loop; print out.count() out.at(2);",
}
BAD = {"syn": "a = ;", "eof": "a = (1 +", "undef": "zz9 = nosuch + 1;", "str": 'a = "unterminated;', "deep": "for i in 1 to 2 loop a = ; end loop;",
       # the error inside every kind of block (each has its own clean-up path)
       "deepw": "while a < 0 loop a = ; end loop;", "deepfa": "forall e9 in tab(1, 1) loop a = ; end loop;", "deepif": "if a > 0 then a = ; end if;",
       "deepelse": "if a > 0 then a = 1; else a = ; end if;", "deepb": "begin a = ; exception when others then a = 1; end;",
       "deeph": "begin a = 1; exception when others then a = ; end;", "deepfn": "function g9() return integer is begin a9 = ; return 1; end;",
       "deepnest": "for i in 1 to 2 loop while a < 0 loop if a > 0 then a = ; end if; end loop; end loop;", "emptyw": "while a < 0 loop end loop;"}
EXPRS = {"add": "a + 1", "str": 'b + "?"', "div": "1 / (a - a)", "tab": "tab(2, a)", "tup": "tup(a, b)", "const": "40 + 2",
         # plain constants: their value lives in the expression node, the pointer handed out must not
         "lit": '"a constant string of some length"', "int": "42", "nul": "null", "dec": "2.5", "boo": "true", "big": "9223372036854775807"}
BADEXPR = {"syn": "a +", "undef": "nosuch * 2"}


class Ctx:
    def __init__(self):
        self.vars = {}
        self.syms = {}         # harness symbol slot -> name
        self.stop = False
        self.returned = None
        self.funcs = set()
        self.trace = False     # None: not specified (after purge)


class Model:
    def __init__(self):
        self.ctx = {0: None, 1: None}
        self.vals = {0: None, 1: None, 2: None}
        self.exe = None        # (name, owner ctx)
        self.clock = 0
        self.exe_at = -1
        self.clone_at = -1
        self.exp = None        # (name, ctx)
        self.lib = {0: None, 1: None}

    def key(self):
        def cv(c):
            if c is None:
                return None
            return (tuple(sorted((k, repr(v)) for k, v in c.vars.items())), c.stop, repr(c.returned), tuple(sorted(c.funcs)), tuple(sorted(c.syms.items())), c.trace)
        return repr((cv(self.ctx[0]), cv(self.ctx[1]), [repr(v) for v in self.vals.values()], self.exe, self.exp, [repr(v) for v in self.lib.values()]))


def invalidate(m, c):
    """a call that parses, runs, evaluates, registers or purges in context c ends the guaranteed life of its library-owned pointers"""
    for l in m.lib:
        if m.lib[l] is not None and m.lib[l][1] == c:
            m.lib[l] = None


def drop_ctx_refs(m, c):
    for l in m.lib:
        if m.lib[l] is not None and m.lib[l][1] == c:
            m.lib[l] = None


def add1(v):
    return ("i", v[1] + 1) if v[0] == "i" else v


# --- operations: each returns (driver ops, expectation checker) or None when not enabled -------------------
def reread_ops(m, c):
    """library-owned pointers of context c are re-read right before an invalidating call"""
    ops, exps = [], []
    for l in sorted(m.lib):
        ref = m.lib[l]
        if ref is not None and ref[1] == c:
            ops.append("k.inspect l %d" % l)
            exps.append(("lib", current(m, ref)))
    return ops, exps


def current(m, ref):
    if ref[0] == "slot":
        return m.ctx[ref[1]].vars.get(ref[2])
    return ref[2]


def expect_val(v):
    return ("val", v)


OPS = []


def op(name, core=False):
    def deco(fn):
        OPS.append((name, fn, core))
        return fn
    return deco


def mk_new(slot, spec, val):
    def fn(m):
        ops = []
        if m.vals[slot] is not None:
            ops.append("k.freeval %d" % slot)
        ops.append("k.new %d %s" % (slot, spec))
        m.vals[slot] = val
        return ops, [None] * (len(ops) - 1) + [expect_val(val)]
    return fn


for nm, slot, spec, val, core in [
        ("new-int", 0, "i7", ("i", 7), True), ("new-nullint", 0, "null:2", ("N", "i"), True), ("new-lit", 1, "s" + b"hi".hex(), ("s", b"hi"), True),
        ("new-litnull", 1, "snull", ("N", "s"), False), ("new-tab", 2, "x" + b"\x00\x01".hex(), ("x", b"\x00\x01"), False), ("new-tabnull", 2, "xnull", ("N", "x"), False),
        ("new-num", 2, "d0x1.4p+1", ("d", 2.5), False), ("new-bool", 2, "b1", ("b", True), False), ("new-imag", 2, "c1.5,-2", ("c", (1.5, -2.0)), False),
        ("new-undef", 2, "null:0", ("N", "u"), False), ("new-min", 0, "i-9223372036854775808", ("i", -2 ** 63), False)]:
    OPS.append((nm, mk_new(slot, spec, val), core))


def mk_store(c, name, slot):
    def fn(m):
        cx = m.ctx[c]
        v = m.vals[slot]
        if cx is None or v is None:
            return None
        # A holds integers, B strings (keeps the script texts type-correct)
        if name == "A" and v[0] not in ("i",) and v != ("N", "i"):
            return None
        if name == "B" and v[0] != "s":
            return None
        sl = {"A": 0, "B": 1}[name]
        ops = []
        if cx.syms.get(sl) != name:
            ops.append("k.find %d %d %s" % (c, sl, name))
            cx.syms[sl] = name
        if name not in cx.vars:
            return None
        ops.append("k.store %d %d %d" % (c, sl, slot))
        cx.vars[name] = v
        keep = v if v[0] in ("i", "b", "d") else None     # scalars are copied; dynamic payloads are moved (content unspecified)
        if keep is None:
            m.vals[slot] = ("moved",)
        return ops, [("ptr", 1)] * (len(ops) - 1) + [("store", keep)]
    return fn


for c in (0, 1):
    OPS.append(("store-A-c%d" % c, mk_store(c, "A", 0), c == 0))
    OPS.append(("store-B-c%d" % c, mk_store(c, "B", 1), c == 0))


def mk_load(c, name, l):
    def fn(m):
        cx = m.ctx[c]
        if cx is None or name not in cx.vars:
            return None
        sl = {"A": 0, "B": 1, "T": 2, "R": 3, "Y": 2, "OUT": 3}[name]
        ops = []
        if cx.syms.get(sl) != name:
            ops.append("k.find %d %d %s" % (c, sl, name))
            cx.syms[sl] = name
        ops.append("k.load %d %d %d" % (c, sl, l))
        m.lib[l] = ("slot", c, name)
        return ops, [("ptr", 1)] * (len(ops) - 1) + [expect_val(cx.vars[name])]
    return fn


OPS.append(("load-A-c0", mk_load(0, "A", 0), True))
OPS.append(("load-B-c0", mk_load(0, "B", 1), True))
OPS.append(("load-A-c1", mk_load(1, "A", 0), False))
OPS.append(("load-T-c0", mk_load(0, "T", 1), False))
OPS.append(("load-R-c0", mk_load(0, "R", 1), False))
OPS.append(("load-Y-c0", mk_load(0, "Y", 1), False))


def op_inspect_v(slot):
    def fn(m):
        v = m.vals[slot]
        if v is None:
            return None
        return ["k.inspect v %d" % slot], [expect_val(v) if v != ("moved",) else ("moved", None)]
    return fn


for s in (0, 1, 2):
    OPS.append(("inspect-v%d" % s, op_inspect_v(s), s == 0))


def op_freeval(slot):
    def fn(m):
        if m.vals[slot] is None:
            return None
        m.vals[slot] = None
        return ["k.freeval %d" % slot], [None]
    return fn


OPS.append(("freeval-0", op_freeval(0), False))
OPS.append(("freeval-1", op_freeval(1), False))


def mk_assign(slot, spec, fnval):
    def fn(m):
        v = m.vals[slot]
        if v is None or v == ("moved",):
            return None
        ok, nv = fnval(v)
        if ok:
            m.vals[slot] = nv
        return ["k.assign %d %s" % (slot, spec)], [("assign", ok, m.vals[slot])]
    return fn


def _tk(v):
    return v[1] if v[0] == "N" else v[0]


OPS.append(("assign-lit-v1", mk_assign(1, "lit:" + b"new".hex(), lambda v: (_tk(v) in ("s", "u"), ("s", b"new"))), False))
OPS.append(("assign-lit-v0", mk_assign(0, "lit:" + b"new".hex(), lambda v: (_tk(v) in ("s", "u"), ("s", b"new"))), False))
OPS.append(("assign-litnull-v1", mk_assign(1, "litnull", lambda v: (_tk(v) in ("s", "u"), ("N", "s"))), False))
OPS.append(("assign-tab-v2", mk_assign(2, "tab:" + b"zz".hex(), lambda v: (_tk(v) in ("x", "u"), ("x", b"zz"))), False))
OPS.append(("assign-null-v0", mk_assign(0, "null", lambda v: (True, ("N", _tk(v)))), False))
OPS.append(("assign-null-v1", mk_assign(1, "null", lambda v: (True, ("N", _tk(v)))), False))


def mk_assign_var(c, name, spec, fnval):
    """the host updates a variable of the context in place: load its value pointer, assign through it, read it back"""
    def fn(m):
        cx = m.ctx[c]
        if cx is None or name not in cx.vars:
            return None
        v = cx.vars[name]
        if v[0] in ("T", "R"):
            return None
        load = mk_load(c, name, 1)(m)
        ok, nv = fnval(v)
        if ok:
            cx.vars[name] = nv
        return load[0] + ["k.assign l1 %s" % spec], load[1] + [("assign", ok, cx.vars[name])]
    return fn


OPS.append(("assignvar-lit-B", mk_assign_var(0, "B", "lit:" + b"new".hex(), lambda v: (_tk(v) in ("s", "u"), ("s", b"new"))), True))
OPS.append(("assignvar-tab-Y", mk_assign_var(0, "Y", "tab:" + b"zzz".hex(), lambda v: (_tk(v) in ("x", "u"), ("x", b"zzz"))), True))
OPS.append(("assignvar-tab-B", mk_assign_var(0, "B", "tab:" + b"zzz".hex(), lambda v: (_tk(v) in ("x", "u"), ("x", b"zzz"))), False))
OPS.append(("assignvar-litnull-B", mk_assign_var(0, "B", "litnull", lambda v: (_tk(v) in ("s", "u"), ("N", "s"))), False))
OPS.append(("assignvar-tabnull-Y", mk_assign_var(0, "Y", "tabnull", lambda v: (_tk(v) in ("x", "u"), ("N", "x"))), False))
OPS.append(("assignvar-null-A", mk_assign_var(0, "A", "null", lambda v: (True, ("N", _tk(v)))), False))
OPS.append(("assignvar-null-Y", mk_assign_var(0, "Y", "null", lambda v: (True, ("N", _tk(v)))), False))


def run_exe(m, c, name):
    """model of running executable `name` in context c -> (ok, errno, text-fragment, output)"""
    cx = m.ctx[c]
    if cx.stop:
        return (True, None, None, "")          # a held stop condition: nothing runs
    a, b = cx.vars.get("A"), cx.vars.get("B")
    out = ""
    if name == "inc":
        cx.vars["A"] = add1(a)
    elif name == "app":
        cx.vars["B"] = ("s", b[1] + b"!")
    elif name == "ret":
        cx.returned = ("i", (a[1] * 2)) if a[0] == "i" else ("N", "i")
        cx.stop = True
    elif name == "rets":
        cx.returned = ("s", b[1] + b"r")
        cx.stop = True
    elif name == "div":
        if a[0] == "i":
            return (False, 23, "Divide by zero", "")
        cx.vars["X"] = ("N", "i")
    elif name == "fun":
        cx.funcs.add("f")
    elif name == "call":
        cx.vars["A"] = add1(a)
    elif name == "bind":
        if a[0] == "i":
            return (False, 23, "Divide by zero", "")
        cx.vars["A"] = ("N", "i")
    elif name == "loop":
        cx.vars["I"] = ("i", 3)
        cx.vars["A"] = ("i", a[1] + 6) if a[0] == "i" else a
    elif name == "print":
        out = ("%d" % a[1] if a[0] == "i" else "null") + b[1].decode() + "\n"
    elif name == "raise":
        return (False, 1, "MY_ERR", "")
    elif name == "handled":
        cx.vars["A"] = ("i", a[1] + 10) if a[0] == "i" else a
    elif name == "tab":
        cx.vars["T"] = ("T", [a, a])
        cx.vars["R"] = ("R", [a, b])
    elif name == "retnone":
        cx.returned = None          # the last run returned no value
        cx.stop = True
    elif name == "rint":
        cx.vars["R"] = ("i", 5)
    elif name == "rset":
        cx.vars["R"] = ("R", [cx.vars["R"][1][0], ("s", b"k")])
    elif name == "useout":
        old = cx.vars["OUT"][1] if cx.vars["OUT"][0] == "T" else []
        cx.vars["OUT"] = ("T", list(old) + [("i", 1), ("i", 4), ("i", 9)])
        cx.vars["I"] = ("i", 3)
        out = "%d%d\n" % (len(old) + 3, cx.vars["OUT"][1][2][1])
    elif name == "rehandle":
        return (False, 1, "E2", "")
    elif name == "useb":
        cx.vars["B2"] = b
        cx.vars["B3"] = b
        out = b[1].decode() * 3 + "\n"
    elif name == "usey":
        y = cx.vars["Y"]
        cx.vars["Y2"] = y
        cx.vars["Y3"] = y
        out = ("%d" % len(y[1])) * 3 + "\n"
    elif name == "usea":
        cx.vars["A2"] = add1(a)
        cx.vars["A3"] = add1(a)
        out = ("%d%d%d" % (a[1], a[1] + 1, a[1] + 1) if a[0] == "i" else "nullnullnull") + "\n"
    elif name == "falldiv":
        cx.vars["T"] = ("T", [a, a])
        if a[0] == "i":
            return (False, 23, "Divide by zero", "")
        cx.vars["X"] = ("N", "i")
    return (True, None, None, out)


def mk_pexe(c, name, withpos):
    def fn(m):
        cx = m.ctx[c]
        if cx is None or "A" not in cx.vars:
            return None
        if name in ("call", "bind") and "f" not in cx.funcs:
            return None
        if name in ("app", "rets", "print", "tab", "useb") and cx.vars.get("B", ("N",))[0] != "s":
            return None          # these texts need a non-null string in B
        if name == "usey" and cx.vars.get("Y", ("N",))[0] != "x":
            return None
        if name == "rset" and cx.vars.get("R", ("N",))[0] != "R":
            return None          # compiled for the tuple that R holds
        if name == "useout" and cx.vars.get("OUT", ("x",))[0] not in ("N", "T"):
            return None
        pre, pexp = reread_ops(m, c)
        ops = list(pre)
        if m.exe is not None:
            ops.append("k.freeexe 0")
        ops.append("k.pexe %d 0 %s %d" % (c, hx(EXES[name]), withpos))
        invalidate(m, c)
        m.exe = (name, c)
        m.clock += 1
        m.exe_at = m.clock
        if name == "fun":
            pass
        if name == "tab":
            pass
        if name == "loop":
            cx.vars.setdefault("I", ("N", "i"))
        if name in ("div", "falldiv"):
            cx.vars.setdefault("X", ("N", "i"))
        if name == "rint":
            cx.vars.setdefault("R", ("N", "i"))
        if name == "useout":
            cx.vars.setdefault("I", ("N", "i"))
        if name == "useb":
            cx.vars.setdefault("B2", ("N", "s"))
            cx.vars.setdefault("B3", ("N", "s"))
        if name == "usey":
            cx.vars.setdefault("Y2", ("N", "x"))
            cx.vars.setdefault("Y3", ("N", "x"))
        if name == "usea":
            cx.vars.setdefault("A2", ("N", "i"))
            cx.vars.setdefault("A3", ("N", "i"))
        if name == "falldiv":
            cx.vars.setdefault("T", ("N", "t"))
            cx.vars.setdefault("E", ("N", "i"))
        if name == "tab":
            cx.vars.setdefault("T", ("N", "t"))
            cx.vars.setdefault("R", ("N", "r"))
        if name == "fun":
            cx.funcs.add("f")      # declared when parsed
        return ops, pexp + [None] * (len(ops) - len(pre) - 1) + [("pexe-ok",)]
    return fn


for nm in EXES:
    OPS.append(("pexe-%s" % nm, mk_pexe(0, nm, 0), nm in ("inc", "ret", "retnone", "div", "fun", "bind", "raise", "rehandle", "falldiv", "rint", "rset")))
OPS.append(("pexe-inc-pos", mk_pexe(0, "inc", 1), False))


def mk_pbad(c, name, withpos):
    def fn(m):
        cx = m.ctx[c]
        if cx is None or "A" not in cx.vars:
            return None
        pre, pexp = reread_ops(m, c)
        ops = list(pre)
        if m.exe is not None:
            ops.append("k.freeexe 0")
            m.exe = None
        ops.append("k.pexe %d 0 %s %d" % (c, hx(BAD[name]), withpos))
        invalidate(m, c)
        return ops, pexp + [None] * (len(ops) - len(pre) - 1) + [("pexe-bad", withpos, name)]
    return fn


for nm in BAD:
    OPS.append(("pbad-%s" % nm, mk_pbad(0, nm, 0), nm == "syn"))
    OPS.append(("pbad-%s-pos" % nm, mk_pbad(0, nm, 1), nm in ("syn", "eof")))


def mk_exec(two, c):
    def fn(m):
        if m.exe is None:
            return None
        name, owner = m.exe
        target = c if two else owner
        cx = m.ctx[target]
        if cx is None or m.ctx[owner] is None and not two:
            return None
        if "A" not in cx.vars or (name in ("call", "bind") and "f" not in cx.funcs):
            return None
        if name in ("app", "rets", "print", "tab", "useb") and cx.vars.get("B", ("N",))[0] != "s":
            return None
        if name == "usey" and cx.vars.get("Y", ("N",))[0] != "x":
            return None
        if name == "rset" and cx.vars.get("R", ("N",))[0] != "R":
            return None
        if name == "useout" and cx.vars.get("OUT", ("x",))[0] not in ("N", "T"):
            return None
        if two and (target == owner or m.clone_at < m.exe_at):
            return None      # execute2 needs a clone of the parsing context taken after the parse
        pre, pexp = reread_ops(m, target)
        ops = list(pre)
        ok, en, txt, out = run_exe(m, target, name)
        invalidate(m, target)
        ops.append(("k.exec2 %d 0" % target) if two else "k.exec 0")
        ops.append("k.out %d" % target)
        return ops, pexp + [("exec", ok, en, txt), ("out", out)]
    return fn


OPS.append(("exec", mk_exec(False, 0), True))


def mk_script(name, reset=False):
    """parse and run in one step (keeps sequences that need a script after a host-side update short); with reset the host
    first clears a stop condition left by an earlier run"""
    def fn(m):
        r0 = ([], [])
        if reset:
            if m.ctx[0] is None:
                return None
            r0 = op_reset(0)(m)
        r1 = mk_pexe(0, name, 0)(m)
        if r1 is None:
            return None
        r2 = mk_exec(False, 0)(m)
        if r2 is None:
            return None
        return r0[0] + r1[0] + r2[0], r0[1] + r1[1] + r2[1]
    return fn


for nm in ("useb", "usey", "usea", "tab", "useout"):
    OPS.append(("script-%s" % nm, mk_script(nm), True))
for nm in ("ret", "retnone", "rets"):
    OPS.append(("rscript-%s" % nm, mk_script(nm, reset=True), True))


def op_reg_out(m):
    """a table symbol registered by the host: it has the type it was registered with and scripts use it as a table"""
    cx = m.ctx[0]
    if cx is None or "OUT" in cx.vars:
        return None
    pre, pexp = reread_ops(m, 0)
    invalidate(m, 0)
    cx.vars["OUT"] = ("N", "t")
    cx.syms[3] = "OUT"
    m.lib[1] = ("slot", 0, "OUT")
    return pre + ["k.reg 0 3 OUT 2 1", "k.load 0 3 1"], pexp + [("ptr", 1), ("regtype", 2, 1)]


OPS.append(("reg-OUT", op_reg_out, True))
OPS.append(("exec2-c1", mk_exec(True, 1), True))


def op_drop(c, slot):
    def fn(m):
        cx = m.ctx[c]
        if cx is None:
            return None
        ops = []
        if m.vals[slot] is not None:
            ops.append("k.freeval %d" % slot)
        ops.append("k.drop %d %d" % (c, slot))
        v = cx.returned
        cx.returned = None
        m.vals[slot] = v
        return ops, [None] * (len(ops) - 1) + [expect_val(v) if v is not None else ("nullptr",)]
    return fn


OPS.append(("drop-c0", op_drop(0, 2), True))
OPS.append(("drop-c1", op_drop(1, 2), False))


def op_reset(c):
    def fn(m):
        if m.ctx[c] is None:
            return None
        m.ctx[c].stop = False
        return ["k.reset %d" % c], [None]
    return fn


def op_break(c):
    def fn(m):
        if m.ctx[c] is None:
            return None
        m.ctx[c].stop = True
        return ["k.break %d" % c], [None]
    return fn


def op_trace(c, arg):
    """enable / disable / query tracing: the flag reads back, both streams exist; tracing never changes results or printed output"""
    def fn(m):
        cx = m.ctx[c]
        if cx is None:
            return None
        if arg != "q":
            cx.trace = (arg == "1")
        return ["k.trace %d %s" % (c, arg)], [("trace", getattr(cx, "trace", False))]
    return fn


OPS.append(("trace-on-c0", op_trace(0, "1"), True))
OPS.append(("trace-off-c0", op_trace(0, "0"), False))
OPS.append(("trace-query-c0", op_trace(0, "q"), False))
OPS.append(("version", lambda m: (["k.version"], [("version",)]), False))
OPS.append(("reset-c0", op_reset(0), True))
OPS.append(("break-c0", op_break(0), False))
OPS.append(("reset-c1", op_reset(1), False))


def op_clone(m):
    if m.ctx[0] is None or m.ctx[1] is not None:
        return None
    src = m.ctx[0]
    n = Ctx()
    n.vars = copy.deepcopy(src.vars)
    n.funcs = set(src.funcs)
    n.trace = None
    m.ctx[1] = n
    m.clock += 1
    m.clone_at = m.clock
    return ["k.clone 0 1"], [("ptr", 1)]


def op_free1(m):
    if m.ctx[1] is None:
        return None
    pre, pexp = reread_ops(m, 1)
    drop_ctx_refs(m, 1)
    m.ctx[1] = None
    return pre + ["k.free 1"], pexp + [None]


def op_purgewm(m):
    if m.ctx[0] is None:
        return None
    pre, pexp = reread_ops(m, 0)
    invalidate(m, 0)
    return pre + ["k.purgewm 0"], pexp + [None]


def op_purge(m):
    cx = m.ctx[0]
    if cx is None:
        return None
    pre, pexp = reread_ops(m, 0)
    ops = list(pre)
    # executables and expressions built with the context no longer work: the caller frees them first
    if m.exe is not None and m.exe[1] == 0:
        ops.append("k.freeexe 0")
        m.exe = None
    if m.exp is not None and m.exp[1] == 0:
        ops.append("k.freeexpr 0")
        m.exp = None
    drop_ctx_refs(m, 0)
    ops.append("k.purge 0")
    cx.vars = {}
    cx.syms = {}
    cx.funcs = set()
    cx.stop = False
    cx.returned = None
    cx.trace = None
    # re-create the variables through the API
    ops += ["k.reg 0 0 A 2 0", "k.reg 0 1 B 4 0"]
    cx.vars = {"A": ("N", "i"), "B": ("N", "s")}
    cx.syms = {0: "A", 1: "B"}
    return ops, pexp + [None] * (len(ops) - len(pre) - 2) + [("ptr", 1), ("ptr", 1)]


OPS.append(("clone", op_clone, True))
OPS.append(("free-c1", op_free1, True))
OPS.append(("purgewm-c0", op_purgewm, False))
OPS.append(("purge-c0", op_purge, True))


def op_reg(m):
    cx = m.ctx[0]
    if cx is None:
        return None
    pre, pexp = reread_ops(m, 0)
    invalidate(m, 0)
    cx.vars.setdefault("C", ("N", "d"))
    cx.syms[2] = "C"
    m.lib[1] = ("slot", 0, "C")
    return pre + ["k.reg 0 2 C 3 0", "k.load 0 2 1"], pexp + [("ptr", 1), expect_val(cx.vars["C"])]


OPS.append(("reg-C", op_reg, False))


def op_find_missing(m):
    if m.ctx[0] is None:
        return None
    m.ctx[0].syms.pop(3, None)
    return ["k.find 0 3 NOPE"], [("ptr", 0)]


OPS.append(("find-missing", op_find_missing, False))


def mk_pexpr(name, bad):
    def fn(m):
        cx = m.ctx[0]
        if cx is None or "A" not in cx.vars:
            return None
        pre, pexp = reread_ops(m, 0)
        ops = list(pre)
        if m.exp is not None:
            ops.append("k.freeexpr 0")
            m.exp = None
        invalidate(m, 0)
        if bad:
            ops.append("k.pexpr 0 0 %s" % hx(BADEXPR[name] + ";"))
            return ops, pexp + [None] * (len(ops) - len(pre) - 1) + [("pexpr-bad",)]
        ops.append("k.pexpr 0 0 %s" % hx(EXPRS[name] + ";"))
        ops.append("k.etype 0 0")
        m.exp = (name, 0)
        et = {"add": (2, 0), "str": (4, 0), "div": (2, 0), "tab": (2, 1), "tup": (7, 0), "const": (2, 0), "lit": (4, 0), "int": (2, 0), "nul": (0, 0), "dec": (3, 0), "boo": (1, 0), "big": (2, 0)}[name]
        return ops, pexp + [None] * (len(ops) - len(pre) - 2) + [("ptr", 1), ("etype", et)]
    return fn


for nm in EXPRS:
    OPS.append(("pexpr-%s" % nm, mk_pexpr(nm, False), nm in ("add", "div", "lit")))
for nm in BADEXPR:
    OPS.append(("pexpr-bad-%s" % nm, mk_pexpr(nm, True), nm == "syn"))


def op_eval(m):
    if m.exp is None:
        return None
    name, c = m.exp
    cx = m.ctx[c]
    if cx is None or "A" not in cx.vars:
        return None
    pre, pexp = reread_ops(m, c)
    invalidate(m, c)
    a, b = cx.vars["A"], cx.vars["B"]
    if name == "add":
        v = add1(a)
    elif name == "str":
        v = ("s", b[1] + b"?") if b[0] == "s" else None
    elif name == "div":
        v = ("E", 23) if a[0] == "i" else ("N", "i")
    elif name == "tab":
        v = ("T", [a, a])
    elif name == "tup":
        v = ("R", [a, b])
    elif name == "lit":
        v = ("s", b"a constant string of some length")
    elif name == "nul":
        v = ("N", "u")
    elif name == "dec":
        v = ("d", 2.5)
    elif name == "boo":
        v = ("b", True)
    elif name == "big":
        v = ("i", 9223372036854775807)
    else:
        v = ("i", 42)
    if v is None:
        return None
    if v[0] == "E":
        m.lib[1] = None
        return pre + ["k.eval %d 0 1" % c], pexp + [("eval-err", v[1])]
    m.lib[1] = ("temp", c, v)
    return pre + ["k.eval %d 0 1" % c], pexp + [("evalval", v)]


OPS.append(("eval", op_eval, True))


def op_freeexe(m):
    if m.exe is None:
        return None
    m.exe = None
    return ["k.freeexe 0"], [None]


def op_freeexpr(m):
    if m.exp is None:
        return None
    m.exp = None
    return ["k.freeexpr 0"], [None]


OPS.append(("freeexe", op_freeexe, False))
OPS.append(("freeexpr", op_freeexpr, True))

OPNAMES = [o[0] for o in OPS]
OPFN = {o[0]: o[1] for o in OPS}
CORE = [o[0] for o in OPS if o[2]]

SETUP = ["k.create 0", "k.pexe 0 0 %s 0" % hx('a = 1; b = "x"; y = raw("yz");'), "k.exec 0", "k.freeexe 0", "k.find 0 0 A", "k.find 0 1 B"]


def fresh_model():
    m = Model()
    c = Ctx()
    c.vars = {"A": ("i", 1), "B": ("s", b"x"), "Y": ("x", b"yz")}
    c.syms = {0: "A", 1: "B"}
    m.ctx[0] = c
    return m


def build_case(seq):
    """Run the model over a sequence of operation names; returns (driver ops, expectations, final model) or None if not enabled."""
    m = fresh_model()
    ops, exps, owner = list(SETUP), [None] * len(SETUP), []
    for k, name in enumerate(seq):
        r = OPFN[name](m)
        if r is None:
            return None
        o, e = r
        if len(o) != len(e):
            raise AssertionError("op %s: %d driver ops, %d expectations" % (name, len(o), len(e)))
        ops += o
        exps += e
        owner += [k] * len(o)
    # epilogue: re-read what is still valid, then free everything the caller owns
    for c in (0, 1):
        if m.ctx[c] is not None:
            o, e = reread_ops(m, c)
            ops += o
            exps += e
    ops += ["k.end", "leakcheck"]
    exps += [None, ("noleak",)]
    return ops, exps, m


def sequences(tier):
    seen_states = set()
    # all sequences of length <= 2 over the full alphabet
    for l in (1, 2):
        for seq in itertools.product(OPNAMES, repeat=l):
            yield list(seq)
    core = CORE
    if tier == "thorough":
        for seq in itertools.product(OPNAMES, repeat=3):
            yield list(seq)
        # breadth-first to depth 4 with model-state dedup at depth 3 (prefix representatives)
        reps = {}
        for seq in itertools.product(core, repeat=3):
            r = build_case(list(seq))
            if r is None:
                continue
            k = r[2].key()
            if k not in reps:
                reps[k] = list(seq)
        for pre in reps.values():
            for nxt in OPNAMES:
                yield pre + [nxt]
    else:
        for seq in itertools.product(core, repeat=3):
            yield list(seq)
        # the life of an evaluated value after its expression is freed, for every expression kind, followed by every core operation
        for nm in EXPRS:
            yield ["pexpr-%s" % nm, "eval", "freeexpr"]
            for nxt in core:
                yield ["pexpr-%s" % nm, "eval", "freeexpr", nxt]
                yield ["pexpr-%s" % nm, "eval", nxt, "freeexpr"]


def leak_sweep(tier):
    """every rejected text of the C11 corpus through the C API, then free everything: no memory may remain"""
    from . import c11
    items = []
    for qi, q in enumerate(c11.QS):
        for tag, r in c11.rejected_variants(q):
            items.append(r)
    items += c11.DIRECT_R
    if tier != "thorough":
        items = items[::3]
    # ill-typed operands of every operator, on either side (the parser gives up in the middle of an expression it has partly built)
    from . import c01
    atoms = ["1", "2.5", '"s"', "true", "a", "s", 'raw("x")', "t", "r", "(a + 0.5)", "null"]
    for o in c01.BINOPS:
        for x in atoms:
            for y in atoms:
                e = "%s %s %s" % (x, o, y)
                items.append("zq = %s;" % e)
                items.append("%s;" % e)
    for o in c01.UNOPS:
        for x in atoms:
            items.append("zq = %s %s;" % (o, x))
            items.append("%s %s;" % (o, x))
    pre = c11.PREFIXES["vars+funs"]
    for r in items:
        for pos in ((0, 1) if tier == "thorough" else (1,)):
            ops = ["k.create 0", "k.pexe 0 0 %s 0" % hx(pre), "k.exec 0", "k.freeexe 0", "k.pexe 0 1 %s %d" % (hx(r), pos),
                   "k.pexpr 0 0 %s" % hx(r), "k.pexe 0 2 %s 0" % hx("print f1(a) s;"), "k.exec 2", "k.out 0", "k.end", "leakcheck"]
            yield ops, r


def gen_factory(tier):
    def gen():
        n = 0
        for ops, r in leak_sweep(tier):
            yield Case("l%d" % n, ops, {"kind": "leak", "text": r})
            n += 1
        for seq in sequences(tier):
            r = build_case(seq)
            if r is None:
                continue
            ops, exps, m = r
            yield Case("k%d" % n, ops, {"kind": "seq", "seq": seq, "exp": exps_json(exps)})
            n += 1
    return gen


def exps_json(exps):
    out = []
    for e in exps:
        out.append(None if e is None else jsonable(e))
    return out


def jsonable(x):
    if isinstance(x, bytes):
        return {"$b": x.hex()}
    if isinstance(x, (tuple, list)):
        return [jsonable(i) for i in x]
    return x


def unjson(x):
    if isinstance(x, dict) and "$b" in x:
        return bytes.fromhex(x["$b"])
    if isinstance(x, list):
        return tuple(unjson(i) for i in x)
    return x


# --- comparing an inspected value with a model value ------------------------------------------------------
def val_matches(ins, v):
    """ins: inspection dict from the driver; v: model value. Returns None or a description of the mismatch."""
    if ins.get("null_ptr"):
        return "NULL pointer"
    kind = v[0]
    if kind in ("T", "R"):
        which = "table" if kind == "T" else "tuple"
        for acc in list(ACC.values()) + ["table", "tuple"]:
            want = 1 if acc == which else 0
            if ins[acc][0] != want:
                return "accessor %s returned %s for a %s" % (acc, ins[acc][0], which)
        items = ins[which][1]
        if items is None or items[0] != len(v[1]):
            return "%s size %r, expected %d" % (which, items, len(v[1]))
        if items[-1] != "past-end-refused":
            return "item access past the end accepted"
        for got, want in zip(items[1:-1], v[1]):
            if not dump_eq(got, want):
                return "item %r, expected %r" % (got, want)
        return None
    null = kind == "N"
    tk = v[1] if null else kind
    if tk in ("u", "t", "r"):
        # untyped null / null table / null tuple: only nullness is defined
        return None if ins.get("isnull") == 1 else "expected a null value"
    if ins.get("isnull") != (1 if null else 0):
        return "isnull %s, expected %s" % (ins.get("isnull"), null)
    if ins.get("major") != MAJOR[tk] or ins.get("ndim") != 0:
        return "type %s/%s, expected major %d" % (ins.get("major"), ins.get("ndim"), MAJOR[tk])
    for t, acc in ACC.items():
        r, data = ins[acc]
        if t == tk:
            if r != 1:
                return "accessor %s does not succeed on its own type" % acc
            if null:
                if data is not None:
                    return "accessor %s gives non-NULL data for a null value" % acc
            else:
                if data is None:
                    return "accessor %s gives NULL data for a non-null value" % acc
                if not data_eq(t, data, v[1]):
                    return "accessor %s gives %r, expected %r" % (acc, data, v[1])
        elif r != 0:
            return "accessor %s succeeds on a %s value" % (acc, ACC[tk])
    if ins["table"][0] != 0 or ins["tuple"][0] != 0:
        return "table/tuple accessor succeeds on a scalar"
    return None


def data_eq(t, data, want):
    if t == "i":
        return int(data) == want
    if t == "b":
        return bool(data) == want
    if t == "d":
        return float.fromhex(data) == want if data not in ("nan",) else want != want
    if t == "s":
        return bytes.fromhex(data) == want.split(b"\x00")[0]
    if t == "x":
        return bytes.fromhex(data) == want
    if t == "c":
        a, b = data.split(",")
        return (float.fromhex(a), float.fromhex(b)) == tuple(want)
    return False


def dump_eq(d, v):
    k = v[0]
    if k == "N":
        return d.startswith("N(")
    if k == "i":
        return d == "i%d" % v[1]
    if k == "s":
        return d == "s" + v[1].hex()
    return True


# a variable the host registers again with another type (and stores a value of that type): scripts compiled afterwards - every one of
# them, not only the first - see the new type and the stored value
RETYPES = {   # name: (type major, value spec, a program that only compiles for that type, what it prints)
    "boolean": (1, "b1", "print not X;", "FALSE\n"),
    "integer": (2, "i5", "print X + 1;", "6\n"),
    "decimal": (3, "d2.5", "print X * 2.0;", "5\n"),
    "string": (4, "s" + b"abc".hex(), 'print X + "d";', "abcd\n"),
    "bytes": (8, "x" + b"ab".hex(), "print X.count() X.at(0);", "297\n"),
}
RETYPE_BETWEEN = {"nothing": [], "script": ["y = 1; print y;"], "rejected": ["y = 1 +;"], "failing": ["y = 1 / 0;"], "uses-x": ["w = X; print isnull(w);"]}


def retype_gen(tier):
    def gen():
        n = 0
        for t1, (m1, v1, p1, o1) in RETYPES.items():
            for t2, (m2, v2, p2, o2) in RETYPES.items():
                if t1 == t2:
                    continue
                for bname, between in RETYPE_BETWEEN.items():
                    ops = ["k.create 0", "k.new 0 %s" % v1, "k.reg 0 0 X %d 0" % m1, "k.store 0 0 0", "k.freeval 0"]
                    runs = []

                    def run(text):
                        ops.extend(["k.pexe 0 0 %s 0" % hx(text), "k.exec 0", "k.freeexe 0", "k.out 0"])
                        return len(ops) - 4
                    runs.append((run(p1), o1, "first type"))
                    for b in between:
                        run(b)
                    ops += ["k.new 0 %s" % v2, "k.reg 0 0 X %d 0" % m2, "k.store 0 0 0", "k.freeval 0"]
                    runs.append((run(p2), o2, "second type, first script"))
                    runs.append((run(p2), o2, "second type, second script"))
                    runs.append((run("z = X; " + p2.replace("X", "z")), o2, "second type, copy"))
                    ops += ["k.end", "leakcheck"]
                    yield Case("rt%d" % n, ops, {"kind": "retype", "t1": t1, "t2": t2, "between": bname, "runs": runs})
                    n += 1
    return gen


# bloc_ctx_store_variable: a refused store leaves the caller's value as it was; storing a value the library owns (a variable's) copies it
STORE_SETUP = '$sk = "s"; $ik = 1; t = tab(2, 1); s2 = "text"; x2 = raw("xy"); r2 = tup(1, "a"); c2 = 1 + 2 * ii; u = 0; w = 0;'
STORE_SRC = {"T": "t.count()", "S2": "strlen(s2)", "X2": "x2.count()", "R2": "r2@2", "C2": "(c2 == 1 + 2 * ii)"}
STORE_WANT = {"T": "2", "S2": "4", "X2": "2", "R2": "a", "C2": "TRUE"}


def storecontract_gen(tier):
    def gen():
        n = 0
        # (a) caller-owned values of every dynamic kind into constrained variables of another type
        for vspec, vname in (("s" + b"hello".hex(), "string"), ("x" + b"ab".hex(), "bytes"), ("c1.5,-2", "complex")):
            for target in ("$SK", "$IK"):
                if vname == "string" and target == "$SK":
                    continue
                ops = ["k.create 0", "k.pexe 0 0 %s 0" % hx(STORE_SETUP), "k.exec 0", "k.freeexe 0", "k.new 0 %s" % vspec, "k.find 0 0 %s" % target,
                       "k.store 0 0 0", "k.inspect v 0", "k.find 0 1 U", "k.store 0 1 0", "k.pexe 0 0 %s 0" % hx("print typeof(u) typeof(%s);" % target.lower()), "k.exec 0", "k.out 0",
                       "k.end", "leakcheck"]
                yield Case("sc%d" % n, ops, {"kind": "storecontract", "what": "refused", "value": vname, "target": target, "spec": vspec})
                n += 1
        # (b) library-owned values (what a variable holds) into another variable, accepted and refused: the source keeps its value
        for src in STORE_SRC:
            for target in ("U", "$IK", "$SK"):
                probe = "print %s;" % STORE_SRC[src]
                ops = ["k.create 0", "k.pexe 0 0 %s 0" % hx(STORE_SETUP), "k.exec 0", "k.freeexe 0", "k.find 0 0 %s" % src, "k.load 0 0 1", "k.find 0 1 %s" % target,
                       "k.storelib 0 1 1", "k.pexe 0 0 %s 0" % hx(probe), "k.exec 0", "k.out 0", "k.end", "leakcheck"]
                yield Case("sc%d" % n, ops, {"kind": "storecontract", "what": "library-owned", "value": src, "target": target})
                n += 1
        # (c) caller-owned scalars (boolean, integer, decimal and their nulls) are copied: the caller's value is the same after one store and
        #     after a second one into another variable, and both variables hold it
        for vspec, vname, shown in (("i7", "integer", "7 7 TRUE"), ("d0x1.4p+1", "decimal", "2.5 2.5 TRUE"), ("b1", "boolean", "TRUE TRUE TRUE"), ("i-9223372036854775808", "integer-min", None),
                                    ("d0x1p-1074", "decimal-subnormal", None), ("b0", "boolean-false", "FALSE FALSE TRUE"),
                                    ("null:1", "null-boolean", None), ("null:2", "null-integer", None), ("null:3", "null-decimal", None)):
            ops = ["k.create 0", "k.pexe 0 0 %s 0" % hx(STORE_SETUP), "k.exec 0", "k.freeexe 0", "k.new 0 %s" % vspec, "k.inspect v 0", "k.find 0 0 U",
                   "k.store 0 0 0", "k.inspect v 0", "k.find 0 1 W", "k.store 0 1 0", "k.inspect v 0",
                   "k.pexe 0 0 %s 0" % hx('print u " " w " " (u == w); print typeof(u) " " typeof(w) " " isnull(u) " " isnull(w);'), "k.exec 0", "k.out 0", "k.end", "leakcheck"]
            yield Case("sc%d" % n, ops, {"kind": "storecontract", "what": "scalar-copied", "value": vname, "shown": shown})
            n += 1
    return gen


def check_storecontract(case, res, vs):
    m = case.meta
    st = res["steps"]
    if m["what"] == "refused":
        stored, insp = st[6], st[7]
        if stored.get("ret") != 0:
            vs.append(Violation("store-contract:constrained-variable-accepted", "a %s was stored into %s: %s" % (m["value"], m["target"], stored), case))
        caller = insp.get("val", {})
        if caller.get("isnull") != 0:
            vs.append(Violation("store-contract:refused-store-emptied-the-value", "storing a %s into %s was refused (ret %s) and the caller's value is now %s" % (
                m["value"], m["target"], stored.get("ret"), caller.get("dump")), case))
        if st[9].get("ret") != 1:
            vs.append(Violation("store-contract:later-store-failed", "the same value could not be stored into U afterwards: %s" % st[9], case))
    elif m["what"] == "scalar-copied":
        before, s1, after1, s2, after2 = st[5].get("val", {}), st[7], st[8].get("val", {}), st[10], st[11].get("val", {})
        out = unhex(st[14].get("out", "")).decode("latin-1") if st[14].get("r") == "ok" else None
        if s1.get("ret") != 1 or s2.get("ret") != 1:
            vs.append(Violation("store-contract:scalar-store-failed", "storing a %s into U / W returned %s / %s" % (m["value"], s1.get("ret"), s2.get("ret")), case))
        elif before.get("dump") != after1.get("dump") or before.get("dump") != after2.get("dump"):
            vs.append(Violation("store-contract:scalar-not-copied:%s" % m["value"].split("-")[-1], "the caller's %s is %s before the store, %s after it and %s after a second store (documented: copied)" % (
                m["value"], before.get("dump"), after1.get("dump"), after2.get("dump")), case))
        elif st[12].get("ptr") != 1 or st[13].get("ret") != 1 or out is None or (m["shown"] and not out.startswith(m["shown"] + "\n")) or len(out.split("\n")[1].split()) != 4 or out.split("\n")[1].split()[0] != out.split("\n")[1].split()[1] or out.split("\n")[1].split()[2] != out.split("\n")[1].split()[3]:
            vs.append(Violation("store-contract:scalar-stored-wrong", "after storing a %s into U and W the script prints %r (parse %s run %s)" % (m["value"], out, st[12].get("ptr"), st[13].get("ret")), case))
    else:
        out = unhex(st[10].get("out", "")).decode("latin-1") if st[10].get("r") == "ok" else None
        if st[8].get("ptr") != 1 or st[9].get("ret") != 1 or out != STORE_WANT[m["value"]] + "\n":
            vs.append(Violation("store-contract:source-variable-changed", "after storing the value of %s into %s (ret %s) the script reading %s gives parse %s run %s output %r, expected %r" % (
                m["value"], m["target"], st[7].get("ret"), m["value"], st[8].get("ptr"), st[9].get("ret"), out, STORE_WANT[m["value"]]), case))
    if st[-1].get("leak") not in (0, None):
        vs.append(Violation("store-contract:leak", "memory remains allocated: %s" % st[-1].get("report", "")[:600], case))
    return vs, True


def check_retype(case, res, vs):
    m = case.meta
    st = res["steps"]
    for at, want, what in m["runs"]:
        pe, ex, out = st[at], st[at + 1], st[at + 3]
        got = unhex(out.get("out", "")).decode("latin-1") if out.get("r") == "ok" else None
        if pe.get("ptr") != 1 or ex.get("ret") != 1 or got != want:
            vs.append(Violation("retype:%s" % what.replace(" ", "-").replace(",", ""), "X registered as %s then as %s (%s in between): the script for the %s gives parse %s / run %s / output %r, expected %r" % (
                m["t1"], m["t2"], m["between"], what, {k: pe.get(k) for k in ("ptr", "strerror")}, {k: ex.get(k) for k in ("r", "ret", "strerror")}, got, want), case))
    if st[-1].get("leak") not in (0, None):
        vs.append(Violation("retype:leak", "memory remains allocated: %s" % st[-1].get("report", "")[:800], case))
    return vs, True


def check(case, res):
    vs = generic_safety(case, res)
    if res.get("st") != "done":
        return vs, True
    m = case.meta
    st = res["steps"]
    if m["kind"] == "retype":
        return check_retype(case, res, vs)
    if m["kind"] == "storecontract":
        return check_storecontract(case, res, vs)
    if m["kind"] == "leak":
        vs = [v for v in vs if v.key != "leak"]      # reported below with the allocating site
        if st[4].get("ptr") == 1:
            return vs, False          # the text is accepted: not a rejected text
        if st[1].get("ptr") != 1 or st[2].get("ret") != 1:
            vs.append(Violation("harness:prefix", "prefix failed: %s %s" % (st[1], st[2]), case))
        if not st[4].get("strerror") or (st[4].get("errno") == 0 and st[4].get("strerror") != "EOF"):
            vs.append(Violation("parse:no-error-set", "rejected text %r: errno %s, message %r" % (m["text"], st[4].get("errno"), st[4].get("strerror")), case))
        if st[6].get("ptr") != 1 or st[7].get("ret") != 1 or unhex(st[8].get("out", "")) != b"2str\n":
            vs.append(Violation("after-rejection", "after rejected %r the context does not run a valid program: %s %s %r" % (m["text"], st[6], st[7], unhex(st[8].get("out", ""))), case))
        if st[-1].get("leak") != 0:
            rep = st[-1].get("report", "")
            site = "?"
            for line in rep.splitlines():
                if "/blocc/" in line and "#" in line and "operator new" not in line:
                    site = line.split("/blocc/")[1].split(":")[0]
                    break
            vs.append(Violation("leak:parse-error@%s" % site, "memory remains allocated after rejecting %r and freeing everything: %s" % (m["text"], rep[:1500]), case))
        return vs, True
    exps = [None if e is None else unjson(e) for e in m["exp"]]
    if len(st) != len(exps):
        vs.append(Violation("harness:length", "driver returned %d steps for %d ops" % (len(st), len(exps)), case))
        return vs, False

    def bad(key, msg, i):
        vs.append(Violation(key, "%s (step %d: %s) in sequence %s" % (msg, i, case.ops[i], m["seq"]), case))
    for i, (s, e) in enumerate(zip(st, exps)):
        if s.get("r") != "ok":
            bad("harness:step", "driver step failed: %s" % s, i)
            continue
        # whatever the history of a value (created null, assigned null, payload moved into a variable): a null value yields NULL data
        for fld in ("val", "caller"):
            iv = s.get(fld)
            if isinstance(iv, dict) and iv.get("isnull") == 1:
                for acc in ("boolean", "integer", "numeric", "literal", "tabchar", "imaginary", "table", "tuple"):
                    a = iv.get(acc)
                    if a and a[0] == 1 and a[1] is not None:
                        bad("null-value-yields-data:%s" % acc, "value is null but bloc_%s gives data %r" % (acc, a[1]), i)
        if e is None:
            continue
        k = e[0]
        if k == "ptr":
            if s.get("ptr") != e[1]:
                bad("ptr:%s" % case.ops[i].split()[0], "returned %s pointer, expected %s" % ("a" if s.get("ptr") else "NULL", "non-NULL" if e[1] else "NULL"), i)
        elif k in ("val", "lib", "evalval"):
            if k == "evalval" and s.get("val", {}).get("null_ptr"):
                bad("eval:null", "evaluation returned NULL (%s %s)" % (s.get("errno"), s.get("strerror")), i)
                continue
            mm = val_matches(s["val"], e[1])
            if mm:
                bad("%s:%s" % ({"val": "value", "lib": "library-owned-pointer", "evalval": "eval"}[k], case.ops[i].split()[0]), "%s; inspected %s, model %r" % (mm, s["val"].get("dump"), e[1]), i)
        elif k == "moved":
            if s["val"].get("null_ptr"):
                bad("moved-value", "caller value vanished", i)
        elif k == "nullptr":
            if not s["val"].get("null_ptr"):
                bad("drop:not-null", "drop_returned gave %s although nothing was returned" % s["val"].get("dump"), i)
        elif k == "store":
            if s.get("ret") != 1:
                bad("store:failed", "store_variable failed: %s %s" % (s.get("errno"), s.get("strerror")), i)
            elif e[1] is not None:
                mm = val_matches(s["caller"], e[1])
                if mm:
                    bad("store:scalar-not-copied", "after storing a scalar the caller's value is %s (documented: copied): %s" % (s["caller"].get("dump"), mm), i)
            elif s["caller"].get("null_ptr"):
                bad("store:caller-lost", "caller value vanished", i)
        elif k == "assign":
            if s.get("ret") != (1 if e[1] else 0):
                bad("assign:return", "assign returned %s, expected %s" % (s.get("ret"), e[1]), i)
            else:
                mm = val_matches(s["val"], e[2])
                if mm:
                    bad("assign:value", "%s; model %r" % (mm, e[2]), i)
        elif k == "regtype":
            v = s.get("val", {})
            if v.get("null_ptr") or v.get("major") != e[1] or v.get("ndim") != e[2] or v.get("isnull") != 1:
                bad("register:type", "symbol registered as major %d ndim %d holds %s" % (e[1], e[2], {x: v.get(x) for x in ("major", "ndim", "isnull", "null_ptr")}), i)
        elif k == "trace":
            if e[1] is not None and s.get("trace") != (1 if e[1] else 0):
                bad("trace:flag", "bloc_ctx_trace returns %s, the host set %s" % (s.get("trace"), e[1]), i)
            if s.get("out") != 1 or s.get("err") != 1:
                bad("trace:streams", "bloc_ctx_out / bloc_ctx_err returned NULL: %s" % s, i)
        elif k == "version":
            if not s.get("version") or s.get("version") == "(null)" or s.get("version") not in (s.get("header") or "") or not isinstance(s.get("compatible"), int) or s.get("compatible") < 1:
                bad("version", "version %r, header %r, compatible %r" % (s.get("version"), s.get("header"), s.get("compatible")), i)
        elif k == "pexe-ok":
            if s.get("ptr") != 1:
                bad("parse:valid-rejected", "valid text rejected: %s %s" % (s.get("errno"), s.get("strerror")), i)
            elif s.get("errno") != 0:
                bad("parse:errno-not-reset", "successful parse leaves errno %s %r" % (s.get("errno"), s.get("strerror")), i)
        elif k == "pexe-bad":
            if s.get("ptr") != 0:
                bad("parse:invalid-accepted", "invalid text accepted", i)
            elif not s.get("strerror"):
                bad("parse:no-message", "failed parse without a message (errno %s)" % s.get("errno"), i)
            elif s.get("errno") == 0 and e[2] not in ("eof", "str"):
                bad("parse:errno-zero", "failed parse with errno 0 (%r)" % s.get("strerror"), i)
            elif e[1] and e[2] == "syn" and (s.get("lno"), s.get("pno")) != (1, 5):
                bad("parse:position", "position (%s:%s), expected (1:5)" % (s.get("lno"), s.get("pno")), i)
        elif k == "pexpr-bad":
            if s.get("ptr") != 0 or not s.get("strerror"):
                bad("parse:expression-bad", "invalid expression: ptr %s errno %s %r" % (s.get("ptr"), s.get("errno"), s.get("strerror")), i)
        elif k == "etype":
            if (s.get("major"), s.get("ndim")) != tuple(e[1]):
                bad("expression-type", "expression type (%s,%s), expected %s" % (s.get("major"), s.get("ndim"), e[1]), i)
        elif k == "exec":
            ok, en, txt = e[1], e[2], e[3]
            if s.get("ret") != (1 if ok else 0):
                bad("exec:return", "execute returned %s, expected %s (%s %r)" % (s.get("ret"), ok, s.get("errno"), s.get("strerror")), i)
            elif not ok and (s.get("errno") != en or not (s.get("strerror") or "") or (en == 1 and txt not in (s.get("strerror") or ""))):
                bad("exec:error", "failed execute gives errno %s %r, expected %s %r" % (s.get("errno"), s.get("strerror"), en, txt), i)
        elif k == "out":
            got = unhex(s.get("out", "")).decode("latin-1")
            if got != e[1]:
                bad("exec:output", "output %r, expected %r" % (got, e[1]), i)
        elif k == "eval-err":
            if not s["val"].get("null_ptr") or s.get("errno") != e[1] or not s.get("strerror"):
                bad("eval:error", "failing evaluation gives %s errno %s %r" % (s["val"].get("dump"), s.get("errno"), s.get("strerror")), i)
        elif k == "noleak":
            if s.get("leak") != 0:
                bad("leak", "memory remains allocated after the caller freed everything: %s" % (s.get("report", "")[:1500]), i)
    return vs, True


def run(tier):
    t0 = time.time()
    res = explore(PROP + "-" + tier, gen_factory(tier), check, chunk=100, deadline=t0 + (3000 if tier == "thorough" else 420))
    res.merge(explore(PROP + "-" + tier + "-retype", retype_gen(tier), check, chunk=50, deadline=t0 + 3300))
    res.merge(explore(PROP + "-" + tier + "-store-contract", storecontract_gen(tier), check, chunk=20, deadline=t0 + 3300))
    rule = ("call sequences over %d operations (value creation of every type incl. NULL payloads, store/load, assign, inspection by every typed accessor, "
            "parse of %d valid and %d invalid texts with and without position request, execute / execute2 in a clone, drop_returned, break / reset_stop, "
            "parse / type / evaluate of %d expressions, clone, free, purge, purge_working_mem, register, find): all sequences of length <=2, %s; "
            "epilogue frees every caller-owned handle, then LeakSanitizer. Sequences violating a documented precondition are not generated. "
            "Non-trivial: every generated sequence" % (len(OPS), len(EXES), len(BAD), len(EXPRS),
                                                   "all triples and depth-4 extensions of model-distinct core triples" if tier == "thorough" else "all triples over the %d core operations" % len(CORE)))
    return finish(PROP, tier, res, check, rule, t0, assumptions=["state-machine model of handles and ownership in vf/props/c15.py", "ASan/LSan (clang 14)"])
