"""C07 — errors reach the nearest matching handler and leave no residue once handled or reported.

Every chain (depth <= 3) of wrappers {for, while, forall, if, begin + handler list} around every failing operation
(raise of two user names, 1/0, raise out_of_range, a non-catchable index error, a failing function, a function that
fails inside its own loop, an error raised inside a handler) placed at a statement position or in an expression
position (for bounds/step, while/if condition, function argument). The reference interpreter says which handler
runs, what error@1/@2 show, what is printed and what is reported to the host; afterwards the same program is run
again and probe statements check that no control state survived. Routes: C++ API and C API.
"""
import itertools
import time

from ..core import Case, Violation, explore, finish, generic_safety, op_ctx, op_run, op_dump, op_out, unhex, Result
from .. import ctl
from .c06 import PROBES, DECL, check_probes, text

PROP = "C07"

FUNCS = {
    "fr": ([], [("raise", "ea"), ("return", ("int", 1))]),
    "fz": ([], [("let", "z0", ("int", 0)), ("return", ("bin", "/", ("int", 1), ("var", "z0")))]),
    "frl": ([], [("for", "q", ("int", 1), ("int", 3), None, "auto",
                  [("if", ("bin", "==", ("var", "q"), ("int", 2)), [("raise", "ea")], None)]), ("return", ("int", 1))]),
    "fh": ([], [("begin", [("raise", "ea")], [("ea", [("return", ("int", 5))])]), ("return", ("int", 6))]),
    "f1": (["x"], [("return", ("var", "x"))]),
    # fails from its second use on: lets an expression fail after the loop body already ran (and ended with continue)
    "fc": (["x"], [("if", ("bin", ">", ("var", "x"), ("int", 0)), [("raise", "ea")], None), ("return", ("int", 1))]),
    "fcz": (["x"], [("return", ("bin", "/", ("int", 1), ("bin", "-", ("int", 1), ("var", "x"))))]),
}
FDECL = "\n".join(ctl.ftext(n, p, b) for n, (p, b) in FUNCS.items())
DECL7 = DECL + " tv = tab(1, 1);"

# failing statements
FAIL_STMTS = {
    "raise-ea": ("raise", "ea"),
    "raise-eb": ("raise", "eb"),
    "raise-eab": ("raise", "eab"),      # a name that only starts like the clause name ea
    "raise-e": ("raise", "e"),          # a name the clause names start with
    "div0": ("eval", ("div0",)),
    "oor": ("raise", "out_of_range"),
    "fatal": ("eval", ("fatal",)),
    "call-fr": ("eval", ("call", "fr", [])),
    "call-frl": ("eval", ("call", "frl", [])),
    "call-fz": ("eval", ("call", "fz", [])),
    "arg-div0": ("eval", ("call", "f1", [("div0",)])),
    "arg-fr": ("eval", ("call", "f1", [("call", "fr", [])])),
    "call-fh": ("eval", ("call", "fh", [])),        # handled inside the callee: nothing propagates
}
FAIL_EXPRS = {"div0": ("div0",), "fr": ("call", "fr", []), "fatal": ("fatal",)}

HANDLERS = {
    "none": [],
    "ea": ["ea"], "eb": ["eb"], "dz": ["divide_by_zero"], "oor": ["out_of_range"], "others": ["others"],
    "ea+others": ["ea", "others"], "others+ea": ["others", "ea"], "eb+ea": ["eb", "ea"],
}


def wrap(kind, level, inner, in_loop):
    """One wrapper around a block; returns a list of statements."""
    a, b = ("print", "a%d" % level), ("print", "b%d" % level)
    body = [a] + inner + [b]
    iv, nv, ev, tv = "i%d" % level, "n%d" % level, "e%d" % level, "t%d" % level
    if kind == "for":
        return [("for", iv, ("int", 1), ("int", 2), None, "auto", body)]
    if kind == "while":
        return [("let", nv, ("int", 0)),
                ("while", ("bin", "<", ("var", nv), ("int", 2)), [("let", nv, ("bin", "+", ("var", nv), ("int", 1)))] + body)]
    if kind == "forall":
        return [("forall", ev, tv, "auto", body)]
    if kind == "if":
        return [("if", ("var", "vt"), body, None)]
    if kind.startswith("begin:"):
        hl = HANDLERS[kind[6:]]
        return [("begin", body, [(h, [("printh", "h%d-%s-" % (level, h))]) for h in hl])]
    if kind == "begin-hnested":
        # the handler contains a block that raises and handles another error: afterwards error@1 is the outer error again
        return [("begin", body, [("others", [("printh", "h%d-" % level),
                                             ("begin", [("raise", "eb")], [("eb", [("printh", "n%d-" % level)])]),
                                             ("printh", "h%d-again-" % level)])])]
    if kind == "begin-rethrow":
        return [("begin", body, [("others", [("printh", "h%d-" % level), ("raise", "eb")])])]
    if kind == "begin-hfatal":
        return [("begin", body, [("ea", [("print", "h%d" % level), ("eval", ("fatal",))])])]
    if kind == "begin-hbreak" and in_loop:
        return [("begin", body, [("others", [("print", "h%d" % level), ("break",)])])]
    if kind == "begin-hcontinue" and in_loop:
        return [("begin", body, [("others", [("print", "h%d" % level), ("continue",)])])]
    if kind == "begin-hreturn":
        return [("begin", body, [("others", [("print", "h%d" % level), ("return", ("int", 8))])])]
    return None


def fail_wrappers(level, fe):
    """Innermost constructs whose own expression fails."""
    iv, nv = "i%d" % level, "n%d" % level
    body = [("print", "x%d" % level)]
    extra = {}
    if fe == ("call", "fr", []):
        # the condition fails at its second evaluation, after a turn of the body that ended with continue / ran to its end
        for fname in ("fc", "fcz"):
            extra["while-recheck-continue:" + fname] = [("let", nv, ("int", 0)), ("while", ("bin", "==", ("call", fname, [("var", nv)]), ("int", 1)),
                                                         [("let", nv, ("bin", "+", ("var", nv), ("int", 1))), ("print", "x%d" % level), ("continue",), ("print", "nr")])]
            extra["while-recheck:" + fname] = [("let", nv, ("int", 0)), ("while", ("bin", "==", ("call", fname, [("var", nv)]), ("int", 1)),
                                                [("let", nv, ("bin", "+", ("var", nv), ("int", 1))), ("print", "x%d" % level)])]
    extra.update({
        "for-begin": [("for", iv, fe, ("int", 2), None, "auto", body)],
        "for-end": [("for", iv, ("int", 1), fe, None, "auto", body)],
        "for-step": [("for", iv, ("int", 1), ("int", 2), fe, "auto", body)],
        "while-cond": [("while", ("bin", "==", fe, ("int", 1)), body)],
        "if-cond": [("if", ("bin", "==", fe, ("int", 1)), body, None)],
        "return": [("return", fe)],
        "let": [("let", "zz", ("bin", "+", ("int", 1), fe))],
    })
    return extra


def programs(tier):
    wk = ["for", "while", "forall", "if"] + ["begin:" + h for h in HANDLERS] + ["begin-rethrow", "begin-hfatal", "begin-hbreak", "begin-hcontinue", "begin-hreturn",
                                                                               "begin-hnested"]
    if tier != "thorough":
        wk = ["for", "while", "forall", "if", "begin:none", "begin:ea", "begin:eb", "begin:dz", "begin:others", "begin:others+ea", "begin:eb+ea",
              "begin-rethrow", "begin-hbreak", "begin-hreturn", "begin-hfatal", "begin-hcontinue", "begin-hnested"]
    maxd = 3
    for depth in range(0, maxd + 1):
        for chain in itertools.product(wk, repeat=depth):
            if tier != "thorough" and depth == 3 and "begin-hnested" in chain:
                continue          # nested handlers in chains of three wrappers: thorough tier only
            # innermost payloads
            payloads = []
            for fn, fs in FAIL_STMTS.items():
                payloads.append((fn, [fs]))
            for en, fe in FAIL_EXPRS.items():
                for wn, ws in fail_wrappers(depth + 1, fe).items():
                    payloads.append((wn + ":" + en, ws))
            if tier != "thorough" and depth == 3:
                payloads = [p for p in payloads if p[0] in ("raise-ea", "raise-eab", "div0", "fatal", "call-frl", "for-end:fr", "while-cond:div0", "arg-fr", "if-cond:fatal",
                                                            "while-recheck-continue:fc:fr")]
            for pn, inner in payloads:
                block = inner
                ok = True
                for lvl in range(depth, 0, -1):
                    k = chain[lvl - 1]
                    in_loop = any(c in ("for", "while", "forall") for c in chain[:lvl - 1])
                    w = wrap(k, lvl, block, in_loop)
                    if w is None:
                        ok = False
                        break
                    block = w
                if not ok:
                    continue
                prog = [("print", "s")] + block + [("print", "e")]
                yield {"chain": list(chain), "fail": pn}, prog


def gen_factory(tier):
    def gen():
        n = 0
        for meta, prog in programs(tier):
            ptext = ctl.btext(prog)
            for route in ("cpp", "capi", "capi2"):
                ops = [op_ctx(), op_run(DECL7), op_run(FDECL),
                       op_run(ptext, route=route), op_out(), op_run(ptext, route=route), op_out(),
                       op_run('break; continue; print "after-break";', route=route), op_out(),
                       op_run(PROBES), op_out(), op_dump(0, "I")]
                m = dict(meta)
                m.update({"kind": "top", "route": route, "prog": prog})
                yield Case("e%d" % n, ops, m)
                n += 1
            # the same program as a function body, called from a top level that may handle what escapes
            if tier == "thorough" or n % 3 == 0:
                ftext = ("function fb() return integer is\nbegin\n"
                         "i1 = 0; i2 = 0; i3 = 0; i4 = 0; n1 = 0; n2 = 0; n3 = 0; n4 = 0; e1 = 0; e2 = 0; e3 = 0; zz = 0; zero = 0; vt = true; vf = false;"
                         " t1 = tab(2, 0); t2 = tab(2, 0); t3 = tab(2, 0); tv = tab(1, 1);\n%s\nreturn 99;\nend;" % ctl.btext(prog, 1))
                call = 'begin rr = fb(); print rr; exception when ea then print "top-" error@1; end; print "end";'
                ops = [op_ctx(), op_run(DECL7), op_run(FDECL), op_run(ftext),
                       op_run(call), op_out(), op_run(call), op_out(),
                       op_run('break; continue; print "after-break";'), op_out(),
                       op_run(PROBES), op_out(), op_dump(0, "I")]
                m = dict(meta)
                m.update({"kind": "func", "route": "cpp", "prog": prog})
                yield Case("e%d" % n, ops, m)
                n += 1
    return gen


def ref_run(m):
    ref = ctl.Ref(funcs=dict(FUNCS), budget=5000)
    if m["kind"] == "top":
        env = {"i1": 0, "i2": 0, "i3": 0, "i4": 0, "n1": 0, "n2": 0, "n3": 0, "n4": 0, "e1": 0, "e2": 0, "e3": 0, "zz": 0, "zero": 0, "vt": True, "vf": False,
               "t1": [0, 0], "t2": [0, 0], "t3": [0, 0], "tv": [1]}
        (status, detail), env = ref.run_program(m["prog"], env)
        return ref, status, detail
    orig = ref.stmt

    def stmt(s, env, depth):
        if s[0] == "_locals":
            env.update({"i1": 0, "i2": 0, "i3": 0, "i4": 0, "n1": 0, "n2": 0, "n3": 0, "n4": 0, "e1": 0, "e2": 0, "e3": 0, "zz": 0, "zero": 0, "vt": True,
                        "vf": False, "t1": [0, 0], "t2": [0, 0], "t3": [0, 0], "tv": [1]})
            return
        return orig(s, env, depth)
    ref.stmt = stmt
    ref.funcs["fb"] = ([], [("_locals",)] + m["prog"] + [("return", ("int", 99))])
    top = [("begin", [("let", "rr", ("call", "fb", [])), ("printv", "rr")], [("ea", [("printh0",)])]), ("print", "end")]

    def stmt2(s, env, depth):
        if s[0] == "printh0":
            ref.out.append("top-" + (ref.cur_error.name if ref.cur_error else ""))
            return
        return stmt(s, env, depth)
    ref.stmt = stmt2
    (status, detail), env = ref.run_program(top, {})
    return ref, status, detail


# error names of every length around the 256-byte message buffer: the clause with exactly the raised name takes the error, a name that
# agrees on a long prefix does not; error@1 is the name
NAME_LENGTHS = [1, 2, 31, 32, 33, 127, 128, 200, 254, 255, 256, 257, 258, 300, 511, 512, 513, 1000]


def names_gen(tier):
    def gen():
        n = 0
        for L in NAME_LENGTHS:
            name = ("k" * L)
            other = name[:-1] + "f" if L > 1 else "f"
            longer = name + "x"
            progs = {
                "own-clause": 'begin raise %s; exception when %s then print "own " strlen(error@1) " " (error@1 == "%s"); when others then print "others"; end;' % (name, name, name.upper()),
                "other-name-first": 'begin raise %s; exception when %s then print "wrong"; when %s then print "longer"; when %s then print "own"; when others then print "others"; end;' % (name, other, longer, name),
                "only-similar": 'begin raise %s; exception when %s then print "wrong"; when %s then print "longer"; when others then print "others " strlen(error@1); end;' % (name, other, longer),
                "nested": 'begin begin raise %s; exception when %s then print "inner-wrong"; end; exception when %s then print "outer-own"; end;' % (name, other, name),
                "function": 'function fl() return integer is begin raise %s; return 1; end; begin zz = fl(); exception when %s then print "own"; when others then print "others"; end;' % (name, name),
            }
            want = {"own-clause": "own %d TRUE\n" % L, "other-name-first": "own\n", "only-similar": "others %d\n" % L, "nested": "outer-own\n", "function": "own\n"}
            for tag, prog in progs.items():
                for route in ("cpp", "capi"):
                    ops = [op_ctx(), op_run(prog, route=route), op_out()]
                    yield Case("n%d" % n, ops, {"kind": "names", "tag": tag, "len": L, "want": want[tag], "route": route})
                    n += 1
    return gen


# explicit programs around what error@1 shows once everything is handled, and around clauses that share a name
EXPLICIT7 = [
    ("error-after-raising-handler", 'begin begin begin raise a; exception when a then raise b; end; exception when b then print "in B: " error@1; end; print "after: [" error@1 "]"; '
     'exception when others then print "x"; end; print "top: [" error@1 "]";', "in B: B\nafter: []\ntop: []\n"),
    ("error-after-raising-handler-in-function", 'function fh() return integer is begin begin raise a; exception when a then raise b; end; return 1; end; '
     'begin zz = fh(); exception when b then print "caught " error@1; end; print "[" error@1 "]"; begin zz = 1 / 0; exception when others then print error@1; end; print "[" error@1 "]";',
     "caught B\n[]\nDIVIDE_BY_ZERO\n[]\n"),
    ("error-after-failing-handler", 'begin begin raise a; exception when a then zz = 1 / 0; end; exception when divide_by_zero then print "dz " error@1; end; print "[" error@1 "]";', "dz DIVIDE_BY_ZERO\n[]\n"),
    ("duplicate-clause-user", 'begin raise a; exception when a then print "first"; when a then print "second"; when others then print "others"; end;', "first\n"),
    ("duplicate-clause-others", 'begin raise a; exception when others then print "first"; when others then print "second"; end;', "first\n"),
    ("duplicate-clause-dz", 'begin zz = 1 / 0; exception when divide_by_zero then print "first"; when b then print "b"; when divide_by_zero then print "second"; end;', "first\n"),
    ("duplicate-clause-oor", 'begin raise out_of_range; exception when b then print "b"; when out_of_range then print "first"; when out_of_range then print "second"; when others then print "o"; end;', "first\n"),
    ("duplicate-clause-interleaved", 'for k in 1 to 2 loop begin if k == 1 then raise a; end if; raise b; exception when a then print "a1"; when b then print "b1"; when a then print "a2"; when b then print "b2"; end; end loop;', "a1\nb1\n"),
    ("duplicate-clause-in-function", 'function fd(k) return string is begin begin if k then raise a; end if; raise c; exception when a then return "a1"; when c then return "c1"; when a then return "a2"; end; return "none"; end; print fd(true) fd(false);', "a1c1\n"),
]


def explicit7_gen(tier):
    def gen():
        n = 0
        for tag, prog, want in EXPLICIT7:
            for route in ("cpp", "capi", "capi2"):
                ops = [op_ctx(), op_run("zz = 0;"), op_run(prog, route=route), op_out()]
                yield Case("x%d" % n, ops, {"kind": "explicit7", "tag": tag, "prog": prog, "want": want, "route": route})
                n += 1
    return gen


def check_names(case, res, vs):
    m = case.meta
    st = res["steps"]
    out = unhex(st[2].get("out", "")).decode("latin-1")
    if st[1].get("r") != "ok" or out != m["want"]:
        vs.append(Violation("names:%s" % m["tag"], "error name of %d characters (%s, %s): result %s, printed %r, expected %r" % (
            m["len"], m["tag"], m["route"], {k: v for k, v in st[1].items() if k in ("r", "no")}, out[:80], m["want"]), case))
    return vs, True


def check(case, res):
    vs = generic_safety(case, res)
    if res.get("st") == "done" and case.meta.get("kind") == "names":
        return check_names(case, res, vs)
    if res.get("st") == "done" and case.meta.get("kind") == "explicit7":
        m_, st_ = case.meta, res["steps"]
        out_ = unhex(st_[3].get("out", "")).decode("latin-1")
        if st_[2].get("r") != "ok" or out_ != m_["want"]:
            vs.append(Violation("explicit:%s" % m_["tag"], "%s (%s) gives %s, prints %r, expected %r" % (m_["prog"], m_["route"], st_[2].get("r"), out_, m_["want"]), case))
        return vs, True
    if res.get("st") != "done":
        return vs, True
    m = case.meta
    st = res["steps"]
    base = 3 if m["kind"] == "top" else 4
    for k in range(1, base):
        if st[k].get("r") != "ok":
            vs.append(Violation("setup-rejected", "setup step rejected: %s" % st[k], case))
            return vs, False
    run1, out1, run2, out2 = st[base], text(st[base + 1]), st[base + 2], text(st[base + 3])
    brk, brkout = st[base + 4], text(st[base + 5])
    prun, pout, pdump = st[base + 6], text(st[base + 7]), st[base + 8]
    ref, status, detail = ref_run(m)
    want = "".join(l + "\n" for l in ref.out)
    tag = m["fail"].split(":")[0]
    if status == "nonterm":
        vs.append(Violation("oracle:nonterm", "reference did not terminate", case))
        return vs, False
    if run1.get("r") == "budget":
        vs.append(Violation("nonterminating:" + tag, "program does not terminate", case))
        return vs, True
    # first run
    if status == "ok":
        if run1.get("r") != "ok":
            vs.append(Violation("unexpected-error:" + tag, "handled in the model, but reported %s" % run1, case))
        elif m["kind"] == "top":
            wr = None if detail is None else "i%d" % detail
            if run1.get("ret") != wr:
                vs.append(Violation("result:" + tag, "program result %r, expected %r" % (run1.get("ret"), wr), case))
    else:
        if run1.get("r") != "rerr":
            vs.append(Violation("error-not-reported:" + tag, "expected %s reported to the host, got %s" % (detail.name, run1), case))
        elif (detail.no == 1 and run1.get("msg") != detail.msg) or (detail.no is not None and run1.get("no") != detail.no):
            # a user error is identified by its name, any other by its number (message wording is not part of the property)
            vs.append(Violation("error-identity:" + tag, "expected %s (%s), host got %s" % (detail.msg, detail.no, run1), case))
        if run1.get("rc"):
            vs.append(Violation("residue:pending-return", "a return is still pending after the error was reported", case))
    if out1 != want:
        vs.append(Violation("trace:" + tag, "printed %r, expected %r" % (out1, want), case))
    # second run of the same program in the same context: same result
    if (run2.get("r"), run2.get("msg"), run2.get("ret")) != (run1.get("r"), run1.get("msg"), run1.get("ret")) or out2 != out1:
        vs.append(Violation("residue:second-run", "second run gave %s %r, first run %s %r" % (run2, out2, run1, out1), case))
    if brk.get("r") != "ok" or brkout != "after-break\n":
        vs.append(Violation("residue:top-break", "a break/continue at top level after the program: %s %r" % (brk, brkout), case))
    check_probes(vs, case, prun, pout, pdump, "33", "error")
    return vs, True


CLI_PROBES = ["break;", "continue;", 'print "after-break";', "for k in 1 to 3 loop", "print k;", "end loop;",
              "n = 0;", "while n < 3 loop", "n = n + 1;", "if n == 2 then", "continue;", "end if;", "print n;", "end loop;",
              't1.concat(7);', 'print t1.count();', 'i1 = "s";', 'e1 = "s";', "print typeof(i1) typeof(e1);"]


def cli_scenarios(tier):
    """the same error programs typed into the interactive command, followed by probe statements"""
    out = []
    n = 0
    step = 3 if tier == "thorough" else 41
    for meta, prog in programs("quick"):
        n += 1
        if n % step:
            continue
        if any(w in ("begin-hreturn",) for w in meta["chain"]) or meta["fail"].startswith("return"):
            continue      # a top-level return prints its value in interactive mode: covered by C19
        lines = (DECL7 + "\n" + FDECL + "\n" + ctl.btext(prog)).split("\n") + CLI_PROBES
        out.append(("%s|%s#%d" % ("/".join(meta["chain"]) or "top", meta["fail"], n), lines))
    return out


def run(tier):
    t0 = time.time()
    res = explore(PROP + "-" + tier, gen_factory(tier), check, chunk=150, deadline=t0 + (2400 if tier == "thorough" else 420))
    res.merge(explore(PROP + "-" + tier + "-names", names_gen(tier), check, chunk=50, deadline=t0 + 600))
    res.merge(explore(PROP + "-" + tier + "-explicit", explicit7_gen(tier), check, chunk=10, deadline=t0 + 600))
    # the interactive statement loop of the bloc command has its own error handling: drive it for real
    from . import c19
    exe, env = c19.exe_env()
    col = c19.Collector()
    c19.interactive_pass(col, exe, env, cli_scenarios(tier), tag="cli-interactive")
    res.merge(col.res)
    res.parts.append({"part": "bloc -i transcripts", "runs": col.res.evaluations})
    rule = ("every chain of depth 0..3 of wrappers {for, while, forall, if, begin with each handler list, begin whose handler re-raises / fails / breaks / "
            "continues / returns} around every failing operation (raise ea/eb, 1/0, raise out_of_range, non-catchable index error, failing function, "
            "function failing inside its own loop, failing argument, error in for begin/end/step, while/if condition, return/assignment expression), "
            "as a top-level program through the C++ and the C API and as a function body; trace, handler choice, error@1/@2, reported error number "
            "and text compared with the reference interpreter; then the program is run a second time and probe statements check the context")
    return finish(PROP, tier, res, check, rule, t0, assumptions=["reference interpreter vf/ctl.py", "handler matching rules of the manual (others = user, divide_by_zero, out_of_range)"])
