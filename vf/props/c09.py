"""C09 — tables stay uniform, tuples keep their structure, indexing is range-checked.

Explicit-state breadth-first search over histories of container operations. A state is the canonical dump of
the container (reached by replaying the shortest history that produced it on a fresh context); every operation of
the alphabet is applied to every distinct state of the previous level. In every state: uniformity invariant
(every element has exactly the table's element type, every tuple item its declared type), contents equal the
reference model (a Python list), a rejected operation leaves the dump unchanged, out-of-range and null positions
are rejected, documented results for in-range positions. Plus: all tuple declarations of <= 4 items over 6 item
types must be distinguished by the implementation's type equality, and mutators of a table under forall must be
rejected at compile time.
"""
import itertools
import time

from ..core import Case, Violation, explore, finish, generic_safety, op_ctx, op_run, op_dump, op_out, unhex, Result
from ..dumpparse import parse_symbol, uniform, elem_type_ok

PROP = "C09"
MAX = 2 ** 63 - 1

# element candidates: tag -> (expression, parsed value, type string)
TUPA = "tuple{integer,string}"
TUPB = "tuple{string,integer}"
ELEMS = {
    "int": ("7", ("i", 7), "integer"),
    "intn": ("-3", ("i", -3), "integer"),
    "dec": ("2.5", ("d", 2.5), "decimal"),
    "decw": ("4.0", ("d", 4.0), "decimal"),
    "str": ('"q"', ("s", b"q"), "string"),
    "bytes": ('raw("q")', ("x", b"q"), "bytes"),
    "bool": ("true", ("b", True), "boolean"),
    "cpx": ("ii", ("c", (0.0, 1.0)), "complex"),
    "tupA": ('tup(9, "z")', ("R", TUPA, [("i", 9), ("s", b"z")], None), TUPA),
    "tupB": ('tup("z", 9)', ("R", TUPB, [("s", b"z"), ("i", 9)], None), TUPB),
    "tabI": ("tab(2, 4)", ("T", "integer*1", [("i", 4), ("i", 4)], None), "integer*1"),
    "tabI3": ("tab(1, 1).concat(2).concat(3)", ("T", "integer*1", [("i", 1), ("i", 2), ("i", 3)], None), "integer*1"),
    "tabS": ('tab(1, "w")', ("T", "string*1", [("s", b"w")], None), "string*1"),
    "tabE": ("tab(0, 4)", ("T", "integer*1", [], None), "integer*1"),
    "tabII": ("tab(1, tab(1, 8))", ("T", "integer*2", [("T", "integer*1", [("i", 8)], None)], None), "integer*2"),
    "tabD": ("tab(1, 1.5)", ("T", "decimal*1", [("d", 1.5)], None), "decimal*1"),
    "tabTA": ('tab(1, tup(3, "y"))', ("T", TUPA + "*1", [("R", TUPA, [("i", 3), ("s", b"y")], None)], None), TUPA + "*1"),
    "nint": ("int()", ("N", "integer"), "integer"),
    "ndec": ("num()", ("N", "decimal"), "decimal"),
    "nstr": ("str()", ("N", "string"), "string"),
    "nbytes": ("raw()", ("N", "bytes"), "bytes"),
    "nbool": ("bool()", ("N", "boolean"), "boolean"),
    "null": ("null", ("N", "undefined"), "undefined"),
    "ntab": ("tab()", ("N", "undefined*?"), "nulltable"),
    "ntup": ("tup()", ("N", "tuple{?}"), "nulltuple"),
}

KINDS = {
    "tI": ("c = tab(2, 1);", "integer"),
    "tD": ("c = tab(2, 1.5);", "decimal"),
    "tS": ('c = tab(2, "a");', "string"),
    "tX": ('c = tab(2, raw("a"));', "bytes"),
    "tB": ("c = tab(2, false);", "boolean"),
    "tR": ('c = tab(2, tup(1, "a"));', TUPA),
    "tT": ("c = tab(2, tab(2, 1));", "integer*1"),
    "str": ('c = "abc";', None),
    "raw": ('c = raw("abc");', None),
    "tup": ('c = tup(1, "a", 2.5, true, raw("b"));', None),
}


IDF = "function idf(x) return undefined is begin return x; end;"


def positions(n):
    ps = [None, -1, 0, 1, n - 1, n, n + 1, 4294967296, MAX]
    out = []
    for p in ps:
        if p not in out:
            out.append(p)
    return out


def ptext(p):
    return "int()" if p is None else ("(%d)" % p if p < 0 else str(p))


def mixable(te, tv):
    return (te, tv) in (("integer", "decimal"), ("decimal", "integer"))


def convert(te, v):
    """value stored into an element of type te (after int/decimal mixing)"""
    if v[0] == "N":
        return ("N", te)
    if te == "decimal" and v[0] == "i":
        return ("d", float(v[1]))
    if te == "integer" and v[0] == "d":
        return ("i", int(v[1]))
    return v


def store_verdict(te, tag):
    """('accept'|'reject'|'either', stored value) for storing candidate `tag` as one element of type te"""
    expr, v, tv = ELEMS[tag]
    if tag == "null":
        return "either", ("N", te)
    if tv == te:
        return "accept", convert(te, v)
    if mixable(te, tv):
        return "either", convert(te, v)
    if tv in ("nulltable", "nulltuple"):
        return "either-reject", ("N", te)    # an untyped null container: may be taken as a null element or refused
    return "reject", None


def table_ops(state):
    """Alphabet of operations for a table state: (text, opdesc)"""
    n = len(state[2])
    te = state[1].rsplit("*", 1)[0] if state[1].endswith("*1") else "%s*%d" % (state[1].rsplit("*", 1)[0], int(state[1].rsplit("*", 1)[1]) - 1)
    ops = [("r = c.count();", ("count",))]
    for p in positions(n):
        ops.append(("r = c.at(%s);" % ptext(p), ("at", p)))
        ops.append(("c.delete(%s);" % ptext(p), ("delete", p)))
        full = p in (0, n)
        for tag in ELEMS:
            expr, v, tv = ELEMS[tag]
            if not full and tag not in ("int", "dec", "str", "null", "tupA", "tabI", "nint", "nstr"):
                continue
            ops.append(("c.put(%s, %s);" % (ptext(p), expr), ("put", p, tag)))
            ops.append(("c.insert(%s, %s);" % (ptext(p), expr), ("insert", p, tag)))
            if p == 0:
                # the same through an expression of opaque static type: only run-time checks apply
                ops.append(("c.put(%s, idf(%s));" % (ptext(p), expr), ("put", p, tag)))
                ops.append(("c.insert(%s, idf(%s));" % (ptext(p), expr), ("insert", p, tag)))
    for tag in ELEMS:
        ops.append(("c.concat(%s);" % ELEMS[tag][0], ("concat", tag)))
        ops.append(("c.concat(idf(%s));" % ELEMS[tag][0], ("concat", tag)))
    ops.append(("c.concat(c);", ("concat-self",)))
    ops.append(("c.insert(1, c);", ("insert-self", 1)))
    return ops, te


def table_model(state, te, op):
    """-> (verdict, new_state | None, result | None)"""
    items = list(state[2])
    n = len(items)
    tt = state[1]
    k = op[0]

    def inrange(p, hi):
        return p is not None and 0 <= p < hi

    def mk(lst):
        return ("T", tt, lst, None)
    if k == "count":
        return "accept", state, ("i", n)
    if k == "at":
        if inrange(op[1], n):
            return "accept", state, items[op[1]]
        return "reject", None, None
    if k == "delete":
        if inrange(op[1], n):
            return "accept", mk(items[:op[1]] + items[op[1] + 1:]), None
        return "reject", None, None
    if k in ("put", "insert", "concat"):
        tag = op[-1]
        expr, v, tv = ELEMS[tag]
        p = op[1] if k != "concat" else n
        spread = (k in ("insert", "concat")) and tv == tt and v[0] == "T"
        if k == "put":
            if not inrange(p, n):
                return "reject", None, None
        elif k == "insert":
            if p is None or p < 0 or p > n:
                return "reject", None, None
        if spread:
            new = items[:p] + list(v[2]) + items[p:]
            verdict = "accept" if (k == "concat" or p < n) else "either"
            return verdict, mk(new), None
        verdict, sv = store_verdict(te, tag)
        if verdict == "reject":
            return "reject", None, None
        if verdict == "either-reject":
            # an untyped null container: refused, ignored, or stored as a null element - only the invariants are checked
            return "either", None, None
        if k == "put":
            new = items[:p] + [sv] + items[p + 1:]
        else:
            new = items[:p] + [sv] + items[p:]
            if k == "insert" and p == n and verdict == "accept":
                verdict = "either"
        return verdict, mk(new), None
    if k == "concat-self":
        return "accept", mk(items + items), None
    if k == "insert-self":
        p = op[1]
        if p > n:
            return "reject", None, None
        return ("accept" if p < n else "either"), mk(items[:p] + items + items[p:]), None
    raise ValueError(op)


CODES = [None, -1, 0, 65, 255, 256, MAX]


def seq_ops(state):
    n = len(state[1])
    isstr = state[0] == "s"
    ops = [("r = c.count();", ("count",))]
    for p in positions(n):
        ops.append(("r = c.at(%s);" % ptext(p), ("at", p)))
        ops.append(("c.delete(%s);" % ptext(p), ("delete", p)))
        for code in CODES:
            if p not in (0, n) and code not in (65, 256, None):
                continue
            ops.append(("c.put(%s, %s);" % (ptext(p), ptext(code)), ("put", p, code)))
            ops.append(("c.insert(%s, %s);" % (ptext(p), ptext(code)), ("insert", p, code)))
        for s in ("", "xy"):
            ops.append(("c.insert(%s, %s);" % (ptext(p), ('"%s"' if isstr else 'raw("%s")') % s), ("inserts", p, s)))
    for code in CODES:
        ops.append(("c.concat(%s);" % ptext(code), ("concat", code)))
    for s in ("", "xy"):
        ops.append(("c.concat(%s);" % (('"%s"' if isstr else 'raw("%s")') % s), ("concats", s)))
    ops.append(("c.concat(c);", ("concat-self",)))
    return ops


def seq_model(state, op):
    kind, data = state[0], state[1]
    n = len(data)
    k = op[0]

    def mk(b):
        return (kind, bytes(b))

    def inrange(p, hi):
        return p is not None and 0 <= p < hi

    def codeok(c):
        return c is not None and 0 <= c <= 255
    if k == "count":
        return "accept", state, ("i", n)
    if k == "at":
        if inrange(op[1], n):
            return "accept", state, ("i", data[op[1]])
        return "reject", None, None
    if k == "delete":
        if inrange(op[1], n):
            return "accept", mk(data[:op[1]] + data[op[1] + 1:]), None
        return "reject", None, None
    if k == "put":
        p, c = op[1], op[2]
        if not inrange(p, n) or (c is not None and not codeok(c)):
            return "reject", None, None
        if c is None:
            return "either", state, None     # a null code: refused, or nothing stored
        return "accept", mk(data[:p] + bytes([c]) + data[p + 1:]), None
    if k == "insert":
        p, c = op[1], op[2]
        if p is None or p < 0 or p > n or (c is not None and not codeok(c)):
            return "reject", None, None
        if c is None:
            return "either", state, None
        return ("accept" if p < n else "either"), mk(data[:p] + bytes([c]) + data[p:]), None
    if k == "inserts":
        p, s = op[1], op[2].encode()
        if p is None or p < 0 or p > n:
            return "reject", None, None
        return ("accept" if p < n else "either"), mk(data[:p] + s + data[p:]), None
    if k == "concat":
        c = op[1]
        if c is None:
            return "either", state, None
        if not codeok(c):
            return "reject", None, None
        return "accept", mk(data + bytes([c])), None
    if k == "concats":
        return "accept", mk(data + op[1].encode()), None
    if k == "concat-self":
        return "accept", mk(data + data), None
    raise ValueError(op)


TUP_TYPES = ["integer", "string", "decimal", "boolean", "bytes"]
RANKS = [0, 1, 2, 5, 6, 4294967297]


def tup_ops(state):
    ops = [("r = c.count();", ("count",))]
    for k in RANKS:
        ops.append(("r = c@%d;" % k, ("get", k)))
        for tag in ("int", "dec", "str", "bytes", "bool", "cpx", "nint", "ndec", "nstr", "nbytes", "nbool", "null", "tupA", "tabI"):
            ops.append(("c.set@%d(%s);" % (k, ELEMS[tag][0]), ("set", k, tag)))
    return ops


def tup_model(state, op):
    items = list(state[2])
    n = len(items)
    k = op[0]
    if k == "count":
        return "accept", state, ("i", n)
    if k == "get":
        if 1 <= op[1] <= n:
            return "accept", state, items[op[1] - 1]
        return "reject", None, None
    if k == "set":
        r, tag = op[1], op[2]
        if not (1 <= r <= n):
            return "reject", None, None
        te = TUP_TYPES[r - 1]
        verdict, sv = store_verdict(te, tag)
        if verdict in ("reject", "either-reject"):
            return "reject" if verdict == "reject" else "either", state if verdict != "reject" else None, None
        new = items[:r - 1] + [sv] + items[r:]
        return verdict, ("R", state[1], new, None), None
    raise ValueError(op)


def ops_for(kind, state):
    if kind.startswith("t") and kind != "tup":
        ops, te = table_ops(state)
        return [(t, d, te) for t, d in ops]
    if kind in ("str", "raw"):
        return [(t, d, None) for t, d in seq_ops(state)]
    return [(t, d, None) for t, d in tup_ops(state)]


def model(kind, state, te, op):
    if kind.startswith("t") and kind != "tup":
        return table_model(state, te, op)
    if kind in ("str", "raw"):
        return seq_model(state, op)
    return tup_model(state, op)


def veq(a, b):
    """structural equality of parsed values (NaN-free alphabets)"""
    return a == b


# ------------------------------------------------------------------------------------------------
def level_gen(frontier):
    """frontier: list of (kind, history_texts, state)"""
    def gen():
        n = 0
        for kind, hist, sdump in frontier:
            state = parse_symbol(sdump)[2]
            for text, desc, te in ops_for(kind, state):
                ops = [op_ctx(), op_run(IDF), op_run(KINDS[kind][0])]
                for h in hist:
                    ops.append(op_run(h))
                ops += [op_dump(0, "C"), op_run("r = null; " + text), op_dump(0, "C,R")]
                yield Case("s%d" % n, ops, {"kind": kind, "hist": hist, "op": list(desc), "text": text, "state": sdump, "te": te})
                n += 1
    return gen


def check(case, res):
    vs = generic_safety(case, res)
    if res.get("st") != "done":
        return vs, True
    m = case.meta
    if m.get("kind") == "wrongmod":
        from . import c17
        return c17.check(case, res)
    if m.get("kind") in ("decl", "forall", "vary", "tupitem", "refuse", "copy", "dim"):
        return check_extra(case, res, vs)
    st = res["steps"]
    kind = m["kind"]
    before = st[-3].get("vars", {}).get("C")
    run = st[-2]
    after = st[-1].get("vars", {})

    def bad(key, msg):
        vs.append(Violation("%s:%s:%s" % (kind, m["op"][0], key), "%s after %s: %s" % (m["text"], m["hist"], msg), case))
    try:
        tb, fb, vb = parse_symbol(before)
        ta, fa, va = parse_symbol(after.get("C"))
    except Exception as e:
        bad("dump", "cannot parse dump %r / %r (%s)" % (before, after.get("C"), e))
        return vs, False
    state = parse_symbol(m["state"])[2]
    if not veq(vb, state):
        bad("replay-divergence", "replayed history gives %r, stored state %r" % (vb, state))
        return vs, False
    # invariant: uniformity, in every state
    u = uniform(va)
    if u:
        bad("not-uniform", u)
    if "S" in fa or "L" in fa:
        bad("flags", "container variable left with constraint flags %r" % fa)
    verdict, new, result = model(kind, state, m["te"], tuple(m["op"]))
    accepted = run.get("r") == "ok"
    if run.get("r") not in ("ok", "perr", "rerr"):
        return vs, True
    if not accepted:
        if not veq(va, vb) or ta != tb:
            bad("rejected-but-changed", "operation was rejected (%s) but the container changed from %r to %r" % (run.get("msg"), vb, va))
        if verdict == "accept":
            bad("rejected", "documented operation rejected: %s" % run)
    else:
        if verdict == "reject":
            bad("accepted", "operation must be rejected (position or type), but it was accepted; container now %r" % (va,))
        elif new is not None and not veq(va, new):
            bad("content", "container is %r, model says %r" % (va, new))
        if result is not None and verdict != "reject":
            try:
                tr, fr, vr = parse_symbol(after.get("R"))
            except Exception:
                vr = None
            if vr != result and not (kind == "str" and m["op"][0] == "at" and vr == ("s", bytes([result[1]]))):
                bad("result", "returned %r, model says %r" % (vr, result))
    return vs, True


def _tup(x):
    """JSON round trip turns tuples into lists: normalise parsed values back"""
    if isinstance(x, (list, tuple)):
        if len(x) and isinstance(x[0], str) and x[0] in ("T", "R"):
            return (x[0], x[1], [_tup(e) for e in x[2]], x[3])
        if len(x) == 2 and isinstance(x[0], str):
            v = x[1]
            if x[0] == "c":
                v = tuple(v)
            return (x[0], v)
    return x


def collect(case, res):
    """new states reached by accepted operations: key (kind, dump) -> shortest history"""
    m = case.meta
    if m.get("kind") in ("decl", "forall") or res.get("st") != "done":
        return []
    st = res["steps"]
    if st[-2].get("r") != "ok":
        return []
    after = st[-1].get("vars", {}).get("C")
    try:
        ta, fa, va = parse_symbol(after)
    except Exception:
        return []
    # bound the size of containers explored further
    size = len(va[2]) if va[0] in ("T", "R") else len(va[1]) if va[0] in ("s", "x") else 0
    if size > 5:
        return []
    return [((m["kind"], after), m["hist"] + [m["text"]])]


# ------------------------------------------------------------------------------------------------
# tuple declarations: the implementation's type identity must coincide with structural equality
DECL_ITEMS = {"integer": "1", "decimal": "1.5", "string": '"s"', "boolean": "true", "bytes": 'raw("b")', "complex": "ii"}


def decl_gen(tier):
    names = list(DECL_ITEMS)
    decls = []
    for l in range(1, 5 if tier == "thorough" else 4):
        for t in itertools.product(names, repeat=l):
            decls.append(t)

    def gen():
        n = 0
        # each declaration d: a table of d must accept d and reject every other declaration d2 (checked in batches)
        for i, d in enumerate(decls):
            batch = []
            others = decls if tier == "thorough" else decls[max(0, i - 40):i + 40] + decls[::37]
            for d2 in others:
                batch.append(d2)
                if len(batch) == 40:
                    yield mk_decl_case(n, d, batch)
                    n += 1
                    batch = []
            if batch:
                yield mk_decl_case(n, d, batch)
                n += 1
    return gen


def tup_expr(d):
    return "tup(%s)" % ", ".join(DECL_ITEMS[t] for t in d)


def mk_decl_case(n, d, batch):
    ops = [op_ctx(), op_run("t = tab(1, %s);" % tup_expr(d))]
    for d2 in batch:
        ops.append(op_run("t.put(0, %s);" % tup_expr(d2)))
    ops.append(op_dump(0, "T"))
    return Case("d%d" % n, ops, {"kind": "decl", "d": list(d), "batch": [list(b) for b in batch]})


FORALL_MUT = ["t.concat(1);", "t.delete(0);", "t.insert(0, 1);", "t.put(0, 5);", "t = tab(1, 1);", "t.concat(t);", "u = t; u.concat(1);",
              "t.at(0);", "x = t.count();", "e = 5;", "zz = fmut(t);", "forall g in t loop g = 1; end loop;", "t.put(0, 5).concat(1);"]
# which of them mutate the iterated table itself (must be rejected at compile time)
FORALL_REJECT = {"t.concat(1);", "t.delete(0);", "t.insert(0, 1);", "t.put(0, 5);", "t = tab(1, 1);", "t.concat(t);", "t.put(0, 5).concat(1);"}


# the iterated table is an element of a table of tables: the variable that holds it is read-only while the loop runs
ROW_MUT = ["tt.at(0).concat(1);", "tt.at(0).delete(0);", "tt.at(0).insert(0, 1);", "tt.at(0).put(0, 5);", "tt.put(0, tab(1, 1));", "tt.delete(0);",
           "tt = tab(1, tab(1, 1));", "tt.at(1).concat(1);", "tt.at(0).put(0, 5).concat(1);", "tt.concat(tab(1, 1));", "u = tt; u.delete(0);", "zz = tt.at(0).count();"]
ROW_ACCEPT = {"u = tt; u.delete(0);", "zz = tt.at(0).count();"}


def forall_gen(tier):
    def gen():
        n = 0
        for mtext in ROW_MUT:
            for wrap in ("%s", "if true then %s end if;", "begin %s end;", "for k in 1 to 1 loop %s end loop;"):
                for head in ("forall e in tt.at(0) loop", "forall e in tt.at(0) desc loop", "forall r in tt loop forall e in r loop"):
                    tail = "end loop;" if head.count("forall") == 1 else "end loop; end loop;"
                    prog = "%s %s %s" % (head, wrap % mtext, tail)
                    ops = [op_ctx(), op_run("tt = tab(2, tab(3, 1)); zz = 0; u = tab(0, tab(0, 0));"), op_run(prog), op_dump(0, "TT"),
                           op_run("tt.at(0).concat(7); tt.concat(tab(1, 2)); print tt.count() tt.at(0).count();"), op_out()]
                    yield Case("f%d" % n, ops, {"kind": "forall", "m": mtext, "prog": prog, "row": True})
                    n += 1
        # a typed declaration through the iterator re-creates the visited element: only with the element's own type
        for setup, var, heads in (("tt = tab(2, tab(3, 1));", "TT", ("forall e in tt loop", "forall e in tt desc loop")),
                                  ('tt = tab(2, tab(2, tab(1, "s")));', "TT", ("forall e in tt loop", "forall r in tt loop forall e in r loop", "forall e in tt.at(1) loop")),
                                  ('tt = tab(3, tup(1, "a"));', "TT", ("forall e in tt loop",)),
                                  ("tt = tab(3, 1);", "TT", ("forall e in tt loop",))):
            for decl in ("e:table;", "e:tuple;", "e:integer;", "e:string;", "e:decimal;", "e:bytes;", "e:boolean;", "e:complex;", "e:object;"):
                for wrap in ("%s", "if true then %s end if;", "begin %s exception when others then nop; end;"):
                    for head in heads:
                        tail = "end loop;" if head.count("forall") == 1 else "end loop; end loop;"
                        prog = "%s %s %s" % (head, wrap % decl, tail)
                        ops = [op_ctx(), op_run(setup), op_dump(0, var), op_run(prog), op_dump(0, var)]
                        yield Case("f%d" % n, ops, {"kind": "forall", "m": decl, "prog": prog, "setup": setup, "rowdecl": True})
                        n += 1
        for mtext in FORALL_MUT:
            for wrap in ("%s", "if true then %s end if;", "begin %s end;", "for k in 1 to 1 loop %s end loop;"):
                body = wrap % mtext
                prog = "forall e in t loop %s end loop;" % body
                ops = [op_ctx(), op_run("t = tab(3, 1); function fmut(a) return integer is begin a.concat(9); return a.count(); end;"),
                       op_run(prog), op_dump(0, "T"), op_run("t.concat(7); print t.count();"), op_out()]
                yield Case("f%d" % n, ops, {"kind": "forall", "m": mtext, "prog": prog})
                n += 1
    return gen


# item / element expressions whose value changes from one evaluation to the next (tab(n, expr) evaluates expr per element; concat,
# put and insert receive whatever an opaque function hands back): the container must refuse them or stay uniform
VARY = {"7": "integer", "int()": "integer", '"s"': "string", "str()": "string", "2.5": "decimal", "num()": "decimal", "true": "boolean",
        "null": None, "tab(1, 1)": "table", 'tab(1, "s")': "tableS", "tab()": None, "tup(1, 2)": "tuple", 'raw("x")': "bytes"}


def vary_gen(tier):
    def gen():
        n = 0
        vals = list(VARY)
        for seq in itertools.product(vals, repeat=3):
            if tier != "thorough" and len(set(seq)) == 3 and n % 2:
                n += 1
                continue
            fn = ("function vseq(s) return undefined is begin if s.count() == 1 then return %s; end if; if s.count() == 2 then return %s; end if; "
                  "return %s; end;" % seq)
            progs = {
                "tab": 's = ""; t = tab(3, vseq(s.concat("x")));',
                "concat": 's = ""; t = tab(1, vseq(s.concat("x"))); t.concat(vseq(s.concat("x"))); t.concat(vseq(s.concat("x")));',
                "put": 's = ""; t = tab(3, vseq("x")); s = "x"; t.put(1, vseq(s.concat("x"))); t.put(2, vseq(s.concat("x")));',
                "insert": 's = ""; t = tab(1, vseq(s.concat("x"))); t.insert(0, vseq(s.concat("x"))); t.insert(1, vseq(s.concat("x")));',
                # rows of a table of tables, one of them null, receive what an opaque function hands back
                "row-concat": 's = ""; t = tab(3, tab(1, 7)); t.put(0, null); zz = vseq(s.concat("x")); t.at(0).concat(vseq(s.concat("x"))); t.at(1).concat(vseq(s.concat("x")));',
                "row-put": 's = ""; t = tab(3, tab(1, 7)); zz = vseq(s.concat("x")); t.at(1).put(0, vseq(s.concat("x"))); t.put(2, vseq(s.concat("x")));',
            }
            for pk, prog in progs.items():
                ops = [op_ctx(), op_run(fn), op_run(prog), op_dump(0, "T"), op_run("forall e in t loop zz = typeof(e); end loop; print t.count();"), op_out(0)]
                yield Case("y%d" % n, ops, {"kind": "vary", "seq": list(seq), "via": pk, "prog": prog})
                n += 1
    return gen


# a refused mutation leaves every container as it was (also a null row, a null table, the receiver's other elements)
REFUSE_SETUP = ('t = tab(2, 5); ts = tab(2, "a"); tt = tab(3, tab(1, 1)); tt.put(0, null); tn = tab(0, 1); tn = null; u = tup(1, "a"); '
                'tr = tab(2, tup(1, "a")); td = tab(2, 2.5); tb = tab(1, raw("ab")); function f1(x) return undefined is begin return x; end;')
REFUSE_RECV = ["t", "ts", "tt", "tt.at(0)", "tt.at(1)", "tn", "tr", "td", "tb", "tb.at(0)", "ts.at(0)"]
REFUSE_OPS = ["%s.concat(f1(%s));", "%s.put(0, f1(%s));", "%s.insert(0, f1(%s));", "%s.put(7, f1(%s));", "%s.insert(9, f1(%s));"]


def refuse_gen(tier):
    def gen():
        n = 0
        for recv in REFUSE_RECV:
            for opt in REFUSE_OPS:
                # ... and decimals that no integer can hold: the conversion fails after the type checks have passed
                for x in list(VARY) + ["1e30", "-1e30", "9223372036854775808.0"]:
                    stmt = opt % (recv, x)
                    ops = [op_ctx(), op_run(REFUSE_SETUP), op_dump(0), op_run(stmt), op_dump(0)]
                    yield Case("rf%d" % n, ops, {"kind": "refuse", "stmt": stmt})
                    n += 1
        for item in ("1", "2"):
            for x in VARY:
                stmt = "u.set@%s(f1(%s));" % (item, x)
                ops = [op_ctx(), op_run(REFUSE_SETUP), op_dump(0), op_run(stmt), op_dump(0)]
                yield Case("rf%d" % n, ops, {"kind": "refuse", "stmt": stmt})
                n += 1
    return gen


# a copy of a container is a container of the same type in every respect: whatever is built from the copy (nesting it, storing into
# it, handing it to a function) equals what is built from the original
COPY_SRC = {"tuples": 'tab(2, tup(1, "a"))', "tuples2": 'tab(1, tab(2, tup(1, "a")))', "ints": "tab(2, 7)", "strings2": 'tab(1, tab(1, "s"))', "tuple": 'tup(1, "a", 2.5)',
            "null-tuples": 'tab(int(), tup(1, "a"))', "empty-tuples": 'tab(0, tup(1, "a"))'}
COPY_VIA = {"assign": "b = a;", "function": "function cpy(v) return undefined is begin return v; end; b = cpy(a);",
            "typed-function": "function cpt(v:table) return table is begin w = v; return w; end; b = cpt(a);",
            "element": "h = tab(1, a); b = h.at(0);", "twice": "b0 = a; b = b0; b0 = null;", "clone-like": "b = a; b = b;"}
COPY_USE = ["x = tab(2, %s);", "x = tab(1, %s); x.concat(tab(1, %s));", "x = tab(0, %s); x.concat(%s);", "x = tab(1, %s); x.put(0, %s);", "x = tab(1, %s); x.insert(0, %s);",
            'x = %s; x.concat(tup(2, "z"));', 'x = tab(1, %s); x.at(0).concat(tup(3, "y"));', "x = tup(1, 2); y = tab(1, %s); print typeof(y.at(0));",
            "x = tab(2, tab(1, %s));", "x = tab(1, %s); y = x; y.concat(x);"]


def copy_gen(tier):
    def gen():
        n = 0
        for sname, src in COPY_SRC.items():
            for vname, via in COPY_VIA.items():
                if vname == "typed-function" and sname == "tuple":
                    continue
                for use in COPY_USE:
                    if sname == "tuple" and "concat(tup" in use:
                        continue
                    pa = "a = %s; %s %s" % (src, via, use.replace("%s", "a"))
                    pb = "a = %s; %s %s" % (src, via, use.replace("%s", "b"))
                    ops = [op_ctx(0), op_run(pa), op_out(0), op_dump(0, "X,Y"), op_ctx(1), op_run(pb, slot=1), op_out(1), op_dump(1, "X,Y")]
                    yield Case("cp%d" % n, ops, {"kind": "copy", "src": sname, "via": vname, "use": use, "prog": pb})
                    n += 1
    return gen


# the number of dimensions has a limit (254): every constructor stops there with an error, none wraps around
DIM_CTORS = {"tab(1, t)": "t = tab(1, t);", "tab(0, t)": "t = tab(0, t);", "tab(null, t)": "t = tab(int(), t);", "tab(2, t)": "t = tab(2, t); t.delete(1);",
             "function": "t = wrap(t);", "element": "h = tab(1, t); t = tab(1, h.at(0));"}


def dim_gen(tier):
    def gen():
        n = 0
        for cname, step in DIM_CTORS.items():
            for depth in (1, 2, 100, 252, 253, 254, 255, 256, 257, 300, 511, 513):
                prog = ('function wrap(x) return table is begin return tab(1, x); end; t = tab(1, "x"); n = 1; '
                        "for i in 1 to %d loop %s n = n + 1; end loop;" % (depth, step))
                ops = [op_ctx(), op_run(prog), op_run("print n; print lower(typeof(t)); zz = t; while lower(typeof(zz)) == \"table\" and not isnull(zz) and zz.count() > 0 loop zz = zz.at(0); end loop; print lower(typeof(zz)) isnull(zz);"),
                       op_out(0)]
                yield Case("dm%d" % n, ops, {"kind": "dim", "ctor": cname, "depth": depth})
                n += 1
    return gen


def tupitem_gen(tier):
    """tup() takes scalars only (the manual: nesting and tables are not allowed): also when the item's type is only known at run time"""
    def gen():
        n = 0
        for x, ty in VARY.items():
            for form in ("u = tup(vone(), 1);", "u = tup(1, vone());", "u = tup(1, 2); u.set@1(vone());", "t = tab(1, tup(vone(), 1));"):
                fn = "function vone() return undefined is begin return %s; end;" % x
                ops = [op_ctx(), op_run(fn), op_run(form), op_dump(0, "U,T")]
                yield Case("ti%d" % n, ops, {"kind": "tupitem", "x": x, "ty": ty, "form": form})
                n += 1
    return gen


def check_extra(case, res, vs):
    m = case.meta
    st = res["steps"]
    if m["kind"] == "dim":
        run, probe, out = st[1], st[2], unhex(st[3].get("out", "")).decode("latin-1").split("\n")
        levels = m["depth"] + 1
        if levels <= 254:
            if run.get("r") != "ok":
                vs.append(Violation("dimension:refused-below-limit:%s" % m["ctor"], "%d dimensions through %s: %s" % (levels, m["ctor"], run), case))
        elif run.get("r") == "ok":
            vs.append(Violation("dimension:limit-passed:%s" % m["ctor"], "%d dimensions through %s were accepted" % (levels, m["ctor"]), case))
        # whatever happened, t is still a table and the innermost value is the string (or a null table where the constructor makes nulls)
        if probe.get("r") != "ok" or len(out) < 3 or out[1] != "table" or out[2] not in ("stringFALSE", "tableTRUE", "tableFALSE"):
            vs.append(Violation("dimension:value-damaged:%s" % m["ctor"], "after %d nestings through %s: probe %s prints %r" % (m["depth"], m["ctor"], probe.get("r"), out), case))
        else:
            reached = int(out[0]) if out[0].isdigit() else -1
            if reached > 254:
                vs.append(Violation("dimension:limit-passed:%s" % m["ctor"], "%s reached %d dimensions" % (m["ctor"], reached), case))
        return vs, True
    if m["kind"] == "copy":
        ra, oa, da, rb, ob, db = st[1], st[2].get("out"), st[3].get("vars"), st[5], st[6].get("out"), st[7].get("vars")
        # a copy that went through a function is opaque to the compiler: a refusal may move from compile time to run time and declared
        # symbol types may be less precise; outcome class, output and values must agree
        def cls(r):
            return "ok" if r.get("r") == "ok" else "refused"

        def values(d):
            return {k: v.partition("=")[2] for k, v in (d or {}).items()}
        same = cls(ra) == cls(rb) and (cls(ra) != "ok" or (oa == ob and values(da) == values(db)))
        if not same:
            vs.append(Violation("copy-differs:%s:%s" % (m["src"], m["via"]), "%s gives %s %s %r; with the original in place of the copy %s %s %r" % (
                m["prog"], rb.get("r"), rb.get("msg"), db, ra.get("r"), ra.get("msg"), da), case))
        return vs, True
    if m["kind"] == "refuse":
        before, run, after = st[2].get("vars", {}), st[3], st[4].get("vars", {})
        if st[1].get("r") != "ok":
            vs.append(Violation("harness:refuse-setup", "%s" % st[1], case))
        elif run.get("r") in ("rerr", "perr") and before != after:
            diff = {k: (before.get(k), after.get(k)) for k in set(before) | set(after) if before.get(k) != after.get(k)}
            vs.append(Violation("refused-but-changed:" + m["stmt"].split("(f1")[0],
                                "%s was refused (%s) but changed %s" % (m["stmt"], run.get("msg"), diff), case))
        return vs, True
    if m["kind"] == "tupitem":
        run, dump = st[2], st[3].get("vars", {})
        compound = m["ty"] in ("table", "tableS", "tuple") or m["x"] == "tab()"
        if compound and run.get("r") == "ok":
            vs.append(Violation("tuple:compound-item-accepted", "%s with vone() returning %s was accepted: %s" % (m["form"], m["x"], {k: v[:120] for k, v in dump.items()}), case))
        if not compound and m["ty"] is not None and run.get("r") != "ok" and "set@1" not in m["form"]:
            vs.append(Violation("tuple:scalar-item-rejected", "%s with vone() returning %s was rejected: %s" % (m["form"], m["x"], run), case))
        return vs, True
    if m["kind"] == "vary":
        run, tv = st[2], st[3].get("vars", {}).get("T")
        types = [VARY[x] for x in m["seq"]]
        homogeneous = len(set(types)) == 1 and types[0] is not None
        if run.get("r") not in ("ok", "rerr", "perr"):
            return vs, True
        if homogeneous and run.get("r") != "ok" and types[0] not in ("table", "tableS", "tuple") and not m["via"].startswith("row-"):
            vs.append(Violation("vary:homogeneous-rejected:%s" % m["via"], "%s with items %s was rejected: %s" % (m["prog"], m["seq"], run), case))
        if tv and tv != "<none>":
            try:
                u = uniform(parse_symbol(tv)[2])
            except Exception as e:
                u = "unparsable dump %r" % tv
            if u:
                vs.append(Violation("vary:not-uniform:%s" % m["via"], "%s with items %s left t = %s: %s" % (m["prog"], m["seq"], tv[:200], u), case))
        return vs, True
    if m["kind"] == "decl":
        d = tuple(m["d"])
        collided = False
        for k, d2 in enumerate(m["batch"]):
            s = st[2 + k]
            same = tuple(d2) == d
            if same and s.get("r") != "ok":
                vs.append(Violation("decl:same-structure-rejected", "table of %s rejects a tuple of the same structure: %s" % (d, s), case))
            if not same and s.get("r") == "ok":
                mix = len(d2) == len(d) and all(a == b or {a, b} <= {"integer", "decimal"} for a, b in zip(d, d2))
                if not mix:
                    collided = True
                    vs.append(Violation("decl:accepts:{%s}<-{%s}" % (",".join(d), ",".join(d2)),
                                        "table of tuple {%s} accepts a tuple {%s}" % (",".join(d), ",".join(d2)), case))
        tv = st[-1].get("vars", {}).get("T")
        try:
            u = uniform(parse_symbol(tv)[2])
        except Exception as e:
            u = "unparsable dump %r" % tv
        if u and not collided:
            vs.append(Violation("decl:not-uniform", "after the puts: %s" % u, case))
        return vs, True
    if m["kind"] == "forall" and m.get("rowdecl"):
        before, run, after = st[2].get("vars", {}).get("TT"), st[3], st[4].get("vars", {}).get("TT")
        try:
            u = uniform(parse_symbol(after)[2])
        except Exception as e:
            u = "unparsable dump %r" % after
        if u:
            vs.append(Violation("forall:decl-not-uniform:%s" % m["m"], "%s %s -> %s leaves %s: %s" % (m["setup"], m["prog"], run.get("r"), after, u), case))
        elif run.get("r") != "ok" and after != before:
            vs.append(Violation("forall:decl-refused-but-changed:%s" % m["m"], "%s %s -> %s leaves %s" % (m["setup"], m["prog"], run, after), case))
        elif after is None or after.split("=")[0] != before.split("=")[0]:
            vs.append(Violation("forall:decl-retyped:%s" % m["m"], "%s %s -> %s leaves %s" % (m["setup"], m["prog"], run, after), case))
        return vs, True
    if m["kind"] == "forall" and m.get("row"):
        run = st[2]
        if m["m"] not in ROW_ACCEPT and run.get("r") != "perr":
            vs.append(Violation("forall:row-mutation-accepted", "%s was not rejected at compile time: %s" % (m["prog"], run), case))
        if m["m"] in ROW_ACCEPT and run.get("r") != "ok":
            vs.append(Violation("forall:row-read-rejected", "%s -> %s" % (m["prog"], run), case))
        tv = st[3].get("vars", {}).get("TT")
        if tv != "integer*2=T(integer*2)[T(integer*1)[i1,i1,i1],T(integer*1)[i1,i1,i1]]":
            vs.append(Violation("forall:table-changed", "table is %r after the loop %s" % (tv, m["prog"]), case))
        after, out = st[4], unhex(st[5].get("out", "")).decode()
        if after.get("r") != "ok" or out != "34\n":
            vs.append(Violation("forall:lock-left", "the table cannot be modified after the loop %s: %s %r" % (m["prog"], after, out), case))
        return vs, True
    if m["kind"] == "forall":
        run = st[2]
        must_reject = m["m"] in FORALL_REJECT
        if must_reject and run.get("r") != "perr":
            vs.append(Violation("forall:mutation-accepted", "%s was not rejected at compile time: %s" % (m["prog"], run), case))
        tv = st[3].get("vars", {}).get("T")
        if must_reject and tv != "integer*1=T(integer*1)[i1,i1,i1]":
            vs.append(Violation("forall:table-changed", "table is %r after the rejected loop" % tv, case))
        after, out = st[4], unhex(st[5].get("out", "")).decode()
        if after.get("r") != "ok":
            vs.append(Violation("forall:lock-left", "the table cannot be modified after the loop: %s" % after, case))
        return vs, True
    return vs, False


def run(tier):
    t0 = time.time()
    deadline = t0 + (3000 if tier == "thorough" else 420)
    depth = 3 if tier == "thorough" else 2
    total = Result()
    # initial states: obtained from the implementation itself (level 0)
    init_cases = [Case("i-" + k, [op_ctx(), op_run(KINDS[k][0]), op_dump(0, "C")], {"kind": k}) for k in KINDS]
    from ..core import run_batch
    frontier = []
    seen = set()
    for c, r in zip(init_cases, run_batch(init_cases)):
        d = r["steps"][-1]["vars"]["C"]
        frontier.append((c.meta["kind"], [], d))
        seen.add((c.meta["kind"], d))
    states = len(seen)
    first_frontier = list(frontier)
    for lvl in range(1, depth + 1):
        res = explore("%s-%s-level%d" % (PROP, tier, lvl), level_gen(frontier), check, chunk=150, deadline=deadline, collect=collect)
        total.merge(res)
        new = []
        for key in sorted(res.collected):
            if key in seen:
                continue
            seen.add(key)
            hist = res.collected[key]
            new.append((key[0], hist, key[1]))
        states += len(new)
        frontier = new
        if res.capped:
            break
        if lvl == 2 and tier == "thorough":
            # level 3 expands a bounded number of states per kind (reported), smallest histories first
            per = {}
            lim = []
            for f in frontier:
                per[f[0]] = per.get(f[0], 0) + 1
                if per[f[0]] <= 120:
                    lim.append(f)
            total.parts.append({"part": "level3-frontier", "distinct_states_level2": len(frontier), "expanded": len(lim)})
            frontier = lim
    total.merge(explore("%s-%s-decls" % (PROP, tier), decl_gen(tier), check, chunk=50, deadline=deadline))
    total.merge(explore("%s-%s-varying" % (PROP, tier), vary_gen(tier), check, chunk=100, deadline=deadline))
    total.merge(explore("%s-%s-tuple-items" % (PROP, tier), tupitem_gen(tier), check, chunk=50, deadline=deadline))
    total.merge(explore("%s-%s-refused-unchanged" % (PROP, tier), refuse_gen(tier), check, chunk=100, deadline=deadline))
    total.merge(explore("%s-%s-copies" % (PROP, tier), copy_gen(tier), check, chunk=100, deadline=deadline))
    total.merge(explore("%s-%s-dimensions" % (PROP, tier), dim_gen(tier), check, chunk=20, deadline=deadline))
    # module objects: a table / tuple made for objects of one module never holds an object of another one (the programs and the
    # oracle are those of C17's wrong-module family: direct stores, and stores of what functions with declared or opaque results return)
    from . import c17
    from .. import build as _build
    _build.ensure("asan", bins=("vdrv", "vmod"))
    total.merge(explore("%s-%s-objects" % (PROP, tier), c17.wrongmod_gen(), check, chunk=5, deadline=deadline))
    from ..core import explore_gcc
    total.merge(explore_gcc("%s-%s-level1" % (PROP, tier), level_gen(first_frontier), check, chunk=150, deadline=deadline))
    total.merge(explore("%s-%s-forall" % (PROP, tier), forall_gen(tier), check, chunk=50, deadline=deadline))
    rule = ("breadth-first search to depth %d over operation histories on 7 table kinds (integer, decimal, string, bytes, boolean, tuple, 2-dim), string, "
            "bytes and a 5-item tuple; alphabet: at/put/insert/delete/concat/count/set@/@ with positions {null,-1,0,1,n-1,n,n+1,2^32,MAX}, ranks "
            "{0,1,2,5,6,2^32+1}, element arguments of every type (matching, int/decimal mixable, mismatching, typed and untyped nulls, tables of right and "
            "wrong element type, tuples of same and different structure), byte codes {null,-1,0,65,255,256,MAX}; states deduplicated by canonical dump "
            "(%d distinct states); all tuple declarations of <=%d items over 6 item types pairwise; mutators inside forall" % (depth, states, 4 if tier == "thorough" else 3))
    return finish(PROP, tier, total, check, rule, t0, extra={"states": states, "bfs_depth": depth},
                  assumptions=["reference model: Python lists with conversion on int/decimal mixing", "containers larger than 5 elements are not expanded further"])
