"""C03 — integer and decimal arithmetic is total and follows the manual for all operands.

Exhaustive product of a boundary lattice; every result is read back as an exact typed value and
compared with a reference model (exact integers mod 2^64, IEEE doubles through Python / libm).
"""
import ctypes
import math
import struct
import time

from ..core import Case, Violation, explore, finish, generic_safety, op_ctx, op_run, op_dump, op_setvar, unhex

PROP = "C03"
MIN = -2 ** 63
MAX = 2 ** 63 - 1
M64 = 2 ** 64

_libm = ctypes.CDLL("libm.so.6")
_libm.pow.restype = ctypes.c_double
_libm.pow.argtypes = [ctypes.c_double, ctypes.c_double]
_libm.fmod.restype = ctypes.c_double
_libm.fmod.argtypes = [ctypes.c_double, ctypes.c_double]


def wrap(x):
    x &= M64 - 1
    return x - M64 if x >= 2 ** 63 else x


def int_lattice(tier):
    s = {0, 1, -1, 2, -2, 3, -3, 7, 10, -10, 100, MIN, MIN + 1, MIN + 2, MAX, MAX - 1, MAX - 2}
    ks = [7, 8, 15, 16, 31, 32, 52, 53, 62, 63] if tier == "thorough" else [8, 31, 32, 53, 62, 63]
    for k in ks:
        for d in (-1, 0, 1):
            for sg in (1, -1):
                v = sg * (2 ** k + d)
                if MIN <= v <= MAX:
                    s.add(v)
    if tier == "thorough":
        for k in range(1, 19):
            s.add(10 ** k)
            s.add(-(10 ** k))
            s.add(10 ** k - 1)
        for k in range(2, 63, 3):
            s.add(2 ** k)
            s.add(-(2 ** k))
        s |= {3037000499, 3037000500, -3037000500, 4294967295, 4294967296, 4294967297, 6, 5, 39, 40, 64, 65, -64, -63, 63, 62,
              2147483647, 2147483648, -2147483648, -2147483649, 1000003, 123456789, 0x5555555555555555, -0x5555555555555556}
    else:
        s |= {3037000500, 4294967296, 39, 64, 63, -64, 5, 6, 10 ** 18, -(10 ** 18)}
    return sorted(s, key=lambda v: (abs(v), v))


def dec_lattice(tier):
    tiny = 5e-324
    vals = [0.0, -0.0, 1.0, -1.0, 0.5, -0.5, 2.0, 0.1, 1.0 / 3.0, 3.0, -3.0, tiny, -tiny, 2.2250738585072014e-308,
            9007199254740992.0, 9007199254740993.0, 9007199254740991.0, 9223372036854775808.0, 9223372036854774784.0,
            9223372036854777856.0, -9223372036854775808.0, -9223372036854777856.0, -9223372036854774784.0,
            1.7976931348623157e308, -1.7976931348623157e308, float("inf"), float("-inf"), float("nan"),
            1e308, 1e-308, 4294967296.0, 1e18, 0.30000000000000004, 2.5, -2.5, 1.5, 63.0, 64.0, 1024.0, -1024.0]
    if tier == "thorough":
        vals += [-2.2250738585072014e-308, 1e-320, 1e300, 1e-300, 1e154, 1e155, -1e154, 2.0 ** 31, 2.0 ** 32, 2.0 ** 52, 2.0 ** 62,
                 -(2.0 ** 62), 0.25, 0.75, 10.0, 100.0, 1e15, 1e16, 1e17, 123456.789, -123456.789, 7.0, -7.0, 0.9999999999999999,
                 1.0000000000000002, 4.9406564584124654e-324 * 3, 3.141592653589793, 2.718281828459045, -0.1, 1e-5, 17.0, 255.0, 256.0,
                 65535.0, 65536.0, 1e10, -1e10, 9.5, -9.5, 0.3, 0.2, 1e22, 1e23, 5e-1, 33.0, -0.75, 8.0, 9.0, 27.0, 1e-10, -1e-10,
                 6.02214076e23, 1.602176634e-19, 2.0 ** -1074 * 2, 2.0 ** 1023, -(2.0 ** 1023), 2.0 ** -1022, 4.0, -4.0, 16.0, -8.0,
                 1e9, 1e-9, 12.0, 0.125, -0.125, 1e100, -1e100, 1e-100, 36893488147419103232.0, -36893488147419103232.0]
    return vals


def dspec(d):
    if d != d:
        return "dnan"
    if d in (float("inf"), float("-inf")):
        return "dinf" if d > 0 else "d-inf"
    return "d" + d.hex()


def ispec(i):
    return "i%d" % i


BIN_INT = ["+", "-", "*", "/", "%", "**", "&", "|", "^"]
BIN_DEC = ["+", "-", "*", "/", "%", "**"]


def prog(expr, var):
    return ('begin %s = %s; exception when divide_by_zero then %s = "DZ"; when out_of_range then %s = "OOR"; end;'
            % (var, expr, var, var))


# operand forms: variables, and temporaries holding the same values (operators may build their result in a temporary operand)
FORMS_I = [("a", "b"), ("(a + 0)", "(b + 0)"), ("(a + 0)", "b"), ("a", "(b + 0)")]
FORMS_D = [("a", "b"), ("(a * 1.0)", "(b * 1.0)"), ("(a * 1.0)", "b"), ("a", "(b * 1.0)")]


def gen_factory(tier):
    LI = int_lattice(tier)
    LD = dec_lattice(tier)
    shift_ints = LI if tier == "thorough" else [v for v in LI if abs(v) in (0, 1, 2, 3, 2 ** 31, 2 ** 62, 2 ** 63, MAX, 2 ** 63 - 2, 2 ** 32 + 1)]
    shifts = list(range(-130, 131))
    mixed_i = LI if tier == "thorough" else LI[::3]

    def gen():
        n = 0
        # integer pairs
        for a in LI:
            for b in LI:
                for fi, (fa, fb) in enumerate(FORMS_I):
                    ops = [op_ctx(), op_setvar("A", ispec(a)), op_setvar("B", ispec(b))]
                    for k, o in enumerate(BIN_INT):
                        ops.append(op_run(prog("%s %s %s" % (fa, o, fb), "r%d" % k)))
                    ops.append(op_dump())
                    yield Case("ii%d" % n, ops, {"kind": "ii", "a": a, "b": b, "form": fi})
                    n += 1
        # unary and conversions on integers
        for a in LI:
            ops = [op_ctx(), op_setvar("A", ispec(a))]
            for k, e in enumerate(["-a", "~a", "num(a)", "int(a)", "abs(a)", "sign(a)", "+a", "a ** 0", "a ** 1", "a ** 2", "a ** 3", "a ** 63", "a ** 64"]):
                ops.append(op_run(prog(e, "r%d" % k)))
            ops.append(op_dump())
            yield Case("iu%d" % n, ops, {"kind": "iu", "a": a})
            n += 1
        # shifts
        for a in shift_ints:
            for d in shifts:
                ops = [op_ctx(), op_setvar("A", ispec(a)), op_setvar("B", ispec(d)),
                       op_run(prog("a << b", "r0")), op_run(prog("a >> b", "r1")), op_dump()]
                yield Case("sh%d" % n, ops, {"kind": "sh", "a": a, "b": d})
                n += 1
        for a in shift_ints:
            for d in [v for v in LI if abs(v) > 130]:
                ops = [op_ctx(), op_setvar("A", ispec(a)), op_setvar("B", ispec(d)),
                       op_run(prog("a << b", "r0")), op_run(prog("a >> b", "r1")), op_dump()]
                yield Case("sh%d" % n, ops, {"kind": "sh", "a": a, "b": d})
                n += 1
        # decimal pairs and mixed
        for a in LD:
            for b in LD:
                for fi, (fa, fb) in enumerate(FORMS_D):
                    ops = [op_ctx(), op_setvar("A", dspec(a)), op_setvar("B", dspec(b))]
                    for k, o in enumerate(BIN_DEC):
                        ops.append(op_run(prog("%s %s %s" % (fa, o, fb), "r%d" % k)))
                    ops.append(op_dump())
                    yield Case("dd%d" % n, ops, {"kind": "dd", "a": a.hex() if a == a else "nan", "b": b.hex() if b == b else "nan", "form": fi})
                    n += 1
        for a in mixed_i:
            for b in LD:
                for order in (0, 1):
                    x, y = (ispec(a), dspec(b)) if order == 0 else (dspec(b), ispec(a))
                    for fi in (0, 1):
                        fa, fb = ("a", "b") if fi == 0 else (("(a + 0)", "(b * 1.0)") if order == 0 else ("(a * 1.0)", "(b + 0)"))
                        ops = [op_ctx(), op_setvar("A", x), op_setvar("B", y)]
                        for k, o in enumerate(BIN_DEC):
                            ops.append(op_run(prog("%s %s %s" % (fa, o, fb), "r%d" % k)))
                        # the same operation with the integer operand converted first: an operation with a decimal operand is carried
                        # out in double precision, so both must answer alike (value or DIVIDE_BY_ZERO)
                        for k, o in enumerate(BIN_DEC):
                            ops.append(op_run(prog(("num(a) %s b" if order == 0 else "a %s num(b)") % o, "q%d" % k)))
                        ops.append(op_dump())
                        yield Case("mx%d" % n, ops, {"kind": "id" if order == 0 else "di", "a": a, "b": b.hex() if b == b else "nan", "form": fi})
                        n += 1
        # conversions on decimals
        for a in LD:
            ops = [op_ctx(), op_setvar("A", dspec(a))]
            for k, e in enumerate(["int(a)", "num(a)", "-a", "abs(a)", "+a"]):
                ops.append(op_run(prog(e, "r%d" % k)))
            ops.append(op_dump())
            yield Case("du%d" % n, ops, {"kind": "du", "a": a.hex() if a == a else "nan"})
            n += 1
        # literal forms (non-negative integers have a literal spelling)
        lits = [v for v in LI if v >= 0]
        if tier != "thorough":
            lits = lits[::4] + [MAX]
        for a in lits:
            for b in lits:
                ops = [op_ctx()]
                for k, o in enumerate(["+", "-", "*", "/", "%"]):
                    ops.append(op_run(prog("%d %s %d" % (a, o, b), "r%d" % k)))
                ops.append(op_run(prog("-%d - %d" % (a, b), "r5")))
                ops.append(op_dump())
                yield Case("li%d" % n, ops, {"kind": "li", "a": a, "b": b})
                n += 1
    return gen


# --- reference model ---------------------------------------------------------------------------
def ref_int(op, a, b):
    """Returns ('i', value) | ('E', 'DZ') | None when the manual does not define the result."""
    if op == "+":
        return ("i", wrap(a + b))
    if op == "-":
        return ("i", wrap(a - b))
    if op == "*":
        return ("i", wrap(a * b))
    if op in ("/", "%"):
        if b == 0:
            return ("E", "DZ")
        q = abs(a) // abs(b)
        if (a < 0) != (b < 0):
            q = -q
        return ("i", wrap(q)) if op == "/" else ("i", wrap(a - q * b))
    if op == "**":
        if b < 0:
            return None
        return ("i", wrap(pow(a, b, M64)))
    if op == "&":
        return ("i", wrap((a & (M64 - 1)) & (b & (M64 - 1))))
    if op == "|":
        return ("i", wrap((a & (M64 - 1)) | (b & (M64 - 1))))
    if op == "^":
        return ("i", wrap((a & (M64 - 1)) ^ (b & (M64 - 1))))
    raise ValueError(op)


def ref_shift(op, a, d):
    ua = a & (M64 - 1)
    left = (op == "<<")
    if d < 0:
        left = not left
        d = -d
    if d >= 64:
        return ("i", 0)
    return ("i", wrap((ua << d) & (M64 - 1))) if left else ("i", wrap(ua >> d))


def fop(op, x, y):
    """IEEE double arithmetic; returns a float or 'DZ-or-ieee' marker tuple."""
    try:
        if op == "+":
            return x + y
        if op == "-":
            return x - y
        if op == "*":
            return x * y
        if op == "/":
            if y == 0.0:
                if x != x or x == 0.0:
                    return float("nan")
                neg = (math.copysign(1.0, x) < 0) != (math.copysign(1.0, y) < 0)
                return float("-inf") if neg else float("inf")
            return x / y
        if op == "%":
            return _libm.fmod(x, y)
        if op == "**":
            return _libm.pow(x, y)
    except OverflowError:
        return math.copysign(float("inf"), 1.0)
    raise ValueError(op)


def same_double(x, y):
    if x != x or y != y:
        return x != x and y != y
    return struct.pack("<d", x) == struct.pack("<d", y)


def parse_val(s):
    """'type=val' dump string -> ('i', int) | ('d', float) | ('s', bytes) | ('N', typename) | ('?', s)"""
    if s is None or s == "<none>":
        return ("none", None)
    t, _, v = s.partition("=")
    if v.startswith("i"):
        return ("i", int(v[1:]))
    if v.startswith("d"):
        r = v[1:]
        if r == "nan":
            return ("d", float("nan"))
        if r in ("inf", "-inf"):
            return ("d", float(r))
        return ("d", float.fromhex(r))
    if v.startswith("s"):
        return ("s", unhex(v[1:]))
    if v.startswith("N("):
        return ("N", v[2:-1])
    return ("?", s)


def check(case, res):
    vs = generic_safety(case, res)
    if res.get("st") != "done":
        return vs, True
    m = case.meta
    steps = res["steps"]
    dump = steps[-1].get("vars", {}) if steps else {}
    kind = m["kind"]

    def got(k):
        return parse_val(dump.get("R%d" % k))

    def runstep(k, base):
        return steps[base + k]

    def expect(k, opname, types, want, base, accept_dz=False):
        st = runstep(k, base)
        g = got(k)
        if st.get("r") != "ok":
            vs.append(Violation("%s:%s:%s" % (opname, types, "error-" + str(st.get("no"))),
                                "%s on %s: unexpected non-catchable error %s" % (opname, m, st), case))
            return
        if want is None:
            # undefined by the manual: totality only (a value or a BLOC error)
            return
        if want[0] == "E":
            if not (g[0] == "s" and g[1] == want[1].encode()):
                vs.append(Violation("%s:%s:missing-%s" % (opname, types, want[1]), "%s on %s: expected %s, got %s" % (opname, m, want, g), case))
            return
        if g[0] == "s" and g[1] == b"DZ" and accept_dz:
            return
        if g[0] != want[0]:
            vs.append(Violation("%s:%s:type" % (opname, types), "%s on %s: expected %s, got %s" % (opname, m, want, g), case))
            return
        if want[0] == "i" and g[1] != want[1]:
            vs.append(Violation("%s:%s:value" % (opname, types), "%s on %s: expected %d, got %d" % (opname, m, want[1], g[1]), case))
        if want[0] == "d" and not same_double(g[1], want[1]):
            vs.append(Violation("%s:%s:value" % (opname, types), "%s on %s: expected %r, got %r" % (opname, m, want[1], g[1]), case))

    if kind in ("ii", "dd", "id", "di"):
        # the operands are variables (or temporaries made from them): no operator may change them
        def orig(v):
            if isinstance(v, int):
                return ("i", v)
            return ("d", float("nan") if v == "nan" else float.fromhex(v))
        wa, wb = orig(m["a"]), orig(m["b"])
        if kind == "di":
            wa, wb = wb, wa
        for name, w in (("A", wa), ("B", wb)):
            g = parse_val(dump.get(name))
            if g[0] != w[0] or (w[0] == "i" and g[1] != w[1]) or (w[0] == "d" and not same_double(g[1], w[1])):
                vs.append(Violation("operand-changed:%s" % kind, "variable %s held %r before the operations and holds %r after (%s)" % (name, w, g, m), case))
    if kind == "ii":
        a, b = m["a"], m["b"]
        for k, o in enumerate(BIN_INT):
            expect(k, o, "int,int" + (":form%d" % m["form"] if m.get("form") else ""), ref_int(o, a, b), 3)
    elif kind == "li":
        a, b = m["a"], m["b"]
        for k, o in enumerate(["+", "-", "*", "/", "%"]):
            expect(k, o, "intlit,intlit", ref_int(o, a, b), 1)
        expect(5, "neg-sub", "intlit,intlit", ("i", wrap(-a - b)), 1)
    elif kind == "iu":
        a = m["a"]
        wants = [("i", wrap(-a)), ("i", wrap(~a)), ("d", float(a)), ("i", a), None, None, ("i", a),
                 ("i", 1), ("i", a), ("i", wrap(a * a)), ("i", wrap(a * a * a)), ("i", wrap(pow(a, 63, M64))), ("i", wrap(pow(a, 64, M64)))]
        names = ["neg", "~", "num", "int", "abs", "sign", "pos", "**", "**", "**", "**", "**", "**"]
        for k, w in enumerate(wants):
            expect(k, names[k], "int", w, 2)
    elif kind == "sh":
        a, d = m["a"], m["b"]
        expect(0, "<<", "int,int", ref_shift("<<", a, d), 3)
        expect(1, ">>", "int,int", ref_shift(">>", a, d), 3)
    elif kind in ("dd", "id", "di"):
        da = dump.get("A"), dump.get("B")
        x = parse_val(da[0])[1]
        y = parse_val(da[1])[1]
        fx, fy = float(x), float(y)
        tn = {"dd": "dec,dec", "id": "int,dec", "di": "dec,int"}[kind] + (":form%d" % m["form"] if m.get("form") else "")
        for k, o in enumerate(BIN_DEC):
            zero_div = o in ("/", "%") and fy == 0.0
            expect(k, o, tn, ("d", fop(o, fx, fy)), 3, accept_dz=zero_div)
            if kind in ("id", "di"):
                g, q = got(k), parse_val(dump.get("Q%d" % k))
                if g[0] != q[0] or (g[0] == "d" and not same_double(g[1], q[1])) or (g[0] != "d" and g != q):
                    vs.append(Violation("%s:%s:differs-from-converted-operand" % (o, tn.split(":")[0]),
                                        "%s on %s gives %s, with the integer operand converted by num() first %s" % (o, m, g, q), case))
    elif kind == "du":
        x = parse_val(dump.get("A"))[1]
        t = math.trunc(x) if (x == x and abs(x) != float("inf")) else None
        if t is not None and MIN <= t <= MAX:
            expect(0, "int", "dec", ("i", t), 2)
        else:
            expect(0, "int", "dec", ("E", "OOR"), 2)
        expect(1, "num", "dec", ("d", x), 2)
        expect(2, "neg", "dec", ("d", -x), 2)
        expect(3, "abs", "dec", None, 2)
        expect(4, "pos", "dec", ("d", x), 2)
    return vs, True


def run(tier):
    t0 = time.time()
    gen = gen_factory(tier)
    res = explore(PROP + "-" + tier, gen, check, chunk=200, deadline=t0 + (1500 if tier == "thorough" else 400))
    # the same lattice against the gcc -O2 build (no sanitizer): what undefined behaviour turns into depends on the compiler
    from ..core import tree
    with tree("gcc"):
        res.merge(explore(PROP + "-" + tier + "-gcc", gen, check, chunk=200, deadline=t0 + (2400 if tier == "thorough" else 600)))
    rule = ("product of the boundary lattice (integers: 0, +-1, 2^k, 2^k+-1, MIN/MAX neighbours, 10^k; shifts [-130,130]; "
            "doubles: +-0, subnormals, 2^53 and 2^63 neighbourhoods, DBL_MAX, inf, nan) over every arithmetic and bitwise operator, "
            "operands bound exactly through the API and offered as variables and as temporaries of the same value (4 forms per pair; the variables must be "
            "unchanged afterwards), results read back as typed values and compared with the reference model; "
            "a case is non-trivial when the driver returned a result for it (every case evaluates 2..13 operators)")
    return finish(PROP, tier, res, check, rule, t0,
                  assumptions=["reference model: Python exact integers, Python/libm IEEE doubles", "clang 14 ASan+UBSan build and gcc 12 -O2 build, both explored",
                               "operands outside the lattice are not covered"])
