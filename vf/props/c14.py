"""C14 — cloned contexts are independent, also when run concurrently on several threads.

(1) Schedules: harness/sched.cpp runs one compiled program in N clones on N real threads under a cooperative
    scheduler that owns every instrumented point (statement entry, null node, random generator, error text
    buffer, C API last-error record, object reference counts, the harness's own read of bloc_errno/strerror);
    depth-first over all choice sequences with at most B preemptions (iterative context bounding); every
    schedule's per-thread output / result / error / final variables must equal the sequential run, and the
    original context must be unchanged. The sequential run in clones must itself equal runs of the same texts in
    contexts that were never cloned (a clone starts with copies of the original's variables and functions). One schedule per program is replayed twice (determinism).
(2) Free-running ThreadSanitizer pass over the same harness bodies (2, 4, 8 threads): no data race in the library.
(3) All orders (length <= 6) of clone / run in clone / run in original / purge original / free original /
    free clone / free executable that respect the documented preconditions, against a sequential model, under ASan.
"""
import concurrent.futures
import itertools
import json
import os
import subprocess
import time

from .. import build
from ..core import Case, Violation, explore, finish, generic_safety, op_ctx, op_run, op_dump, op_out, unhex, hx, Result, NWORK

PROP = "C14"


def sched_bins():
    build.build_tree("asan")
    a = build.ensure("asan", bins=("sched", "vmod"))["sched"]
    build.build_tree("tsan")
    t = build.ensure("tsan", bins=("sched", "vmod"))["sched"]
    return a, t


def run_explore(args):
    exe, prog, n, bound, maxruns, env, timeout = args
    t0 = time.time()
    try:
        p = subprocess.run([exe, "explore", prog, str(n), str(bound), str(maxruns)], stdout=subprocess.PIPE, stderr=subprocess.PIPE, env=env, timeout=timeout)
        out = p.stdout.decode("utf-8", "replace")
        rc = p.returncode
    except subprocess.TimeoutExpired as e:
        out = (e.stdout or b"").decode("utf-8", "replace")
        rc = "timeout"
    summ = None
    viols = []
    for line in out.splitlines():
        if not line.startswith("{"):
            continue
        try:
            j = json.loads(line)
        except ValueError:
            continue
        if j.get("summary"):
            summ = j
        elif "violation" in j or "fatal" in j:
            viols.append(j)
    return (prog, n, bound, rc, summ, viols, time.time() - t0)


def run_tsan(args):
    exe, prog, n, rounds, env = args
    try:
        p = subprocess.run([exe, "free", prog, str(n), str(rounds)], stdout=subprocess.PIPE, stderr=subprocess.PIPE, env=env, timeout=300)
        err = p.stderr.decode("utf-8", "replace")
        rc = p.returncode
    except subprocess.TimeoutExpired:
        err, rc = "", "timeout"
    races = []
    blocks = err.split("WARNING: ThreadSanitizer:")[1:]
    for b in blocks:
        # a race on an object that belongs to the C++ runtime itself (the classic locale's ctype<char>::narrow cache, which
        # std::regex construction fills lazily; every writer stores the same byte) is not a race on BLOC's state
        loc = [l for l in b.splitlines() if l.strip().startswith("Location is global")]
        if loc and ("(libstdc++.so" in loc[0] or "(libc.so" in loc[0]):
            continue
        kind = b.strip().split("(")[0].strip()
        site = "?"
        for line in b.splitlines():
            line = line.strip()
            if line.startswith("#0") and "/harness/" in line and site == "?":
                # the innermost frame is the verification harness itself: name it, so that a race of the harness is not taken for BLOC's
                site = "harness/" + line.split("/harness/")[1].split(":")[0]
                break
            if line.startswith("#") and ("/blocc/" in line or "/modules/" in line):
                loc = [w for w in line.split(" ") if "/blocc/" in w or "/modules/" in w]
                if loc:
                    f = loc[0]
                    f = f[f.index("/blocc/") + 1:] if "/blocc/" in f else f[f.index("/modules/") + 1:]
                    site = f.split(":")[0]
                    break
        races.append((kind, site, b[:1500]))
    return (prog, n, rc, races)


# ------------------------------------------------------------------------------------------------
# (3) sequential orders
SEQ_PRE = 'n = 10; base = 5; name = "nm"; function fsq(a) return integer is begin print "f" a; return a * a; end;'
SEQ_PROG = 'n = n + 1; t = tab(2, n); print n fsq(n) t.count(); b1 = base + n; b2 = base + n; c1 = name; c2 = name + "x"; print b1 b2 c1 c2 base name;'
INC_PATH = os.path.join(build.BUILD, "scratch", "c14-inc.bloc")
SEQ_PROG += ' include "%s"; print inc;' % INC_PATH       # the included source runs in the context that executes the program
OPS = ["C", "RC", "RO", "PO", "FO", "FC", "FX"]


def write_include():
    os.makedirs(os.path.dirname(INC_PATH), exist_ok=True)
    with open(INC_PATH, "w") as f:
        f.write("inc = n * 2;\n")


def seq_orders(maxlen):
    """all sequences respecting the preconditions, with the model's expected outputs"""
    def rec(seq, st, outs):
        yield list(seq), list(outs)
        if len(seq) >= maxlen:
            return
        for op in OPS:
            s = dict(st)
            o = None
            if op == "C":
                if not s["orig"] or s["clone"]:
                    continue
                s["clone"] = True
                s["nc"] = s["no"] if not s["purged"] else None
                s["clone_has"] = not s["purged"]
            elif op == "RC":
                if not s["clone"] or not s["exe"] or not s["clone_has"]:
                    continue
                s["nc"] += 1
                o = ("c", "%df%d\n%d2\n%d%dnmnmx5nm\n%d\n" % (s["nc"], s["nc"], s["nc"] ** 2, 5 + s["nc"], 5 + s["nc"], 2 * s["nc"]))
            elif op == "RO":
                if not s["orig"] or s["purged"] or not s["exe"]:
                    continue
                s["no"] += 1
                o = ("o", "%df%d\n%d2\n%d%dnmnmx5nm\n%d\n" % (s["no"], s["no"], s["no"] ** 2, 5 + s["no"], 5 + s["no"], 2 * s["no"]))
            elif op == "PO":
                if not s["orig"] or s["purged"]:
                    continue
                s["purged"] = True
            elif op == "FO":
                if not s["orig"]:
                    continue
                s["orig"] = False
            elif op == "FC":
                if not s["clone"]:
                    continue
                s["clone"] = False
            elif op == "FX":
                if not s["exe"]:
                    continue
                s["exe"] = False
            yield from rec(seq + [op], s, outs + [o])
    yield from rec([], {"orig": True, "clone": False, "exe": True, "purged": False, "no": 10, "nc": None, "clone_has": False}, [])


def seq_gen(tier):
    maxlen = 6 if tier == "thorough" else 5

    write_include()

    def gen():
        n = 0
        for seq, outs in seq_orders(maxlen):
            if not seq:
                continue
            ops = [op_ctx(0), op_run(SEQ_PRE), "parse 0 0 %s" % hx(SEQ_PROG)]
            for op in seq:
                if op == "C":
                    ops.append("clone 0 1")
                elif op == "RC":
                    ops += ["exec 0 1", op_out(1)]
                elif op == "RO":
                    ops += ["exec 0", op_out(0)]
                elif op == "PO":
                    ops.append("purge 0")
                elif op == "FO":
                    ops.append("free 0")
                elif op == "FC":
                    ops.append("free 1")
                elif op == "FX":
                    ops.append("freeexe 0")
            yield Case("o%d" % n, ops, {"kind": "order", "seq": seq, "outs": outs})
            n += 1
    return gen


def check(case, res):
    vs = generic_safety(case, res)
    if res.get("st") != "done":
        return vs, True
    m = case.meta
    st = res["steps"]
    k = 3
    for op, want in zip(m["seq"], m["outs"]):
        if op in ("RC", "RO"):
            run, out = st[k], unhex(st[k + 1].get("out", "")).decode()
            k += 2
            if run.get("r") != "ok" or out != want[1]:
                vs.append(Violation("order:%s" % op, "after %s: %s gave %s %r, the sequential model says %r" % (m["seq"], op, run, out, want[1]), case))
                break
        else:
            k += 1
    return vs, True


# ------------------------------------------------------------------------------------------------
def run(tier):
    t0 = time.time()
    asan_exe, tsan_exe = sched_bins()
    env_a = build.run_env("asan")
    env_a["ASAN_OPTIONS"] = "detect_leaks=0:abort_on_error=1"
    env_t = build.run_env("tsan")
    env_t["TSAN_OPTIONS"] = "halt_on_error=0:report_signal_unsafe=0:exitcode=0"
    progs = subprocess.run([asan_exe, "list"], stdout=subprocess.PIPE, env=env_a).stdout.decode().split()
    configs = [(2, 2)] if tier != "thorough" else [(2, 2), (2, 3), (3, 2)]
    budget = 2400 if tier == "thorough" else 300
    jobs = []
    for (n, b) in configs:
        for p in progs:
            if p == "deep-error" and n >= 3:
                continue      # 110 points per execution: 50 000 schedules at 3 threads; covered at 2 threads with bounds 2 and 3
            jobs.append((asan_exe, p, n, b, 400000 if tier == "thorough" else 60000, env_a, budget))
    # the corpus of valid programs of C01 (every statement and expression node kind): same exploration at bound 1 (2 in thorough)
    from . import c01
    cdir = os.path.join(build.BUILD, "scratch", "c14")
    os.makedirs(cdir, exist_ok=True)
    corpus = []
    from ..core import run_batch
    probe = [Case("v%d" % i, [op_ctx(), op_run("k = 0;"), op_run(text + " print k;")], {}) for i, text in enumerate(c01.SEEDS)]
    valid = [r.get("st") == "done" and r["steps"][-1].get("r") in ("ok", "rerr") for r in run_batch(probe)]
    for i, text in enumerate(c01.SEEDS):
        if not valid[i] or any(w in text for w in ("random", "getenv", "getsys", "readln", "input(", "read(")):
            continue
        path = os.path.join(cdir, "seed%d.txt" % i)
        with open(path, "w") as f:
            f.write("k = 0;\n%%\n" + text + " print k;")
        corpus.append("@" + path)
    # clones share the module objects their variables hold (C17): copying, storing and dropping references to a shared object in
    # every clone at the same time; each clone prints what a sequential run prints and the object is still usable afterwards
    env_a["SCHED_UNBAN"] = env_t["SCHED_UNBAN"] = "vmod,vmod2"
    env_a["VDUMP_NO_OBJECT_ID"] = env_t["VDUMP_NO_OBJECT_ID"] = "1"
    shared = {
        "shared-object-copies": ("import vmod; a = vmod(5); t = tab(2, a); u = tup(1, a);",
                                 "for i in 1 to 4 loop b = a; c = t; c.delete(0); d = u; b = null; c = null; end loop; print a.get() t.at(1).get() u@2.get();"),
        "shared-object-methods": ("import vmod; a = vmod(5);",
                                  "for i in 1 to 3 loop b = a.self(); z = a.other(b).get(); b = vmod(a); end loop; print z b.get();"),
    }
    # every access to the reference counter is a scheduling point (round 8): four rounds of the copying loop have 235 points, too many
    # for bound 2 below the schedule cap; the thorough tier explores them at bound 1 and the same loop with two rounds at bound 2
    bound_of = {}
    if tier == "thorough":
        shared["shared-object-copies-short"] = (shared["shared-object-copies"][0], shared["shared-object-copies"][1].replace("1 to 4", "1 to 2"))
    for name, (pre, text) in shared.items():
        path = os.path.join(cdir, name + ".txt")
        with open(path, "w") as f:
            f.write(pre + "\n%%\n" + text)
        corpus.append("@" + path)
        if tier == "thorough" and name == "shared-object-copies":
            bound_of["@" + path] = 1
    for p in corpus:
        jobs.append((asan_exe, p, 2, bound_of.get(p, 2 if tier == "thorough" else 1), 20000, env_a, budget))
    jobs.sort(key=lambda j: (0 if j[1] == "deep-error" else 1, -j[2] * j[3]))     # longest first
    total = Result()
    viols = {}
    schedules = transitions = 0
    parts = []
    distinct_total = 0
    capped = False
    with concurrent.futures.ThreadPoolExecutor(max_workers=NWORK) as ex:
        for (prog, n, b, rc, summ, vl, dt) in ex.map(run_explore, jobs):
            if summ:
                schedules += summ["schedules"]
                transitions += summ["transitions"]
                distinct_total += summ["distinct_outcomes"]
                capped = capped or bool(summ.get("capped")) and not vl
                parts.append({"prog": prog, "threads": n, "preemption_bound": b, "schedules": summ["schedules"], "transitions": summ["transitions"],
                              "max_points": summ["max_points"], "distinct_outcomes": summ["distinct_outcomes"], "wall_s": round(dt, 1), "capped": summ.get("capped")})
                if len(total.samples) < 4:
                    total.samples.append({"prog": prog, "threads": n, "bound": b, "reference": summ.get("reference")})
            else:
                capped = True
                parts.append({"prog": prog, "threads": n, "preemption_bound": b, "status": str(rc), "wall_s": round(dt, 1)})
                if rc == "timeout":
                    continue
            for v in vl:
                key = "schedule:%s:%s" % (v.get("violation", "fatal"), os.path.basename(prog) if prog.startswith("@") else prog)
                e = viols.setdefault(key, {"count": 0, "first": None})
                e["count"] += 1
                if e["first"] is None:
                    e["first"] = (Violation(key, "program %s, %d threads, schedule %s: observed %s expected %s" % (
                        prog, n, v.get("schedule"), json.dumps(v.get("observed"))[:700], json.dumps(v.get("expected"))[:500]), None,
                        {"prog": prog, "threads": n, "schedule": v.get("schedule"), "replay": "build/harness-asan/sched replay %s %d %s" % (prog, n, v.get("schedule"))}), {})
    # determinism: replay the default schedule and one alternative per program twice
    for p in progs:
        for sch in ("", "1,1"):
            r = subprocess.run([asan_exe, "replay", p, "2", sch], stdout=subprocess.PIPE, stderr=subprocess.PIPE, env=env_a)
            try:
                j = json.loads(r.stdout.decode().splitlines()[-1])
            except Exception:
                j = {"deterministic": 0}
            schedules += 2
            if not j.get("deterministic"):
                key = "schedule:nondeterministic-replay:%s" % p
                viols.setdefault(key, {"count": 1, "first": (Violation(key, "replaying schedule %r twice gives different observations: %s" % (sch, r.stdout[-600:]), None, {}), {})})
    # TSan pass
    tjobs = []
    for p in progs:
        for n in ((2, 4, 8) if tier == "thorough" else (4,)):
            tjobs.append((tsan_exe, p, n, 30 if tier == "thorough" else 10, env_t))
    for p in corpus:
        tjobs.append((tsan_exe, p, 4, 10 if tier == "thorough" else 3, env_t))
    tsan_runs = 0
    with concurrent.futures.ThreadPoolExecutor(max_workers=8) as ex:
        for (prog, n, rc, races) in ex.map(run_tsan, tjobs):
            tsan_runs += 1
            for kind, site, text in races:
                key = "tsan:%s@%s" % (kind, site)
                e = viols.setdefault(key, {"count": 0, "first": None})
                e["count"] += 1
                if e["first"] is None:
                    e["first"] = (Violation(key, "ThreadSanitizer, program %s with %d threads: %s" % (prog, n, text), None, {"prog": prog, "threads": n}), {})
            if rc == "timeout":
                capped = True
    total.evaluations = schedules + tsan_runs
    total.transitions = transitions
    total.nontrivial = schedules
    total.digests = set(str(i).encode() for i in range(distinct_total))
    total.viols = viols
    total.capped = capped
    total.parts = parts + [{"part": "tsan", "runs": tsan_runs}]
    total.merge(explore("%s-%s-orders" % (PROP, tier), seq_gen(tier), check, chunk=100, deadline=t0 + budget))
    rule = ("%d programs (recursion, table+forall, null logic, handled / unhandled / nested errors, strings, literals, function locals, deep error unwinding, "
            "random, tuples, inherited variables read as operands, matches with per-clone patterns) x configurations %s, and the valid programs of the C01 corpus at "
            "2 threads with bound 1 (2 in thorough) (threads, preemption bound): all schedules by depth-first iterative context bounding over the instrumented "
            "points, each compared with the sequential run; TSan free-running pass with %s threads; all precondition-respecting orders of clone/run/purge/free "
            "up to length %d. Non-trivial: every schedule runs all threads to completion" % (len(progs), configs, "2/4/8" if tier == "thorough" else "4", 6 if tier == "thorough" else 5))
    return finish(PROP, tier, total, check, rule, t0, extra={"schedules": schedules, "states": schedules, "preemption_bounds": configs},
                  assumptions=["between two instrumented points a thread touches only its own context and the read-only program (checked by the TSan pass)",
                               "weak memory orderings are not modelled", "points finer than statements exist only where the library touches process-wide state"])
