"""C06 — loops and conditionals execute exactly the iterations the manual prescribes.

(a) every `for` header over a boundary lattice of first/limit/step/order (and all short ranges run to the end,
    also next to INT64_MIN/MAX), bodies that change the variables the bounds and the step were taken from (evaluated
    once), `forall` over tables of length 0..3;
(b) every nesting (bounded depth) of if/for/while/forall/begin with print/break/continue/return/raise and
    writes to the control variable, at top level and inside a function.
(c) every if / elsif / else chain of up to 3 rules over {true, false, null} conditions, at top level, in a loop, in a function.
Oracle: the reference interpreter of vf/ctl.py (trace of printed lines, final variables, result), a step budget
to tell termination from non-termination, and probe statements run afterwards in the same context.
"""
import itertools
import time

from ..core import (Case, Violation, explore, finish, generic_safety, op_ctx, op_run, op_dump, op_out, op_setvar, unhex, Result)
from .. import ctl

PROP = "C06"
MAX = 2 ** 63 - 1
MIN = -2 ** 63

PROBES = ('i1 = "s"; i2 = "s"; i3 = "s"; e1 = "s"; e2 = "s"; e3 = "s"; i = "s"; e = "s"; print typeof(i1) typeof(e1) typeof(i) typeof(e);'
          ' t1.concat(7); t2.concat(7); t3.concat(7); t.concat(7); print t1.count() t.count();'
          ' for k in 1 to 2 loop print k; end loop; n = 0; while n < 5 loop n = n + 1; if n == 2 then continue; end if; if n == 4 then break; end if; put n; end loop; print "";'
          ' function zzf() return integer is begin return 1; end; print zzf();')
DECL = ('i1 = 0; i2 = 0; i3 = 0; n1 = 0; n2 = 0; n3 = 0; e1 = 0; e2 = 0; e3 = 0; i = 0; e = 0; zz = 0; zero = 0; sv = "abc"; vt = true; vf = false; '
        't1 = tab(2, 0); t2 = tab(2, 0); t3 = tab(2, 0); t = tab(2, 0);')


def spec(v):
    return "ninteger" if v is None else "i%d" % v


# ------------------------------------------------------------------------------------------------
# (a) headers
def header_cases(tier):
    n = 0
    lat = [MIN, MIN + 1, -2, -1, 0, 1, 2, MAX - 1, MAX, None]
    steps = ["absent", None, MIN, -1, 0, 1, 2, MAX]
    orders = ["auto", "asc", "desc"]
    body = [("printv", "i"), ("let", "n", ("bin", "+", ("var", "n"), ("int", 1))),
            ("if", ("bin", ">=", ("var", "n"), ("int", 4)), [("break",)], None)]
    for b in lat:
        for e in lat:
            for s in steps:
                for o in orders:
                    loop = ("for", "i", ("var", "vb"), ("var", "ve"), None if s == "absent" else ("var", "vs"), o, body)
                    prog = [("let", "n", ("int", 0)),
                            ("begin", [loop], [("out_of_range", [("print", "OOR")])]),
                            ("print", "done"), ("printv", "i")]
                    env = {"vb": b, "ve": e, "vs": None if s == "absent" else s, "i": 0}
                    yield n, prog, env, {"kind": "hdr", "b": b, "e": e, "s": s, "o": o}
                    n += 1
    # short ranges run to completion, near zero and near the ends of the integer range
    bases = [0, MAX - 3, MIN + 3] if tier == "thorough" else [0, MAX - 2, MIN + 2]
    ss = ["absent", 1, 2, 3]
    bodies = {
        "plain": [("printv", "i")],
        "inc": [("printv", "i"), ("let", "n", ("bin", "+", ("var", "n"), ("int", 1))),
                ("if", ("bin", "<", ("var", "n"), ("int", 3)), [("let", "i", ("bin", "+", ("var", "i"), ("int", 1)))], None)],
        "setnull": [("printv", "i"), ("let", "n", ("bin", "+", ("var", "n"), ("int", 1))),
                    ("if", ("bin", "==", ("var", "n"), ("int", 2)), [("let", "i", ("nullint",))], None)],
        "dec": [("printv", "i"), ("let", "n", ("bin", "+", ("var", "n"), ("int", 1))),
                ("if", ("bin", "==", ("var", "n"), ("int", 2)), [("let", "i", ("bin", "-", ("var", "i"), ("int", 1)))], None)],
    }
    for base in bases:
        for db in range(-3, 4):
            for de in range(-3, 4):
                b, e = base + db, base + de
                if not (MIN <= b <= MAX and MIN <= e <= MAX):
                    continue
                for s in ss:
                    for o in orders:
                        for bn, bd in bodies.items():
                            if bn != "plain" and (abs(base) > 10):
                                # writes to the control variable next to the range ends would overflow in the body itself
                                continue
                            loop = ("for", "i", ("var", "vb"), ("var", "ve"), None if s == "absent" else ("var", "vs"), o, bd)
                            prog = [("let", "n", ("int", 0)), loop, ("print", "done"), ("printv", "i")]
                            env = {"vb": b, "ve": e, "vs": None if s == "absent" else s, "i": 0}
                            yield n, prog, env, {"kind": "rng", "b": b, "e": e, "s": s, "o": o, "body": bn}
                            n += 1
    # bounds and step are evaluated once: the body changes the variables they were taken from
    mods = {
        "limit+1": [("let", "ve", ("bin", "+", ("var", "ve"), ("int", 1)))],
        "limit-away": [("let", "ve", ("bin", "-", ("var", "ve"), ("int", 5)))],
        "limit-null": [("let", "ve", ("nullint",))],
        "first": [("let", "vb", ("int", 50))],
        "step+1": [("let", "vs", ("bin", "+", ("var", "vs"), ("int", 1)))],
        "step-0": [("let", "vs", ("int", 0))],
        "all": [("let", "ve", ("bin", "+", ("var", "ve"), ("int", 2))), ("let", "vb", ("bin", "-", ("var", "vb"), ("int", 2))), ("let", "vs", ("int", 7))],
    }
    for b, e in ((1, 3), (3, 1), (1, 6), (0, 0), (-2, 2)):
        for s in ("absent", 1, 2):
            for o in orders:
                for mn, md in mods.items():
                    loop = ("for", "i", ("var", "vb"), ("var", "ve"), None if s == "absent" else ("var", "vs"), o, [("printv", "i")] + md)
                    prog = [("let", "n", ("int", 0)), loop, ("print", "done"), ("printv", "i"), ("printv", "vb"), ("printv", "ve"), ("printv", "vs")]
                    env = {"vb": b, "ve": e, "vs": 1 if s == "absent" else s, "i": 0}
                    yield n, prog, env, {"kind": "once", "b": b, "e": e, "s": s, "o": o, "mod": mn}
                    n += 1
    # literal bounds (no variables), a sample of the same lattice
    for b in [1, 2, MAX - 1, MAX]:
        for e in [1, 2, MAX - 1, MAX]:
            for o in orders:
                loop = ("for", "i", ("int", b), ("int", e), None, o, body)
                prog = [("let", "n", ("int", 0)), loop, ("print", "done"), ("printv", "i")]
                yield n, prog, {"i": 0}, {"kind": "lit", "b": b, "e": e, "o": o}
                n += 1
    # forall over tables of length 0..3
    for ln in range(0, 4):
        for o in orders:
            for bodyk in ("read", "write", "break", "continue"):
                if bodyk == "read":
                    bd = [("printv", "e")]
                elif bodyk == "write":
                    bd = [("let", "e", ("bin", "+", ("var", "e"), ("int", 10))), ("printv", "e")]
                elif bodyk == "break":
                    bd = [("printv", "e"), ("if", ("bin", "==", ("var", "e"), ("int", 2)), [("break",)], None)]
                else:
                    bd = [("if", ("bin", "==", ("var", "e"), ("int", 2)), [("continue",)], None), ("printv", "e")]
                prog = [("forall", "e", "t", o, bd), ("print", "done"), ("printv", "e"),
                        ("forall", "e", "t", "auto", [("printv", "e")])]
                env = {"t": list(range(1, ln + 1)), "e": 0}
                yield n, prog, env, {"kind": "forall", "len": ln, "o": o, "body": bodyk}
                n += 1


def header_gen(tier):
    def gen():
        for n, prog, env, meta in header_cases(tier):
            ops = [op_ctx(), op_run(DECL)]
            for k, v in env.items():
                if k == "t":
                    # build the table with statements: tab(0,0) then concat
                    ops.append(op_run("t = tab(0, 0); " + " ".join("t.concat(%d);" % x for x in v)))
                elif k in ("vb", "ve", "vs"):
                    ops.append(op_setvar(k, spec(v)))
            text = ctl.btext(prog)
            ops += [op_run(text), op_out(), op_dump(0, "I,E,N"), op_run(PROBES), op_out(), op_dump(0, "I")]
            meta = dict(meta)
            meta["prog"] = prog
            meta["env"] = env
            yield Case("h%d" % n, ops, meta)
    return gen


# ------------------------------------------------------------------------------------------------
# (b) nesting
def blocks(depth, in_loop, loopvar, full_pairs, same=False):
    """All blocks of the grammar at this depth: [S], [S, P], [P, S] (and all pairs [S, S'] of leaves when full_pairs)."""
    P = ("print", None)
    out = []
    seen = set()
    sts = list(stmts(depth, in_loop, loopvar, full_pairs, same))
    for s in sts:
        for b in (s, s + [P], [P] + s):
            key = repr(b)
            if key not in seen:
                seen.add(key)
                out.append(b)
    if full_pairs and depth == 0:
        for s1 in sts:
            for s2 in sts:
                b = s1 + s2
                key = repr(b)
                if key not in seen:
                    seen.add(key)
                    out.append(b)
    return out


_memo = {}


def stmts(depth, in_loop, loopvar, full_pairs, same=False):
    """Statement groups (lists, because `while` needs its counter reset in front)."""
    key = (depth, in_loop, loopvar, full_pairs, same)
    if key in _memo:
        return _memo[key]
    res = []
    res.append([("print", None)])
    if in_loop:
        res.append([("break",)])
        res.append([("continue",)])
    res.append([("return", ("int", 7))])
    res.append([("raise", "ea")])
    if loopvar:
        res.append([("let", loopvar, ("bin", "+", ("var", loopvar), ("int", 1)))])
    if depth > 0:
        d = depth
        iv, nv, ev, tv = "i%d" % d, "n%d" % d, "e%d" % d, ("t1" if same else "t%d" % d)
        for b in blocks(depth - 1, in_loop, loopvar, full_pairs, same):
            res.append([("if", ("var", "vt"), b, None)])
            res.append([("if", ("var", "vf"), [("print", None)], b)])
            res.append([("begin", b, [("ea", [("print", None)])])])
            res.append([("begin", b, [("others", [("print", None)])])])
        if not same:
            for b in blocks(depth - 1, True, iv, full_pairs, same):
                res.append([("for", iv, ("int", 1), ("int", 2), None, "auto", b)])
            for b in blocks(depth - 1, True, None, full_pairs, same):
                res.append([("let", nv, ("int", 0)),
                            ("while", ("bin", "<", ("var", nv), ("int", 2)), [("let", nv, ("bin", "+", ("var", nv), ("int", 1)))] + b)])
        # forall: the body may write through the iterator (it lands in the table)
        # (not when an enclosing forall traverses the same table: it is locked, and the inner iterator inherits the lock)
        for b in blocks(depth - 1, True, None if same else ev, full_pairs, same):
            res.append([("forall", ev, tv, "auto", b)])
            if same:
                res.append([("forall", ev, tv, "desc", b)])
    _memo[key] = res
    return res


def relabel(block):
    """Give every print a unique marker, in order of appearance."""
    counter = [0]

    def rs(s):
        k = s[0]
        if k == "print" and s[1] is None:
            counter[0] += 1
            return ("print", "m%d" % counter[0])
        if k == "if":
            return ("if", s[1], rb(s[2]), rb(s[3]) if s[3] is not None else None)
        if k == "for":
            return s[:6] + (rb(s[6]),)
        if k == "while":
            return ("while", s[1], rb(s[2]))
        if k == "forall":
            return s[:4] + (rb(s[4]),)
        if k == "begin":
            body = rb(s[1])
            return ("begin", body, [(n, rb(b)) for (n, b) in s[2]])
        return s

    def rb(b):
        return [rs(s) for s in b]
    return rb(block)


def nest_programs(tier):
    depth = 3 if tier == "thorough" else 2
    full = tier == "thorough"
    for b in blocks(depth, False, None, False if depth == 3 else full):
        yield relabel(b + [("print", None)])
    # forall nested over the SAME table (the inner loop traverses the table the outer loop is traversing)
    for b in blocks(2 if tier != "thorough" else 3, False, None, False, True):
        if repr(b).count("'forall'") >= 2:
            yield relabel(b + [("print", None)])


def nest_gen(tier):
    def gen():
        n = 0
        for prog in nest_programs(tier):
            text = ctl.btext(prog)
            ops = [op_ctx(), op_run(DECL), op_run(text), op_out(), op_dump(0, "I1,I2,I3,N1,N2,N3,E1,E2,E3,T1,T2,T3"),
                   op_run(PROBES), op_out(), op_dump(0, "I")]
            yield Case("n%d" % n, ops, {"kind": "nest", "where": "top", "prog": prog})
            n += 1
            ftext = ("function fb() return integer is\nbegin\n"
                     "i1 = 0; i2 = 0; i3 = 0; n1 = 0; n2 = 0; n3 = 0; e1 = 0; e2 = 0; e3 = 0; zz = 0; vt = true; vf = false;"
                     " t1 = tab(2, 0); t2 = tab(2, 0); t3 = tab(2, 0);\n%s\nreturn 99;\nend;" % ctl.btext(prog, 1))
            ops = [op_ctx(), op_run(DECL), op_run(ftext), op_run("rr = fb(); print rr;"), op_out(), op_dump(0, "RR"),
                   op_run(PROBES), op_out(), op_dump(0, "I")]
            yield Case("n%d" % n, ops, {"kind": "nest", "where": "func", "prog": prog})
            n += 1
    return gen


# ------------------------------------------------------------------------------------------------
# (c) if / elsif / else chains: every assignment of {true, false, null} to up to 3 rules, with and without else, at top level,
#     inside a loop and inside a function; exactly the first rule whose condition is true runs, else the else branch
COND = {"T": ["vt", "(i1 == 0)"], "F": ["vf", "(i1 == 1)"], "N": ["vn", "(i1 == ni)", "bool()"]}


def ifchain_cases():
    import itertools as it
    for nrules in (1, 2, 3):
        for vals in it.product("TFN", repeat=nrules):
            for has_else in (False, True):
                for variant in (0, 1, 2):
                    conds = [COND[v][min(variant, len(COND[v]) - 1)] if v != "N" else COND["N"][(variant + i) % 3] for i, v in enumerate(vals)]
                    text = ""
                    for i, c in enumerate(conds):
                        text += ("if %s then print \"r%d\"; " if i == 0 else "elsif %s then print \"r%d\"; ") % (c, i)
                    if has_else:
                        text += 'else print "else"; '
                    text += "end if;"
                    want = "else\n" if has_else else ""
                    for i, v in enumerate(vals):
                        if v == "T":
                            want = "r%d\n" % i
                            break
                    yield text, want, "".join(vals) + ("+else" if has_else else "")


# break / continue where no loop of the same function or program is running: they affect nothing (break and continue act on the
# innermost enclosing loop; there is none), in particular not a loop of the caller
STRAY = [
    ('print "a"; break; print "b";', "a\nb\n"),
    ('print "a"; continue; print "b";', "a\nb\n"),
    ('if vt then break; end if; print "b"; if vt then continue; end if; print "c";', "b\nc\n"),
    ('begin break; print "in"; exception when others then print "h"; end; print "b";', "in\nb\n"),
    ('function fs() return integer is begin break; print "in"; continue; print "in2"; return 7; end; print fs(); print "b";', "in\nin2\n7\nb\n"),
    ('function fs() return integer is begin for q in 1 to 2 loop nop; end loop; break; print "in"; return 8; end; print fs(); print fs();', "in\n8\nin\n8\n"),
    ('function fs() return integer is begin break; return 7; end; for k in 1 to 2 loop zz = fs(); print k; end loop; print "b";', "1\n2\nb\n"),
    ('function fs() return integer is begin continue; return 7; end; n = 0; while n < 2 loop n = n + 1; zz = fs(); print n; end loop; print "b";', "1\n2\nb\n"),
    ('function fs() return integer is begin if true then break; end if; return 7; end; t = tab(2, 1); forall e in t loop zz = fs(); print e; end loop; print "b";', "1\n1\nb\n"),
    ('for k in 1 to 2 loop print k; end loop; break; print "after";', "1\n2\nafter\n"),
]


def stray_gen(tier):
    def gen():
        for n, (prog, want) in enumerate(STRAY):
            for route in ("cpp", "capi"):
                ops = [op_ctx(), op_run(DECL + " vn = bool(); ni = int();"), op_run(prog, route=route), op_out(), op_dump(0, "I1"), op_run(PROBES), op_out(), op_dump(0, "I")]
                yield Case("y%d" % n, ops, {"kind": "ifchain", "tag": "stray%d" % n, "where": route, "prog": prog, "want": want})
    return gen


# forall over every kind of table expression (a variable, an element, a temporary, a function result, ...) in both orders
def forall_sources():
    for ln in range(0, 4):
        items = list(range(1, ln + 1))
        build = "tab(0, 0)" + "".join(".concat(%d)" % i for i in items)
        srcs = {
            "variable": ("ts = %s;" % build, "ts"),
            "temporary": ("", build),
            "enclosed-variable": ("ts = %s;" % build, "(ts)"),
            "function-result": ("function fts() return table is begin return %s; end;" % build, "fts()"),
            "function-returning-variable": ("ts = %s; function fts(x) return table is begin return x; end;" % build, "fts(ts)"),
            "opaque-function-result": ("ts = %s; function fts(x) return undefined is begin return x; end;" % build, "fts(ts)"),
            "element": ("tts = tab(2, %s);" % build, "tts.at(1)"),
            "element-of-temporary": ("", "tab(2, %s).at(0)" % build),
            "tuple-free-copy": ("ts = %s; us = ts;" % build, "us"),
            "concat-temporary": ("ts = %s;" % build, "tab(0, 0).concat(ts)"),
        }
        for sname, (pre, expr) in srcs.items():
            for o in ("", "asc", "desc"):
                seq = items if o != "desc" else items[::-1]
                for body, f in (("print e;", lambda q: "".join("%d\n" % v for v in q)),
                                ("if e == 2 then break; end if; print e;", lambda q: "".join("%d\n" % v for v in q[:q.index(2)] if True) if 2 in q else "".join("%d\n" % v for v in q)),
                                ("for k in 1 to 2 loop if k == 2 then continue; end if; print e * 10 + k; end loop;", lambda q: "".join("%d\n" % (v * 10 + 1) for v in q))):
                    prog = '%s forall e in %s %s loop %s end loop; print "done";' % (pre, expr, o, body)
                    yield "%s:%s:%d" % (sname, o or "auto", ln), prog, f(seq) + "done\n"


# writes through the iterator land in the table - also when the element is null and the write has to create the value
ITER_WRITES = [
    ("null-row-concat", "wtt = tab(2, tab(1, 1)); wtt.put(0, null); forall wr in wtt loop wr.concat(5); end loop; print isnull(wtt.at(0)) wtt.at(0).count() wtt.at(0).at(0) wtt.at(1).count() wtt.at(1).at(1);", "FALSE15 2 5\n".replace(" ", "")),
    ("null-row-concat-table", "wtt = tab(2, tab(1, 1)); wtt.put(1, null); forall wr in wtt desc loop wr.concat(tab(2, 9)); end loop; print wtt.at(0).count() wtt.at(1).count() wtt.at(1).at(1);", "329\n"),
    ("null-string-concat", 'wts = tab(2, "a"); wts.put(0, null); forall we in wts loop we.concat("x"); end loop; print wts.at(0) wts.at(1);', "xax\n"),
    ("null-bytes-concat", 'wtb = tab(2, raw("a")); wtb.put(1, null); forall we in wtb loop we.concat(66); end loop; print wtb.at(0).count() wtb.at(1).count() wtb.at(1).at(0);', "2166\n"),
    ("null-int-let", "wtn = tab(2, 1); wtn.put(1, null); forall we in wtn loop we = 7; end loop; print wtn.at(0) wtn.at(1);", "77\n"),
    ("null-row-put", "wtt = tab(2, tab(1, 1)); forall wr in wtt loop wr.put(0, 4); wr.insert(0, 3); end loop; print wtt.at(0).at(0) wtt.at(0).at(1) wtt.at(1).count();", "342\n"),
    ("null-row-nested", "wt3 = tab(1, tab(2, tab(1, 1))); wt3.at(0).put(0, null); forall wq in wt3 loop forall wr in wq loop wr.concat(8); end loop; end loop; print wt3.at(0).at(0).count() wt3.at(0).at(0).at(0) wt3.at(0).at(1).count();", "182\n"),
    ("null-row-in-function", "function fw(wtt) return integer is begin forall wr in wtt loop wr.concat(5); end loop; return wtt.at(0).count() * 10 + wtt.at(1).count(); end; "
     "wta = tab(2, tab(1, 1)); wta.put(0, null); print fw(wta); print isnull(wta.at(0));", "12\nTRUE\n"),
    ("tuple-item-set", 'wtr = tab(2, tup(1, "a")); forall wr in wtr loop wr.set@1(9); end loop; print wtr.at(0)@1 wtr.at(1)@1;', "99\n"),
]


# an inner loop that is not entered at all (its condition is false or null the first time, its range is empty) takes nothing from
# the loop around it
def notentered_cases():
    outers = {"for": ("for wi in 1 to 3 loop", "print wi;", "end loop;", ["1", "2", "3"]),
              "for-desc": ("for wi in 3 to 1 desc loop", "print wi;", "end loop;", ["3", "2", "1"]),
              "forall": ("wt = tab(0, 0).concat(4).concat(5).concat(6); forall we in wt loop", "print we;", "end loop; wt.concat(7); print wt.count();", ["4", "5", "6", "4"]),
              "while": ("wn = 0; while wn < 3 loop wn = wn + 1;", "print wn;", "end loop;", ["1", "2", "3"])}
    inners = {"while-false": "while false loop print \"in\"; end loop;", "while-null": "while vn loop print \"in\"; end loop;",
              "while-false-var": "while wn9 > 5 loop print \"in\"; end loop;", "for-empty": "for wk in 2 to 1 asc loop print \"in\"; end loop;",
              "for-null": "for wk in 1 to ni loop print \"in\"; end loop;", "forall-empty": "forall wq in tab(0, 1) loop print \"in\"; end loop;",
              "forall-null": "forall wq in wnt loop print \"in\"; end loop;", "two-whiles": "while false loop nop; end loop; while vn loop nop; end loop;",
              "while-after-run": "wm = 0; while wm < 1 loop wm = wm + 1; end loop; while wm < 1 loop print \"in\"; end loop;"}
    for on, (head, show, tail, seq) in outers.items():
        for inn, inner in inners.items():
            for place in ("before", "after"):
                body = (inner + " " + show) if place == "before" else (show + " " + inner)
                prog = "wn9 = 0; wnt = tab(0, 1); wnt = null; %s %s %s print \"done\";" % (head, body, tail)
                yield "%s:%s:%s" % (on, inn, place), prog, "".join(x + "\n" for x in seq) + "done\n"


def notentered_gen(tier):
    def gen():
        n = 0
        for tag, prog, want in notentered_cases():
            for route in (("cpp", "capi") if tier == "thorough" else ("cpp",)):
                ops = [op_ctx(), op_run(DECL + " vn = bool(); ni = int();"), op_run(prog, route=route), op_out(), op_dump(0, "I1"), op_run(PROBES), op_out(), op_dump(0, "I")]
                yield Case("ne%d" % n, ops, {"kind": "ifchain", "tag": "inner-loop-not-entered:" + tag.rsplit(":", 1)[0], "where": route, "prog": prog, "want": want})
                n += 1
    return gen


def iterwrites_gen(tier):
    def gen():
        n = 0
        for tag, prog, want in ITER_WRITES:
            for route in ("cpp", "capi"):
                ops = [op_ctx(), op_run(DECL + " vn = bool(); ni = int();"), op_run(prog, route=route), op_out(), op_dump(0, "I1"), op_run(PROBES), op_out(), op_dump(0, "I")]
                yield Case("iw%d" % n, ops, {"kind": "ifchain", "tag": "iterator-write:" + tag, "where": route, "prog": prog, "want": want})
                n += 1
    return gen


def sources_gen(tier):
    def gen():
        n = 0
        for tag, prog, want in forall_sources():
            for route in (("cpp", "capi") if tier == "thorough" else ("cpp",)):
                ops = [op_ctx(), op_run(DECL + " vn = bool(); ni = int();"), op_run(prog, route=route), op_out(), op_dump(0, "I1"), op_run(PROBES), op_out(), op_dump(0, "I")]
                yield Case("fs%d" % n, ops, {"kind": "ifchain", "tag": "forall-source:" + tag.rsplit(":", 1)[0], "where": route, "prog": prog, "want": want})
                n += 1
    return gen


def ifchain_gen(tier):
    def gen():
        n = 0
        pre = DECL + " vn = bool(); ni = int();"
        for text, want, tag in ifchain_cases():
            for where in ("top", "loop", "func"):
                if where == "top":
                    prog, exp = text + ' print "after";', want + "after\n"
                elif where == "loop":
                    prog, exp = "for k in 1 to 2 loop %s print k; end loop; print \"after\";" % text, (want + "1\n" + want + "2\n") + "after\n"
                else:
                    prog = ("function fi() return integer is begin i1 = 0; vt = true; vf = false; vn = bool(); ni = int(); %s return 7; end; print fi(); print \"after\";" % text)
                    exp = want + "7\nafter\n"
                ops = [op_ctx(), op_run(pre), op_run(prog), op_out(), op_dump(0, "I1"), op_run(PROBES), op_out(), op_dump(0, "I")]
                yield Case("c%d" % n, ops, {"kind": "ifchain", "tag": tag, "where": where, "prog": prog, "want": exp})
                n += 1
    return gen


# ------------------------------------------------------------------------------------------------
PROBE_EXPECT = "stringstringstringstring\n%s\n1\n2\n13\n1\n"


def text(step):
    return unhex(step.get("out", "")).decode("latin-1")


def intval(dump, name):
    v = dump.get(name)
    if v is None or v == "<none>":
        return "absent"
    _, _, val = v.partition("=")
    if val.startswith("i"):
        return int(val[1:])
    if val.startswith("N("):
        return None
    if val.startswith("P>"):
        return "pointer:" + val
    return val


def check_probes(vs, case, run_step, out, dumpstep, tcount_expect, kind):
    if run_step.get("r") != "ok":
        vs.append(Violation("residue:%s:probe-rejected" % kind, "probe statements failed after the program: %s" % run_step, case))
    elif out != PROBE_EXPECT % tcount_expect:
        vs.append(Violation("residue:%s:probe-output" % kind, "probes printed %r, expected %r" % (out, PROBE_EXPECT % tcount_expect), case))
    if dumpstep.get("cdepth") != 0 or dumpstep.get("xlevel") != 0 or dumpstep.get("flags") not in ("", None):
        vs.append(Violation("residue:%s:stacks" % kind, "control depth %s, block level %s, flags %r after the program and probes" % (
            dumpstep.get("cdepth"), dumpstep.get("xlevel"), dumpstep.get("flags")), case))


def check(case, res):
    vs = generic_safety(case, res)
    if res.get("st") != "done":
        return vs, True
    m = case.meta
    st = res["steps"]
    kind = m["kind"]
    if kind == "forall" and "prog" in m and "m" in m:
        # the read-only lock on the iterated table while the loop runs (programs and oracle shared with C09)
        from . import c09
        return c09.check(case, res)
    if kind in ("hdr", "rng", "lit", "forall", "once"):
        k = len(st) - 6
        run, out, dump, prun, pout, pdump = st[k], text(st[k + 1]), st[k + 2], st[k + 3], text(st[k + 4]), st[k + 5]
        env = {kk: (list(v) if isinstance(v, list) else v) for kk, v in m["env"].items()}
        env.update({"zero": 0, "n": 0})
        ref = ctl.Ref(budget=5000)
        (status, detail), env = ref.run_program(m["prog"], env)
        want = "".join(l + "\n" for l in ref.out)
        tag = "%s:%s" % (kind, m.get("o"))
        if status == "nonterm":
            vs.append(Violation("oracle:nonterm", "reference did not terminate", case))
            return vs, False
        if run.get("r") == "budget":
            vs.append(Violation("for:nonterminating:%s" % kind, "loop does not terminate (step budget): %s" % {a: b for a, b in m.items() if a not in ("prog", "env")}, case))
            return vs, True
        if status == "ok" and run.get("r") != "ok":
            vs.append(Violation("for:error:%s" % kind, "unexpected error %s for %s" % (run, {a: b for a, b in m.items() if a not in ("prog", "env")}), case))
        elif status == "error" and run.get("r") == "ok":
            vs.append(Violation("for:missing-error:%s" % kind, "expected error %s" % detail.name, case))
        if out != want:
            vs.append(Violation("for:trace:%s" % tag, "printed %r, expected %r for %s" % (out, want, {a: b for a, b in m.items() if a not in ("prog", "env")}), case))
        tlen = len(env["t"]) if "t" in env else 2
        check_probes(vs, case, prun, pout, pdump, "3%d" % (tlen + 1), kind)
        return vs, True
    if kind == "ifchain":
        run, out, prun, pout, pdump = st[2], text(st[3]), st[5], text(st[6]), st[7]
        if run.get("r") != "ok":
            vs.append(Violation("ifchain:error:%s" % m["where"], "%s gave %s" % (m["prog"], run), case))
        elif out != m["want"]:
            vs.append(Violation("ifchain:branch:%s:%s" % (m["tag"], m["where"]), "%s printed %r, expected %r" % (m["prog"], out, m["want"]), case))
        check_probes(vs, case, prun, pout, pdump, "33", kind)
        return vs, True
    if kind == "nest":
        prog = m["prog"]
        if m["where"] == "top":
            run, out, dump, prun, pout, pdump = st[2], text(st[3]), st[4], st[5], text(st[6]), st[7]
            ref = ctl.Ref(budget=5000)
            env = {"i1": 0, "i2": 0, "i3": 0, "n1": 0, "n2": 0, "n3": 0, "e1": 0, "e2": 0, "e3": 0, "zz": 0, "zero": 0, "vt": True, "vf": False,
                   "t1": [0, 0], "t2": [0, 0], "t3": [0, 0]}
            (status, detail), env = ref.run_program(prog, env)
        else:
            if st[2].get("r") != "ok":
                vs.append(Violation("nest:func-rejected", "function wrapper rejected: %s" % st[2], case))
                return vs, False
            run, out, dump, prun, pout, pdump = st[3], text(st[4]), st[5], st[6], text(st[7]), st[8]
            body = [("let", "i1", ("int", 0)), ("let", "i2", ("int", 0)), ("let", "i3", ("int", 0)), ("let", "n1", ("int", 0)),
                    ("let", "n2", ("int", 0)), ("let", "n3", ("int", 0)), ("let", "e1", ("int", 0)), ("let", "e2", ("int", 0)),
                    ("let", "e3", ("int", 0)), ("let", "zz", ("int", 0)), ("let", "vt", ("bool", True)), ("let", "vf", ("bool", False))]
            ref = ctl.Ref(budget=5000)

            class TabEnv(dict):
                pass
            # tables are locals of the function: model them by pre-seeding through a wrapper body
            fbody = body + [("_tabs",)] + prog + [("return", ("int", 99))]
            # the reference has no table constructor statement; emulate by a custom hook
            orig_stmt = ref.stmt

            def stmt(s, env, depth):
                if s[0] == "_tabs":
                    env["t1"], env["t2"], env["t3"] = [0, 0], [0, 0], [0, 0]
                    return
                return orig_stmt(s, env, depth)
            ref.stmt = stmt
            ref.funcs = {"fb": ([], fbody)}
            (status, detail), env = ref.run_program([("let", "rr", ("call", "fb", [])), ("printv", "rr")], {})
        want = "".join(l + "\n" for l in ref.out)
        if status == "nonterm":
            if run.get("r") != "budget":
                vs.append(Violation("nest:should-not-terminate", "reference loops forever, implementation returned %s" % run, case))
            return vs, True
        if run.get("r") == "budget":
            vs.append(Violation("nest:nonterminating", "program does not terminate (step budget)", case))
            return vs, True
        if status == "ok":
            if run.get("r") != "ok":
                vs.append(Violation("nest:error", "unexpected error %s" % run, case))
            elif m["where"] == "top":
                want_ret = None if detail is None else "i%d" % detail
                if run.get("ret") != want_ret:
                    vs.append(Violation("nest:result", "program result %r, expected %r" % (run.get("ret"), want_ret), case))
        else:
            if run.get("r") != "rerr" or (detail.no == 1 and run.get("msg") != detail.msg) or (detail.no is not None and run.get("no") != detail.no):
                vs.append(Violation("nest:error-report", "expected error %s reported to the host, got %s" % (detail.name, run), case))
        if out != want:
            vs.append(Violation("nest:trace:%s" % m["where"], "printed %r, expected %r" % (out, want), case))
        if m["where"] == "top" and run.get("r") in ("ok", "rerr"):
            dv = dump.get("vars", {})
            from ..dumpparse import parse_symbol
            for name in ("t1", "t2", "t3"):
                try:
                    got = [x[1] if x[0] == "i" else None for x in parse_symbol(dv[name.upper()])[2][2]]
                except Exception:
                    got = dv.get(name.upper())
                if got != env.get(name):
                    vs.append(Violation("nest:final-table", "table %s is %r after the program, expected %r" % (name, got, env.get(name)), case))
                    break
            for name in ("i1", "i2", "i3", "n1", "n2", "n3", "e1", "e2", "e3"):
                got = intval(dv, name.upper())
                exp = env.get(name)
                if got != exp:
                    vs.append(Violation("nest:final-var:%s" % name[0], "variable %s is %r after the program, expected %r" % (name, got, exp), case))
                    break
        check_probes(vs, case, prun, pout, pdump, "33", "nest")
        return vs, True
    return vs, False


def run(tier):
    t0 = time.time()
    deadline = t0 + (2400 if tier == "thorough" else 400)
    total = Result()
    total.merge(explore("%s-%s-headers" % (PROP, tier), header_gen(tier), check, chunk=200, deadline=deadline))
    from ..core import explore_gcc
    total.merge(explore_gcc("%s-%s-headers" % (PROP, tier), header_gen(tier), check, chunk=200, deadline=deadline))
    total.merge(explore("%s-%s-ifchains" % (PROP, tier), ifchain_gen(tier), check, chunk=200, deadline=deadline))
    total.merge(explore("%s-%s-stray" % (PROP, tier), stray_gen(tier), check, chunk=20, deadline=deadline))
    total.merge(explore("%s-%s-forall-sources" % (PROP, tier), sources_gen(tier), check, chunk=50, deadline=deadline))
    total.merge(explore("%s-%s-iterator-writes" % (PROP, tier), iterwrites_gen(tier), check, chunk=20, deadline=deadline))
    total.merge(explore("%s-%s-inner-loop-not-entered" % (PROP, tier), notentered_gen(tier), check, chunk=20, deadline=deadline))
    from . import c09
    total.merge(explore("%s-%s-lock" % (PROP, tier), c09.forall_gen(tier), check, chunk=50, deadline=deadline))
    total.merge(explore("%s-%s-nesting" % (PROP, tier), nest_gen(tier), check, chunk=200, deadline=deadline))
    rule = ("(a) every for header over first/limit in {MIN, MIN+1, -2..2, MAX-1, MAX, null} x step in {absent, null, MIN, -1, 0, 1, 2, MAX} x "
            "{auto, asc, desc}; every short range (|limit-first| <= 3, steps 1..3) run to completion near 0, INT64_MAX and INT64_MIN, with bodies "
            "that write the control variable; forall over tables of length 0..3 with read/write/break/continue bodies; (b) every program of the "
            "nesting grammar (if/else, for, while, forall, begin+handler around blocks of print/break/continue/return/raise/control-variable write) "
            "to depth %s at top level and inside a function; compared line by line with the reference interpreter, then probe statements check "
            "that no iterator constraint, table lock, pending break/continue or block level is left. Non-trivial: the program was accepted and run"
            % ("3" if tier == "thorough" else "2"))
    return finish(PROP, tier, total, check, rule, t0, assumptions=["reference interpreter vf/ctl.py", "step budget 200000 statements separates termination from non-termination"])
