"""C08 — a function call depends only on its arguments, never on earlier calls.

For every function of a family of bodies (conditionally assigned locals, accumulating locals, loops with early
return, recursion, mutual recursion, parameter mutation, handled / unhandled errors, forall over a local table,
typed and $-constrained locals, overloads) and every probe call, ALL histories of up to 3 (quick) / 4 (thorough)
earlier calls are executed; the probe call's output and result must equal (1) the same call in a fresh context
and (2) the value the model gives. Also: caller variables are untouched, callee cannot name caller variables,
overloads are picked by arity, the 256th nested call raises the recursion-limit error, no leak after failed calls.
"""
import itertools
import time

from ..core import Case, Violation, explore, finish, generic_safety, op_ctx, op_run, op_dump, op_out, unhex, Result

PROP = "C08"

# name -> (definition text, [call argument texts], model(argtext) -> expected printed text of the call block)
# a call block is:  begin r = F(args); print "r=" r; exception when others then print "err=" error@1; end;
DEFS = []
CALLS = {}
MODEL = {}


def fn(name, text, calls):
    DEFS.append(text)
    CALLS[name] = calls


def block(call):
    return 'begin r = %s; print "r=" r; exception when others then print "err=" error@1; end;' % call


fn("fx", "function fx(a) return integer is begin if a then x = 1; end if; return x; end;",
   {"fx(true)": "r=1\n", "fx(false)": "r=null\n", "fx(null)": "r=null\n", "fx(1/zero == 1)": "err=DIVIDE_BY_ZERO\n"})
fn("fs", 'function fs(a) return string is begin if a then s = "v"; end if; return s; end;',
   {"fs(true)": "r=v\n", "fs(false)": "r=null\n", "fs(1/zero == 1)": "err=DIVIDE_BY_ZERO\n"})
fn("ft", "function ft(a) return table is begin if a then t = tab(2, 7); end if; if isnull(t) then return 0; end if; return t.count(); end;",
   {"ft(true)": "r=2\n", "ft(false)": "r=0\n"})
fn("fxi", "function fxi(a) return integer is begin if a > 0 then x = a; end if; return x; end;",
   {"fxi(5)": "r=5\n", "fxi(0)": "r=null\n", "fxi(7)": "r=7\n", "fxi(int())": "r=null\n", "fxi(fxi(5))": "r=5\n", "fxi(fxi(0))": "r=null\n"})
fn("facc", "function facc(a) return integer is begin if a < 0 then n = 0; end if; if isnull(n) then n = 100; end if; n = n + a; return n; end;",
   {"facc(1)": "r=101\n", "facc(2)": "r=102\n", "facc(-1)": "r=-1\n", "facc(facc(1))": "r=201\n"})
fn("fl", "function fl(a) return integer is begin for i in 1 to 5 loop if i == a then return i * 10; end if; end loop; return -1; end;",
   {"fl(1)": "r=10\n", "fl(3)": "r=30\n", "fl(9)": "r=-1\n"})
fn("fact", "function fact(n) return integer is begin if n <= 1 then return 1; end if; return n * fact(n - 1); end;",
   {"fact(1)": "r=1\n", "fact(5)": "r=120\n", "fact(3)": "r=6\n", "fact(fact(3))": "r=720\n"})
fn("fib", "function fib(n) return integer is begin if n < 2 then return n; end if; a = fib(n - 1); b = fib(n - 2); return a + b; end;",
   {"fib(1)": "r=1\n", "fib(6)": "r=8\n", "fib(4)": "r=3\n"})
fn("od", "function od(n) return boolean is begin return false; end;", {})
fn("ev", "function ev(n) return boolean is begin if n == 0 then return true; end if; return od(n - 1); end;",
   {"ev(0)": "r=TRUE\n", "ev(3)": "r=FALSE\n", "ev(4)": "r=TRUE\n"})
fn("od2", "function od(n) return boolean is begin if n == 0 then return false; end if; return ev(n - 1); end;",
   {"od(3)": "r=TRUE\n", "od(2)": "r=FALSE\n"})
fn("fm", "function fm(t) return integer is begin t.put(0, 99); t.concat(5); return t.at(0) + t.count(); end;",
   {"fm(gt)": "r=102\n", "fm(tab(1, 4))": "r=101\n"})
fn("fms", 'function fms(s) return string is begin s.concat("x"); return s; end;',
   {"fms(gs)": "r=abcx\n", 'fms("q")': "r=qx\n"})
fn("fmi", "function fmi(a) return integer is begin a = a + 1; return a; end;",
   {"fmi(gi)": "r=8\n", "fmi(1)": "r=2\n", "fmi(fmi(1))": "r=3\n", "fmi(fmi(gi))": "r=9\n"})
fn("fhe", "function fhe(a) return integer is begin begin if a then raise ea; end if; x = 1; exception when ea then y = 2; end; if isnull(x) then return y; end if; return x; end;",
   {"fhe(true)": "r=2\n", "fhe(false)": "r=1\n"})
fn("fue", "function fue(a) return integer is begin if a == 1 then x = 5; end if; if a == 2 then raise eu; end if; return x; end;",
   {"fue(1)": "r=5\n", "fue(2)": "err=EU\n", "fue(0)": "r=null\n"})
fn("ffa", "function ffa(a) return integer is begin t = tab(3, a); forall e in t loop e = e + 1; end loop; t.concat(0); return t.at(2) + t.count(); end;",
   {"ffa(1)": "r=6\n", "ffa(5)": "r=10\n"})
fn("ffe", "function ffe(a) return integer is begin t = tab(3, 1); forall e in t loop if a then raise ea; end if; end loop; t.concat(4); return t.count(); end;",
   {"ffe(true)": "err=EA\n", "ffe(false)": "r=4\n"})
fn("fle", 'function fle(a) return integer is begin for i in 1 to 3 loop if a and i == 2 then raise ea; end if; end loop; k = i; i = "s"; return k; end;',
   {"fle(true)": "err=EA\n", "fle(false)": "r=3\n"})
fn("fwe", "function fwe(a) return integer is begin n = 0; while n < 3 loop n = n + 1; if a == n then zz = 1 / (n - n); end if; end loop; return n; end;",
   {"fwe(2)": "err=DIVIDE_BY_ZERO\n", "fwe(0)": "r=3\n", "fwe(3)": "err=DIVIDE_BY_ZERO\n"})
fn("frn", "function frn(a) return integer is begin for i in 1 to 3 loop for j in 1 to 3 loop if i * j == a then return i * 10 + j; end if; end loop; end loop; return 0; end;",
   {"frn(4)": "r=22\n", "frn(9)": "r=33\n", "frn(7)": "r=0\n"})
fn("fo0", 'function fo() return integer is begin return 0; end;', {"fo()": "r=0\n"})
fn("fo1", 'function fo(a) return integer is begin return 1; end;', {"fo(5)": "r=1\n"})
fn("fo2", 'function fo(a, b) return integer is begin return 2; end;', {"fo(5, 6)": "r=2\n", "fo(fo(), fo(1))": "r=2\n", "fo(fo(1, 2))": "r=1\n"})
fn("fp", 'function fp(a) return integer is begin print "fp" a; return a; end;',
   {"fp(1)": "fp1\nr=1\n", "fp(2)": "fp2\nr=2\n", "fp(fp(2))": "fp2\nfp2\nr=2\n"})
fn("fty", 'function fty(a) return undefined is begin if a then v = 1; else v = "s"; end if; return typeof(v); end;',
   {"fty(true)": "r=integer\n", "fty(false)": "r=string\n"})
fn("fsafe", "function fsafe(a) return integer is begin if a == 1 then $k = 1; end if; if a == 2 then $k = 2; end if; return $k; end;",
   {"fsafe(1)": "r=1\n", "fsafe(2)": "r=2\n", "fsafe(0)": "r=null\n"})
fn("fnr", "function fnr(a) return integer is begin if a then return 1; end if; x = 2; end;",
   {"fnr(true)": "r=1\n", "fnr(false)": "r=null\n"})
fn("add", "function add(a, b) return integer is begin return a + b; end;",
   {"add(1, 2)": "r=3\n", "add(1, add(2, 3))": "r=6\n", "add(add(1, 2), 3)": "r=6\n", "add(10, add(20, add(30, 40)))": "r=100\n",
    "add(add(1, 2), add(3, 4))": "r=10\n", "add(1, add(2, 1/zero))": "err=DIVIDE_BY_ZERO\n"})
fn("mark", "function mark(v) return integer is begin if v < 10 then flag = true; end if; if flag then return v + 100; end if; return v; end;",
   {"mark(5)": "r=105\n", "mark(105)": "r=105\n", "mark(mark(5))": "r=105\n", "mark(mark(105))": "r=105\n"})
# the same callee reached at several nesting levels
fn("at", "function at(k, a) return integer is begin if k <= 0 then return fxi(a); end if; return at(k - 1, a); end;",
   {"at(0, 5)": "r=5\n", "at(3, 5)": "r=5\n", "at(3, 0)": "r=null\n", "at(40, 7)": "r=7\n", "fxi(9)": "r=9\n"})
# the error a handler saw is not visible to later calls (also when the handler itself raised)
fn("ferr", "function ferr(k) return string is begin if k == 1 then begin raise boom; exception when boom then raise again; end; end if; "
           "if k == 2 then begin raise soft; exception when soft then zz = 1; end; end if; return \"<\" + str(error@1) + str(error@2) + \">\"; end;",
   {"ferr(0)": "r=<>\n", "ferr(1)": "err=AGAIN\n", "ferr(2)": "r=<>\n"})
# a built-in that evaluates an argument several times and fails at the second evaluation (nothing may be left allocated)
fn("fonce2", "function fonce2(s, a) return integer is begin if a and s.count() > 1 then raise efail; end if; return s.count(); end;", {})
fn("ftf", 'function ftf(a) return integer is begin s = ""; t = tab(3, fonce2(s.concat("x"), a)); return t.count() * 10 + t.at(2); end;',
   {"ftf(true)": "err=EFAIL\n", "ftf(false)": "r=33\n"})
# what one call did to its run-time context (trace mode switched on, a local re-typed by the branch it took) is gone for the next call
fn("ftr", "function ftr(k) return integer is begin if k == 1 then trace true; end if; x = k + 1; if x > 5 then x = 0; end if; return x; end;",
   {"ftr(0)": "r=1\n", "ftr(1)": "r=2\n", "ftr(7)": "r=0\n"})
fn("flast", 'function flast(k) return integer is begin if k == 1 then last = "s"; return 0; end if; if k == 2 then last = 5; end if; return last + 1; end;',
   {"flast(0)": "r=null\n", "flast(2)": "r=6\n", "flast(1)": "r=0\n"})
# unset locals: left null with another type by an earlier call, used by in-place built-ins in the first call of a new context
fn("fnl", 'function fnl(k) return string is begin if k == 1 then w = lower(null); end if; if k == 2 then w = 5; end if; return typeof(w) + ":" + str(isnull(w)); end;',
   {"fnl(0)": "r=integer:TRUE\n", "fnl(1)": "r=string:TRUE\n", "fnl(2)": "r=integer:FALSE\n"})
fn("fun", 'function fun(k) return string is begin if k == 1 then s = "a"; end if; x = upper(s); y = typeof(s); z = s + "q"; return str(isnull(s)) + y + str(isnull(x)) + str(isnull(z)); end;',
   {"fun(0)": "r=TRUEstringTRUEFALSE\n", "fun(1)": "r=FALSEstringFALSEFALSE\n"})
fn("fdeep", 'function fdeep(n, k) return string is begin if n > 0 then return fdeep(n - 1, k); end if; if k == 1 then s = "a"; end if; x = upper(s); return str(isnull(s)) + typeof(s) + str(isnull(x)); end;',
   {"fdeep(0, 0)": "r=TRUEstringTRUE\n", "fdeep(3, 0)": "r=TRUEstringTRUE\n", "fdeep(3, 1)": "r=FALSEstringFALSE\n", "fdeep(5, 0)": "r=TRUEstringTRUE\n"})
# unset locals of every container type, each assigned by some calls only: a reused context must hand them out unset, not emptied
fn("flc", 'function flc(k) return string is begin if k == 1 then wt = tab(2, 1); end if; if k == 2 then wr = tup(1, "a"); wb = raw("ab"); end if; '
   'if k == 3 then ww = tab(1, tab(1, 1)); ws = "str"; end if; '
   'return str(isnull(wt)) + str(isnull(wr)) + str(isnull(wb)) + str(isnull(ww)) + str(isnull(ws)) + str(isnull(wt.count())) + str(isnull(ww.count())); end;',
   {"flc(0)": "r=TRUETRUETRUETRUETRUETRUETRUE\n", "flc(1)": "r=FALSETRUETRUETRUETRUEFALSETRUE\n", "flc(2)": "r=TRUEFALSEFALSETRUETRUETRUETRUE\n",
    "flc(3)": "r=TRUETRUETRUEFALSEFALSETRUEFALSE\n"})
fn("farg", "function farg(a, b) return integer is begin if isnull(c) then c = 0; end if; c = c + a * 10 + b; return c; end;", {})
# farg reads c before assignment lexically -> must be rejected; handled separately

GLOBALS = 'zero = 0; gi = 7; gs = "abc"; gt = tab(2, 1); r = 0;'
GLOBALS_DUMP = "ZERO,GI,GS,GT"
GLOBALS_EXPECT = {"ZERO": "integer=i0", "GI": "integer=i7", "GS": "string=s616263", "GT": "integer*1=T(integer*1)[i1,i1]"}

GROUPS = {
    "fx": ["fx"], "fs": ["fs"], "ft": ["ft"], "fxi": ["fxi"], "facc": ["facc"], "fl": ["fl"], "fact": ["fact"], "fib": ["fib"],
    "evod": ["ev", "od2"], "fm": ["fm"], "fms": ["fms"], "fmi": ["fmi"], "fhe": ["fhe"], "fue": ["fue"], "ffa": ["ffa"], "ffe": ["ffe"],
    "fle": ["fle"], "fwe": ["fwe"], "frn": ["frn"], "fo": ["fo0", "fo1", "fo2"], "fp": ["fp"], "fty": ["fty"], "fsafe": ["fsafe"], "fnr": ["fnr"],
    "add": ["add"], "mark": ["mark"], "at": ["at"], "ferr": ["ferr"], "ftf": ["fonce2", "ftf"], "ftr": ["ftr"], "flast": ["flast"], "fnl": ["fnl"], "flc": ["flc"], "fun": ["fun"], "fdeep": ["fdeep"],
}


def defs_text():
    return "\n".join(d for d in DEFS if not d.startswith("function farg"))


ISOLATION = [
    # (definition, must be rejected at compile time)
    ("function g1() return integer is begin return gi; end;", True),
    ("function g2() return integer is begin gi = 5; return 1; end;", False),     # creates a local gi: allowed, caller untouched
    ("function g3(a) return integer is begin return a + zero; end;", True),
    ("function g4() return integer is begin gt.put(0, 5); return 1; end;", True),
    ("function g5() return integer is begin return r; end;", True),
]


def gen_factory(tier):
    hmax = 5 if tier == "thorough" else 3

    def gen():
        n = 0
        defs = defs_text()
        for gname, members in GROUPS.items():
            alphabet = {}
            for mname in members:
                alphabet.update(CALLS[mname])
            calls = list(alphabet.keys())
            for probe in calls:
                for hl in range(0, hmax + 1):
                    if hl == 5 and len(calls) > 3:
                        continue          # histories of 5 calls only for groups with <= 3 distinct calls
                    for hist in itertools.product(calls, repeat=hl):
                        htext = "\n".join(block(c) for c in hist)
                        ops = [op_ctx(0), op_run(GLOBALS), op_run(defs)]
                        if hist:
                            ops += [op_run(htext), op_out(0)]
                        ops += [op_run(block(probe)), op_out(0), op_dump(0, GLOBALS_DUMP),
                                op_ctx(1), op_run(GLOBALS, slot=1), op_run(defs, slot=1), op_run(block(probe), slot=1), op_out(1)]
                        failing = any("err=" in alphabet[c] for c in hist) or "err=" in alphabet[probe]
                        if failing:
                            ops.append("leakcheck")
                        yield Case("f%d" % n, ops, {"kind": "hist", "group": gname, "probe": probe, "hist": list(hist), "expect": alphabet[probe],
                                                    "nh": 1 if hist else 0, "leak": failing})
                        n += 1
        # the call is the operand of a program-level return statement (the return condition of the program must not reach the callee)
        for gname, members in GROUPS.items():
            alphabet = {}
            for mname in members:
                alphabet.update(CALLS[mname])
            for probe, exp in alphabet.items():
                if "err=" in exp:
                    continue
                for wrap in ("return %s;", "print 1; return %s;", "for qq in 1 to 1 loop return %s; end loop;"):
                    ops = [op_ctx(0), op_run(GLOBALS), op_run(defs), op_run(wrap % probe), op_out(0),
                           op_ctx(1), op_run(GLOBALS, slot=1), op_run(defs, slot=1), op_run("r = %s;" % probe, slot=1), op_out(1), op_dump(1, "R")]
                    yield Case("t%d" % n, ops, {"kind": "retcall", "group": gname, "probe": probe, "wrap": wrap})
                    n += 1
        # a function is defined again (as a text of its own) after the earlier definition was called: calls of the new definition
        # behave as in a context that only ever saw the new one (run-time contexts of the old one must not be reused)
        versions = {
            "small": "function fv(n) return integer is begin return n + 1; end;",
            "big": "function fv(n) return integer is begin a = n * 2; b = a + 1; c = b * 3; d = c + a + b; e2 = tab(3, d); s2 = str(d); return d + e2.count() + strlen(s2); end;",
            "rec": "function fv(n) return integer is begin if n <= 0 then return 0; end if; k = n; return k + fv(n - 1); end;",
            "str": 'function fv(n) return string is begin w = "v"; w.concat(str(n)); return w; end;',
            "loop": "function fv(n) return integer is begin acc = 0; for i in 1 to n loop acc = acc + i; if i == 2 then return acc * 100; end if; end loop; return acc; end;",
            "fail": "function fv(n) return integer is begin if n > 1 then raise ev; end if; x1 = n; return x1; end;",
        }
        for v1n, v1 in versions.items():
            for v2n, v2 in versions.items():
                for hist in ([], ["fv(1)"], ["fv(1)", "fv(3)"], ["fv(3)", "fv(1)", "fv(2)"]):
                    for probe in ("fv(1)", "fv(3)"):
                        ops = [op_ctx(0), op_run(GLOBALS), op_run(v1)]
                        for c in hist:
                            ops.append(op_run(block(c)))
                        ops += [op_out(0), op_run(v2), op_run(block(probe)), op_out(0), op_dump(0, GLOBALS_DUMP),
                                op_ctx(1), op_run(GLOBALS, slot=1), op_run(v2, slot=1), op_run(block(probe), slot=1), op_out(1), "leakcheck"]
                        yield Case("v%d" % n, ops, {"kind": "redef", "v1": v1n, "v2": v2n, "hist": hist, "probe": probe, "nh": len(hist)})
                        n += 1
        # the new definition arrives in a text that calls the function before the FUNCTION statement, or in a text that is rejected
        for v1n, v1 in versions.items():
            for v2n, v2 in versions.items():
                for hist in (["fv(1)"], ["fv(3)", "fv(1)", "fv(2)"]):
                    for probe in ("fv(1)", "fv(3)"):
                        for shape in ("call-first", "rejected", "rejected-call-first"):
                            if shape == "call-first":
                                text2 = block(probe) + "\n" + v2 + "\n" + block(probe)
                            elif shape == "rejected":
                                text2 = v2 + "\nzq = 1 +;"
                            else:
                                text2 = block(probe) + "\n" + v2 + "\nzq = 1 +;"
                            ops = [op_ctx(0), op_run(GLOBALS), op_run(v1)]
                            for c in hist:
                                ops.append(op_run(block(c)))
                            ops += [op_out(0), op_run(text2), op_out(0), op_run(block(probe)), op_out(0),
                                    op_ctx(1), op_run(GLOBALS, slot=1), op_run(v2, slot=1), op_run(block(probe), slot=1), op_out(1),
                                    op_ctx(2), op_run(GLOBALS, slot=2), op_run(v1, slot=2), op_run(block(probe), slot=2), op_out(2), "leakcheck"]
                            yield Case("w%d" % n, ops, {"kind": "redef2", "v1": v1n, "v2": v2n, "hist": hist, "probe": probe, "nh": len(hist), "shape": shape})
                            n += 1
        # caller isolation at compile time
        for k, (d, rejected) in enumerate(ISOLATION):
            ops = [op_ctx(0), op_run(GLOBALS), op_run(d), op_run("r = g%d(%s); print r;" % (k + 1, "1" if "(a)" in d else "")), op_out(0), op_dump(0, GLOBALS_DUMP)]
            yield Case("i%d" % n, ops, {"kind": "iso", "def": d, "rejected": rejected})
            n += 1
        # an argument is received by copy at the moment it is evaluated: a later argument of the same call that changes the variable in
        # place does not reach into the parameter already bound (and an earlier one does)
        shows = {"s": ("string", 'print "a=" a " b=" b;'), "t": ("table", 'print "a=" a.count() a.at(0) " b=" b.count() b.at(0);'),
                 "r": ("tuple", 'print "a=" a@1 " b=" b@1;'), "x": ("bytes", 'print "a=" a.count() a.at(0) " b=" b.count() b.at(0);')}
        alias = [
            # variable, its initial value, the mutating expression, (value shown before, value shown after)
            ("s", 's = "abc";', 's.concat("!")', "abc", "abc!"),
            ("t", "t = tab(2, 5);", "t.put(0, 9)", "25", "29"),
            ("t", "t = tab(2, 5);", "t.concat(7)", "25", "35"),
            ("t", "t = tab(2, 5);", "t.delete(0)", "25", "15"),
            ("t", "t = tab(2, 5);", "t.insert(0, 1)", "25", "31"),
            ("r", 'r = tup(1, "q");', "r.set@1(4)", "1", "4"),
            ("x", 'x = raw("ab");', "x.concat(99)", "297", "397"),
            ("x", 'x = raw("ab");', "x.put(0, 66)", "297", "266"),
        ]
        for var, init, mut, before, after in alias:
            for order in ("var-first", "mutation-first", "three", "nested"):
                fdef = "function pair(a, b) return integer is begin %s return 1; end; function tri(a, b, c) return integer is begin %s print c; return 1; end; function idv(v) return undefined is begin return v; end;" % (shows[var][1], shows[var][1])
                if order == "var-first":
                    call, want = "zz = pair(%s, %s);" % (var, mut), "a=%s b=%s\n" % (before, after)
                elif order == "mutation-first":
                    call, want = "zz = pair(%s, %s);" % (mut, var), "a=%s b=%s\n" % (after, after)
                elif order == "three":
                    call, want = "zz = tri(%s, %s, 0);" % (var, mut), "a=%s b=%s\n0\n" % (before, after)
                else:
                    call, want = "zz = pair(%s, idv(%s));" % (var, mut), "a=%s b=%s\n" % (before, after)
                ops = [op_ctx(0), op_run(GLOBALS), op_run(fdef), op_run(init + " " + call), op_out(0)]
                yield Case("a%d" % n, ops, {"kind": "alias", "call": call, "init": init, "want": want})
                n += 1
        # recursion depth, reached directly and below k+1 levels of another function, after earlier calls at other levels
        rec = ("function rec(n) return integer is begin if n <= 1 then return 1; end if; return 1 + rec(n - 1); end; "
               "function down(k, n) return integer is begin if k <= 0 then return rec(n); end if; return down(k - 1, n); end;")
        probes = [("rec(%d)" % d, d, d) for d in list(range(250, 262)) + [1, 2, 100, 200, 300, 1000]]
        for k in (0, 1, 100, 200, 253):
            for total in (k + 2, 200, 254, 255, 256, 257):
                nn = total - k - 1
                if nn >= 1:
                    probes.append(("down(%d, %d)" % (k, nn), total, nn))
        priors = [[], ["rec(255)"], ["rec(256)"], ["rec(300)", "rec(3)"], ["down(100, 50)"], ["down(200, 10)"], ["down(100, 155)"], ["down(100, 50)", "rec(200)"],
                  ["rec(200)", "down(100, 50)"]]
        for call, total, val in probes:
            for prior in priors:
                ops = [op_ctx(0), op_run(rec)]
                for p in prior:
                    ops.append(op_run("begin r = %s; exception when others then r = -1; end;" % p))
                ops += [op_run("r = %s; print r;" % call), op_out(0)]
                yield Case("r%d" % n, ops, {"kind": "rec", "call": call, "total": total, "val": val, "prior": prior})
                n += 1
    return gen


def text(step):
    return unhex(step.get("out", "")).decode("latin-1")


def check(case, res):
    vs = generic_safety(case, res)
    if res.get("st") != "done":
        return vs, True
    m = case.meta
    st = res["steps"]
    if m["kind"] == "hist":
        k = 3
        for s in st[1:3]:
            if s.get("r") != "ok":
                vs.append(Violation("setup-rejected", "definitions rejected: %s" % s, case))
                return vs, False
        if m["nh"]:
            if st[k].get("r") != "ok":
                vs.append(Violation("hist:history-failed:%s" % m["group"], "history did not run: %s" % st[k], case))
            k += 2
        probe_run, probe_out, dump = st[k], text(st[k + 1]), st[k + 2]
        fresh_run, fresh_out = st[k + 6], text(st[k + 7])
        # the error stream too (statement traces go there): what the call writes does not depend on earlier calls
        import re as _re

        def errlines(step):
            # trace lines begin with a time stamp
            return [_re.sub(rb"^[0-9]+\.[0-9]+: ", b"", ln) for ln in unhex(step.get("err", "")).split(b"\n")]
        if errlines(st[k + 1]) != errlines(st[k + 7]):
            vs.append(Violation("history-dependence:%s:error-stream" % m["group"], "%s after %s writes %r to the error stream, in a fresh context %r" % (
                m["probe"], m["hist"], unhex(st[k + 1].get("err", ""))[:200], unhex(st[k + 7].get("err", ""))[:200]), case))
        if probe_run.get("r") != fresh_run.get("r") or probe_out != fresh_out:
            vs.append(Violation("history-dependence:%s" % m["group"], "%s after %s gives %s %r, in a fresh context %s %r" % (
                m["probe"], m["hist"], probe_run.get("r"), probe_out, fresh_run.get("r"), fresh_out), case))
        if fresh_run.get("r") != "ok" or fresh_out != m["expect"]:
            vs.append(Violation("model:%s:%s" % (m["group"], m["probe"]), "%s in a fresh context gives %s %r, expected %r" % (m["probe"], fresh_run, fresh_out, m["expect"]), case))
        dv = dump.get("vars", {})
        for name, want in GLOBALS_EXPECT.items():
            if dv.get(name) != want:
                vs.append(Violation("caller-modified:%s" % m["group"], "caller variable %s is %r after the calls, expected %r" % (name, dv.get(name), want), case))
        return vs, True
    if m["kind"] == "retcall":
        run, out = st[3], text(st[4])
        ref_run, ref_out, ref_dump = st[8], text(st[9]), st[10].get("vars", {}).get("R", "")
        want = ref_dump.partition("=")[2]
        if m["wrap"].startswith("print"):
            ref_out = "1\n" + ref_out
        if ref_run.get("r") == "ok" and (run.get("r") != "ok" or run.get("ret") != want or out != ref_out):
            vs.append(Violation("return-of-call:%s" % m["group"], "%s gives %s (returned %r, printed %r); the call assigned to a variable gives %r and prints %r" % (
                m["wrap"] % m["probe"], run.get("r"), run.get("ret"), out, want, ref_out), case))
        return vs, True
    if m["kind"] == "redef":
        k = 3 + m["nh"] + 1
        d2, probe_run, probe_out = st[k], st[k + 1], text(st[k + 2])
        fresh_run, fresh_out = st[k + 7], text(st[k + 8])
        if d2.get("r") != "ok":
            vs.append(Violation("redefinition:rejected", "defining %s after %s (called %s) was rejected: %s" % (m["v2"], m["v1"], m["hist"], d2), case))
        elif probe_run.get("r") != fresh_run.get("r") or probe_out != fresh_out:
            vs.append(Violation("redefinition:%s->%s" % (m["v1"], m["v2"]), "%s with definition %s, after definition %s had been called %s, gives %s %r; in a context that only saw %s: %s %r" % (
                m["probe"], m["v2"], m["v1"], m["hist"], probe_run.get("r"), probe_out, m["v2"], fresh_run.get("r"), fresh_out), case))
        return vs, True
    if m["kind"] == "redef2":
        k = 3 + m["nh"] + 1
        t2, t2_out, after, after_out = st[k], text(st[k + 1]), st[k + 2], text(st[k + 3])
        new_run, new_out = st[k + 7], text(st[k + 8])
        old_run, old_out = st[k + 12], text(st[k + 13])
        where = "%s: definition %s (called %s) then a text with definition %s" % (m["shape"], m["v1"], m["hist"], m["v2"])
        if m["shape"] == "call-first":
            # the call ahead of the FUNCTION statement runs one of the two definitions, the call after it the new one
            ok_outs = {old_out + new_out, new_out + new_out}
            if new_run.get("r") == "ok" and (t2.get("r") != "ok" or t2_out not in ok_outs):
                vs.append(Violation("redefinition:call-first:%s->%s" % (m["v1"], m["v2"]), "%s gives %s %r, expected one of %r" % (where, t2.get("r"), t2_out, sorted(ok_outs)), case))
            want_run, want_out = new_run, new_out
        else:
            if t2.get("r") != "perr":
                vs.append(Violation("harness:redef2", "%s: the text was not rejected: %s" % (where, t2), case))
            want_run, want_out = old_run, old_out
        if after.get("r") != want_run.get("r") or after_out != want_out:
            vs.append(Violation("redefinition:%s:afterwards" % m["shape"], "%s: afterwards %s gives %s %r, expected %s %r" % (
                where, m["probe"], after.get("r"), after_out, want_run.get("r"), want_out), case))
        return vs, True
    if m["kind"] == "alias":
        run, out = st[3], text(st[4])
        if st[2].get("r") != "ok":
            vs.append(Violation("harness:alias", "%s" % st[2], case))
        elif run.get("r") != "ok" or out != m["want"]:
            vs.append(Violation("argument-binding:%s" % m["call"].split("(")[0].split("= ")[1], "%s %s gives %s %r, expected %r (arguments are copied in order, as each one is evaluated)" % (
                m["init"], m["call"], run.get("r"), out, m["want"]), case))
        return vs, True
    if m["kind"] == "iso":
        d, run, out, dump = st[2], st[3], text(st[4]), st[5]
        if m["rejected"]:
            if d.get("r") != "perr":
                vs.append(Violation("isolation:caller-variable-visible", "%s was accepted (%s)" % (m["def"], d), case))
        else:
            if d.get("r") != "ok" or run.get("r") != "ok":
                vs.append(Violation("isolation:local-rejected", "%s -> %s %s" % (m["def"], d, run), case))
        dv = dump.get("vars", {})
        for name, want in GLOBALS_EXPECT.items():
            if dv.get(name) != want:
                vs.append(Violation("caller-modified:iso", "caller variable %s is %r, expected %r" % (name, dv.get(name), want), case))
        return vs, True
    if m["kind"] == "rec":
        run, out = st[-2], text(st[-1])
        if m["total"] <= 255:
            if run.get("r") != "ok" or out != "%d\n" % m["val"]:
                vs.append(Violation("recursion:depth<=255", "%s (%d nested calls) after %s gave %s %r" % (m["call"], m["total"], m["prior"], run, out), case))
        else:
            if run.get("r") != "rerr" or run.get("no") != 31:
                vs.append(Violation("recursion:limit", "%s (%d nested calls) after %s gave %s %r, expected the recursion-limit error" % (
                    m["call"], m["total"], m["prior"], run, out), case))
        return vs, True
    return vs, False


def run(tier):
    t0 = time.time()
    res = explore(PROP + "-" + tier, gen_factory(tier), check, chunk=100, deadline=t0 + (2400 if tier == "thorough" else 420))
    rule = ("for each of %d function groups and each probe call, all histories of <= %d earlier calls over the group's call alphabet (including calls "
            "that fail inside and calls whose argument evaluation fails); oracle: probe result = same call in a fresh context = model value; caller "
            "variables unchanged; caller names rejected in bodies; recursion depths 250..261 and beyond, reached directly and below 1..254 levels of another function, after earlier deep calls at other levels; calls nested in their own argument lists; a function defined again after its earlier definition was called (6 x 6 bodies x 4 call histories); LeakSanitizer after "
            "histories with failing calls. Non-trivial: every case executes at least one call" % (len(GROUPS), 5 if tier == "thorough" else 3))
    return finish(PROP, tier, res, check, rule, t0, assumptions=["hand-written expected values per call", "LeakSanitizer (clang 14)"])
