"""C13 — a source text means the same whatever its line lengths or read fragmentation.

Environment answers explored exhaustively: for each of ~50 short texts containing every multi-character lexeme,
the byte stream is delivered with 0 splits, every single split position, every pair of split positions, and fixed
fragment sizes 1..16, 1022, 1023, 1024, 2048; long-line layouts put every lexeme kind at every alignment across
byte 1023 of a line (built-in StringReader, the CLI's file reader through `bloc`), against the same token sequence
on short lines; LF vs CRLF. Oracle: token stream (code, text), unparse text and program output equal those of the
reference delivery (complete short lines).
"""
import os
import subprocess
import time

from .. import build
from ..core import Case, Violation, explore, finish, generic_safety, op_ctx, op_run, op_out, unhex, hx, Result
from .c01 import lex_spans

PROP = "C13"

TEXTS = [
    'a = 12345 + 67;\nprint a;\n',
    'a = 12.345 * 2;\nprint a;\n',
    'a = 1.5e+10 / 3;\nprint a;\n',
    'a = 314.16E-2;\nprint a;\n',
    'a = .314 + 0.5;\nprint a;\n',
    'a = 0xBEBADA + 0x1f;\nprint a;\n',
    'alpha_1 = 7;\nbeta$2 = alpha_1 * 2;\nprint beta$2;\n',
    'a = 3 == 3;\nprint a;\n',
    'a = 3 != 4;\nprint a;\n',
    'a = 3 <= 4;\nb = 4 >= 3;\nprint a b;\n',
    'a = 2 ** 10;\nprint a;\n',
    'a = 1 << 4;\nb = 256 >> 2;\nprint a b;\n',
    'a = true && false;\nb = true || false;\nprint a b;\n',
    'a = "he said \\"hi\\" ok";\nprint a;\n',
    'a = "tab\\there\\nnl\\\\bs";\nprint a;\n',
    'a = "dou""ble";\nprint a;\n',
    'a = "";\nb = """";\nprint a b;\n',
    'a = 1; /* block comment */ b = 2;\nprint a b;\n',
    'a = 1; /* multi\nline * / comment */ b = 2;\nprint a b;\n',
    'a = 1; // line comment == != **\nb = 2;\nprint a b;\n',
    '# sharp comment line\na = 1;\nprint a;\n',
    'a = 10 / 2; b = 10 /* c */ / 5;\nprint a b;\n',
    'for i in 1 to 3 loop\n  print i;\nend loop;\n',
    'if 1 < 2 then\n  print "y";\nelse\n  print "n";\nend if;\n',
    'begin\n  raise my_error;\nexception\nwhen my_error then print error@1;\nend;\n',
    'function fn(a, b:integer) return integer is\nbegin\n  return a + b;\nend;\nprint fn(1, 2);\n',
    't = tab(3, 0);\nt.put(1, 5).concat(7);\nprint t.at(1) t.count();\n',
    'r = tup(1, "x");\nprint r@1 r@2;\nr.set@1(9);\nprint r@1;\n',
    'a = 1, b = 2, print a b;\n',
    'a = not true or false and null;\nprint a;\n',
    'a = 5 power 2;\nb = "abc" matches "a.c";\nprint a b;\n',
    'a = - 5 + ~ 3;\nprint a;\n',
    'x:integer;\ny:string;\nprint isnull(x) typeof(y);\n',
    's = "one\ntwo";\nprint s s.count();\n',
    's = "a\n\n  b\n";\nt = "x"\n  + "y";\nprint s.count() t;\n',
    'a = 1;\r\nb = 2;\r\nprint a b;\r\n',
    'a = "with\r\ncrlf inside";\r\nprint a;\r\n',
    'print 1 ; print 2 ;; print 3;\n',
    'a = 9223372036854775807;\nb = 0.30000000000000004;\nprint a b;\n',
    'a = (1 + 2) * (3 - 4) % 5;\nprint a;\n',
    'a = 1 & 3 | 4 ^ 1;\nprint a;\n',
    'a = "a" + "b" + "c";\nprint a a.count();\n',
    'print "unterminated;\n',
    'a = 1 +;\n',
    'print /* open comment\n',
    'a = 12abc;\n',
    'a = 1..2;\n',
    'a = "esc at end\\',
    'forall e in tab(2, "zz") loop print e; end loop;\n',
    'while false loop nop; end loop; print "w";\n',
    'trace false; do nop; print "t";\n',
    'a = 3 = = 3;\n',
]


def kind_of(tok):
    c = tok[0]
    if c == '"':
        return "string"
    if c.isdigit() or (c == "." and len(tok) > 1):
        return "number"
    if c.isalpha() or c in "_$":
        return "name"
    if tok.startswith("/*") or tok.startswith("//") or c == "#":
        return "comment"
    return "operator"


def frag_gen(tier):
    def gen():
        n = 0
        for ti, t in enumerate(TEXTS):
            b = t.encode("latin-1")
            L = len(b)
            specs = [("single", [k], 0) for k in range(1, L)]
            step = 1 if tier == "thorough" else (1 if L <= 40 else 2)
            for i in range(1, L, step):
                for j in range(i + 1, L, step):
                    specs.append(("pair", [i, j - i], 0))
            for s in list(range(1, 17)) + [1022, 1023, 1024, 2048]:
                specs.append(("fixed", [], s))
            if "\r" not in t:
                # CRLF line ends through the built-in reader vs LF
                crlf = t.replace("\n", "\r\n").encode("latin-1")
                ops = [op_ctx(0), "tokens 0 %s s" % hx(b), op_ctx(1), "tokens 1 %s s" % hx(crlf),
                       op_ctx(2), "parse 2 0 %s s" % hx(b), "unparse 0", "exec 0", op_out(2),
                       op_ctx(3), "parse 3 1 %s s" % hx(crlf), "unparse 1", "exec 1", op_out(3)]
                # ... and the same two layouts through the reader of the include statement (a line-oriented reader of its own)
                yield Case("f%d" % n, ops + include_ops(crlf.decode("latin-1"), n), {"kind": "frag", "text": ti, "how": "crlf", "offs": [], "inc": True})
                n += 1
                ops_lf = [op_ctx(0), "tokens 0 %s s" % hx(b), op_ctx(1), "tokens 1 %s s" % hx(b),
                          op_ctx(2), "parse 2 0 %s s" % hx(b), "unparse 0", "exec 0", op_out(2),
                          op_ctx(3), "parse 3 1 %s s" % hx(b), "unparse 1", "exec 1", op_out(3)]
                yield Case("f%d" % n, ops_lf + include_ops(t, n), {"kind": "frag", "text": ti, "how": "lf-include", "offs": [], "inc": True})
                n += 1
            if tier == "thorough":
                for i in range(1, L, 3):
                    for j in range(i + 1, L, 3):
                        for k in range(j + 1, L, 3):
                            specs.append(("triple", [i, j - i, k - j], 0))
            for kind, sizes, tail in specs:
                rs = "f:%d:%s" % (tail, ",".join(str(x) for x in sizes))
                # reference: the same reader with 0 splits (one read per line)
                ops = [op_ctx(0), "tokens 0 %s f:0:" % hx(b), op_ctx(1), "tokens 1 %s %s" % (hx(b), rs),
                       op_ctx(2), "parse 2 0 %s f:0:" % hx(b), "unparse 0", "exec 0", op_out(2),
                       op_ctx(3), "parse 3 1 %s %s" % (hx(b), rs), "unparse 1", "exec 1", op_out(3)]
                offs = []
                if sizes:
                    acc = 0
                    for x in sizes:
                        acc += x
                        offs.append(acc)
                else:
                    offs = list(range(tail, L, tail))
                yield Case("f%d" % n, ops, {"kind": "frag", "text": ti, "how": kind, "offs": offs})
                n += 1
    return gen


# long lines: token lists rendered on one long line (lexeme straddling byte 1023) vs one token per line
def long_cases(tier):
    lexemes = [
        ("integer", "1234567890", "int"), ("decimal", "12345.6789", "int"), ("exponent", "1.25e+10", "int"), ("hex", "0xABCDEF12", "int"),
        ("name", "longvariablename", "int"), ("op==", "==", "op"), ("op!=", "!=", "op"), ("op<=", "<=", "op"), ("op>=", ">=", "op"), ("op**", "**", "op"),
        ("op<<", "<<", "op"), ("op>>", ">>", "op"), ("op&&", "&&", "bop"), ("op||", "||", "bop"), ("kw-power", "power", "op"), ("kw-and", "and", "bop"),
        ("string-esc", '"ab\\"cd\\\\ef"', "str"), ("string-dq", '"ab""cd""ef"', "str"), ("string-plain", '"abcdefghij"', "str"), ("comment", "/* a comment */", "cmt"),
        ("builtin", "strlen", "call"), ("member", ".count()", "member"), ("rank", "@1", "rank"),
    ]
    for name, lx, role in lexemes:
        aligns = range(0, len(lx) + 1) if tier == "thorough" else sorted(set([0, 1, len(lx) // 2, len(lx) - 1, len(lx)]))
        # 1023 is the reader's chunk; larger multiples make sure no other limit exists on the way (a line is gathered whole)
        for boundary in ((1023, 64 * 1023) if tier != "thorough" else (1023, 2046, 16 * 1023, 64 * 1023, 65 * 1023, 128 * 1023)):
            for k in aligns:
                # tokens before the lexeme, the lexeme, tokens after
                if role == "int":
                    head, filler, tail = ["longvariablename", "=", "5", ";", "x", "="], ["1", "+"], [lx, ";", "print", "x", ";"]
                elif role == "op":
                    head, filler, tail = ["x", "="], ["1", "+"], ["3", lx, "2", ";", "print", "x", ";"]
                elif role == "bop":
                    head, filler, tail = ["x", "="], ["true", "and"], ["true", lx, "false", ";", "print", "x", ";"]
                elif role == "str":
                    head, filler, tail = ["x", "="], ['"a"', "+"], [lx, ";", "print", "x", ";"]
                elif role == "cmt":
                    head, filler, tail = ["x", "="], ["1", "+"], ["1", lx, "+", "1", ";", "print", "x", ";"]
                elif role == "call":
                    head, filler, tail = ["x", "="], ["1", "+"], [lx, "(", '"abc"', ")", ";", "print", "x", ";"]
                elif role == "member":
                    head, filler, tail = ["s", "=", '"abc"', ";", "x", "="], ["1", "+"], ["s" + lx, ";", "print", "x", ";"]
                elif role == "rank":
                    head, filler, tail = ["r", "=", "tup", "(", "4", ",", "5", ")", ";", "x", "="], ["1", "+"], ["r" + lx, ";", "print", "x", ";"]
                lead = tail[0]
                inner = lead.index(lx) if lx in lead else 0
                toks = list(head)
                line = " ".join(toks)
                # grow with filler until the lexeme would start beyond the target, then pad with spaces
                target = boundary - k - inner          # offset where tail[0] must start
                while boundary < 4000 and len(line) + 1 + len(" ".join(filler)) + 1 <= target - 1:
                    toks += filler
                    line = " ".join(toks)
                if boundary >= 4000:
                    toks += filler        # one filler pair, then blanks up to the boundary
                    line = " ".join(toks)
                pad = target - len(line)
                if pad < 1:
                    continue
                longline = line + " " * pad + " ".join(tail) + "\n"
                shortlines = "\n".join(toks + tail) + "\n"
                yield {"kind": "long", "lex": name, "k": k, "boundary": boundary}, longline, shortlines


def length_cases(tier):
    """a string literal / a run of spaces sized so that the physical line has every length around the reader's chunk size"""
    lens = list(range(1010, 1035)) + list(range(2035, 2055)) + list(range(3060, 3072))
    if tier != "thorough":
        lens = list(range(1016, 1030)) + list(range(2040, 2050)) + [3065, 3066]
    for L in lens:
        for kind in ("string", "spaces", "comment"):
            if kind == "string":
                head, tail = 'x = "', '";'
            elif kind == "spaces":
                head, tail = "x = 1 +", "2;"
            else:
                head, tail = "x = 1; /*", "*/ y = 2;"
            fill = L - len(head) - len(tail)
            if fill < 1:
                continue
            body = ("a" * fill) if kind != "spaces" else (" " * fill)
            first = head + body + tail
            yield {"kind": "long", "lex": "line-length-%s" % kind, "k": L, "boundary": 1023}, first + "\nprint typeof(x);\nprint 7;\n"


def include_ops(text, n):
    """the same text reaching the scanner through the reader of the include statement"""
    d = os.path.join(build.BUILD, "scratch", "c13-inc")
    os.makedirs(d, exist_ok=True)
    path = os.path.join(d, "i-%d-%d.bloc" % (os.getpid(), n % 100000))
    return ["mkfile %s %s" % (hx(path), hx(text)), op_ctx(4), op_run('include "%s";' % path, slot=4), op_out(4), "rmfile %s" % hx(path)]


def long_gen(tier):
    def gen():
        n = 0
        for meta, text in length_cases(tier):
            lf, crlf = text, text.replace("\n", "\r\n")
            ops = [op_ctx(0), "tokens 0 %s s" % hx(lf), op_ctx(1), "tokens 1 %s s" % hx(crlf),
                   op_ctx(2), "parse 2 0 %s s" % hx(lf), "unparse 0", "exec 0", op_out(2),
                   op_ctx(3), "parse 3 1 %s s" % hx(crlf), "unparse 1", "exec 1", op_out(3)] + include_ops(crlf, n)
            m = dict(meta)
            m["crlf"] = True
            m["text"] = crlf
            yield Case("l%d" % n, ops, m)
            n += 1
        for meta, longline, shortlines in long_cases(tier):
            for crlf in (False, True):
                ll = longline.replace("\n", "\r\n") if crlf else longline
                ops = [op_ctx(0), "tokens 0 %s s" % hx(shortlines), op_ctx(1), "tokens 1 %s s" % hx(ll),
                       op_ctx(2), "parse 2 0 %s s" % hx(shortlines), "unparse 0", "exec 0", op_out(2),
                       op_ctx(3), "parse 3 1 %s s" % hx(ll), "unparse 1", "exec 1", op_out(3)] + include_ops(ll, n)
                m = dict(meta)
                m["crlf"] = crlf
                m["text"] = ll
                yield Case("l%d" % n, ops, m)
                n += 1
    return gen


def toks_of(step, drop_nl=False):
    t = [(c, x) for c, x in step.get("toks", [])]
    if drop_nl:
        t = [(c, x) for c, x in t if c != 10]
    return t


# expressions handed to bloc_parse_expression: the same tokens on one line, with a line end (LF, CRLF) after any one token, before the
# first, after every token
EXPR_TOKS = [["1", "+", "2", "*", "3"], ["(", "1", "+", "2", ")", "*", "3"], ['"a"', "+", '"b"'], ["-", "4", "**", "2"], ["strlen", "(", '"abc"', ")", "+", "1"],
             ["1", "<", "2", "and", "not", "false"], ["tup", "(", "1", ",", '"x"', ")", "@1"], ["1", "==", "1.0"], ["/* c */", "7", "/* d\ne */", "%", "4"],
             ['"l1\nl2"', "+", '"z"'], ["x", "+", '"w"'], ["x", ".", "count", "(", ")"]]


def exprlayout_gen(tier):
    def gen():
        n = 0
        for ti, toks in enumerate(EXPR_TOKS):
            one = " ".join(toks) + " ;"
            lays = [("one-line", one), ("leading-LF", "\n" + one), ("all-LF", "\n".join(toks) + "\n;"), ("all-CRLF", "\r\n".join(toks) + "\r\n;\r\n"),
                    ("trailing-LF", " ".join(toks) + "\n;\n"),
                    # the end of the text ends the expression as well as a separator does
                    ("no-terminator", " ".join(toks)), ("LF-terminator", " ".join(toks) + "\n"), ("CRLF-terminator", " ".join(toks) + "\r\n"),
                    ("all-LF-no-terminator", "\n".join(toks) + "\n")]
            for k in range(len(toks)):
                lays.append(("LF-after-%d" % k, " ".join(toks[:k + 1]) + "\n" + " ".join(toks[k + 1:]) + " ;"))
                if tier == "thorough" or k % 2 == 0:
                    lays.append(("CRLF-after-%d" % k, " ".join(toks[:k + 1]) + "\r\n  " + " ".join(toks[k + 1:]) + " ;"))
            for name, text in lays:
                ops = ["k.create 0", "k.pexe 0 0 %s 0" % hx('x = "hello";'), "k.exec 0", "k.freeexe 0",
                       "k.pexpr 0 0 %s" % hx(one), "k.etype 0 0", "k.eval 0 0 0", "k.pexpr 0 1 %s" % hx(text)]
                ops += ["k.etype 0 1", "k.eval 0 1 1", "k.end"]
                yield Case("xl%d" % n, ops, {"kind": "exprlayout", "expr": one, "layout": name, "text": text})
                n += 1
    return gen


def check_exprlayout(case, res, vs):
    m = case.meta
    st = res["steps"]
    if st[4].get("ptr") != 1:
        vs.append(Violation("harness:exprlayout", "the one-line expression %r is refused: %s" % (m["expr"], st[4]), case))
        return vs, True
    ref = (st[5].get("major"), st[5].get("ndim"), st[6].get("val", {}).get("dump"))
    if st[7].get("ptr") != 1:
        got = ("refused", st[7].get("strerror"))
    else:
        got = (st[8].get("major"), st[8].get("ndim"), st[9].get("val", {}).get("dump"))
    if got != ref:
        vs.append(Violation("expression-layout:%s" % m["layout"].split("-after-")[0], "bloc_parse_expression(%r) gives %s, the same tokens on one line (%r) give %s" % (
            m["text"], got, m["expr"], ref), case))
    return vs, True


def check(case, res):
    vs = generic_safety(case, res)
    if res.get("st") != "done":
        return vs, True
    m = case.meta
    st = res["steps"]
    if m["kind"] == "exprlayout":
        return check_exprlayout(case, res, vs)
    ref_t, var_t = st[1], st[3]
    ref_p, ref_u, ref_x, ref_o = st[5], st[6], st[7], st[8]
    var_p, var_u, var_x, var_o = st[10], st[11], st[12], st[13]
    long_ = m["kind"] == "long"
    if long_:
        cls = "long-line:%s" % m["lex"]
        where = "lexeme %s at alignment %d across byte %d%s" % (m["lex"], m["k"], m["boundary"], " (CRLF)" if m["crlf"] else "")
    else:
        text = TEXTS[m["text"]]
        spans = lex_spans(text)
        inside = None
        for o in m["offs"]:
            for (i, j) in spans:
                if i < o < j:
                    inside = kind_of(text[i:j])
                    break
            if inside:
                break
        # a split between two comment delimiters characters or inside CRLF is also "inside a lexeme"
        cls = ("lexeme-split:%s" % inside) if inside else "boundary:between-lexemes"
        where = "text %d %r split at %s (%s)" % (m["text"], text[:60], m["offs"][:6], m["how"])
    a, b = toks_of(ref_t, long_), toks_of(var_t, long_)
    if a != b:
        # first difference
        k = 0
        while k < min(len(a), len(b)) and a[k] == b[k]:
            k += 1
        da = [(c, unhex(x).decode("latin-1")) for c, x in a[k:k + 3]]
        db = [(c, unhex(x).decode("latin-1")) for c, x in b[k:k + 3]]
        vs.append(Violation("tokens:%s" % cls, "token streams differ at token %d: reference %s, delivered %s; %s" % (k, da, db, where), case))
        return vs, True
    if (ref_p.get("r"), ref_p.get("msg")) != (var_p.get("r"), var_p.get("msg")):
        vs.append(Violation("parse:%s" % cls, "reference parse %s, delivered parse %s; %s" % (ref_p, var_p, where), case))
        return vs, True
    if ref_p.get("r") == "ok":
        if ref_u.get("text") != var_u.get("text"):
            vs.append(Violation("program:%s" % cls, "compiled programs differ: %r vs %r; %s" % (unhex(ref_u.get("text", ""))[:200], unhex(var_u.get("text", ""))[:200], where), case))
        elif (long_ or m.get("inc")) and len(st) >= 19 and (ref_x.get("r"), ref_o.get("out")) != (st[16].get("r"), st[17].get("out")):
            vs.append(Violation("include:%s" % cls, "the text read through an include statement gives %s %r, directly %s %r; %s" % (
                st[16], unhex(st[17].get("out", ""))[:120], ref_x.get("r"), unhex(ref_o.get("out", ""))[:120], where), case))
        elif (ref_x.get("r"), ref_o.get("out")) != (var_x.get("r"), var_o.get("out")):
            vs.append(Violation("output:%s" % cls, "outputs differ: %s %r vs %s %r; %s" % (ref_x.get("r"), unhex(ref_o.get("out", "")), var_x.get("r"), unhex(var_o.get("out", "")), where), case))
    return vs, True


def cli_pass(tier):
    """The CLI's own file reader: long-line layouts through `bloc file` and `bloc -` vs the short-line layout."""
    build.build_tree("asan")
    exe = os.path.join(build.tree_dir("asan"), "apps", "bloc")
    env = build.run_env("asan")
    env["ASAN_OPTIONS"] = "detect_leaks=0:abort_on_error=1"
    res = Result()
    sdir = os.path.join(build.BUILD, "scratch", "cli-c13")
    os.makedirs(sdir, exist_ok=True)
    n = 0
    cli_cases = list(long_cases("quick")) + [(m, t, t) for m, t in length_cases(tier)]
    for meta, longline, shortlines in cli_cases:
        outs = []
        for lay, text in (("short", shortlines), ("long", longline), ("long-crlf", longline.replace("\n", "\r\n"))):
            path = os.path.join(sdir, "p.bloc")
            with open(path, "wb") as f:
                f.write(text.encode("latin-1"))
            for mode in ("file", "stdin"):
                try:
                    if mode == "file":
                        p = subprocess.run([exe, path], stdin=subprocess.DEVNULL, stdout=subprocess.PIPE, stderr=subprocess.PIPE, env=env, timeout=20)
                    else:
                        p = subprocess.run([exe, "-"], input=text.encode("latin-1"), stdout=subprocess.PIPE, stderr=subprocess.PIPE, env=env, timeout=20)
                    outs.append((lay, mode, p.returncode, p.stdout))
                except subprocess.TimeoutExpired:
                    outs.append((lay, mode, "timeout", b""))
                res.evaluations += 1
                res.transitions += 1
        res.nontrivial += 1
        ref = outs[0]
        for o in outs[1:]:
            res.digests.add(repr((meta["lex"], meta["k"], o[0], o[1], o[2] == ref[2] and o[3] == ref[3])).encode())
            if (o[2], o[3]) != (ref[2], ref[3]):
                key = "cli:long-line:%s" % meta["lex"]
                e = res.viols.setdefault(key, {"count": 0, "first": None})
                e["count"] += 1
                if e["first"] is None:
                    e["first"] = (Violation(key, "bloc %s with layout %s gives exit %s output %r, short-line layout gives exit %s output %r (lexeme %s alignment %d)" % (
                        o[1], o[0], o[2], o[3][:100], ref[2], ref[3][:100], meta["lex"], meta["k"]), None, {"long": longline, "short": shortlines}), {})
        n += 1
    res.parts.append({"part": "cli-long-lines", "cases": res.evaluations})
    # byte content: no byte sequence inside a string literal is reinterpreted because of where the reader's chunks start (first bytes
    # of the file, of a continuation line of the literal, of the second / third chunk of a long line)
    import itertools
    alpha3 = (0xEF, 0xBB, 0xBF) if tier != "thorough" else (0xEF, 0xBB, 0xBF, 0xFE, 0xFF, 0x1A, 0x7F, 0x80)
    seqs = [bytes(t) for l in (1, 2, 3) for t in itertools.product(alpha3, repeat=l)]
    if tier != "thorough":
        seqs += [bytes([b]) for b in (0xFE, 0xFF, 0x1A, 0x7F, 0x80)] + [b"\xFF\xFE", b"\xFE\xFF"]
    ncont = 0
    for seq in seqs:
        lays = []
        for off in (3, 1020, 1021, 1022, 1023, 1024, 2046, 3069):
            pre = b"a" * (off - 5)
            lays.append(("line-offset-%d" % off, b'x = "' + pre + seq + b'z";\nprint strlen(x);\nprint x;\n', pre + seq + b"z"))
        lays.append(("continuation-line", b'x = "ab\n' + seq + b'z";\nprint strlen(x);\nprint x;\n', b"ab\n" + seq + b"z"))
        lays.append(("second-continuation-line", b'x = "ab\n\n' + seq + b'\n' + seq + b'z";\nprint strlen(x);\nprint x;\n', b"ab\n\n" + seq + b"\n" + seq + b"z"))
        lays.append(("statement-start", b'x = "q";\n/*' + seq + b'*/ x = "' + seq + b'";\nprint strlen(x);\nprint x;\n', seq))
        for lay, text, content in lays:
            want = (0, b"%d\n" % len(content) + content + b"\n")
            path = os.path.join(sdir, "b.bloc")
            with open(path, "wb") as f:
                f.write(text)
            for mode in ("file", "stdin"):
                try:
                    if mode == "file":
                        p = subprocess.run([exe, path], stdin=subprocess.DEVNULL, stdout=subprocess.PIPE, stderr=subprocess.PIPE, env=env, timeout=20)
                    else:
                        p = subprocess.run([exe, "-"], input=text, stdout=subprocess.PIPE, stderr=subprocess.PIPE, env=env, timeout=20)
                    got = (p.returncode, p.stdout)
                except subprocess.TimeoutExpired:
                    got = ("timeout", b"")
                res.evaluations += 1
                res.transitions += 1
                res.nontrivial += 1
                ncont += 1
                res.digests.add(repr(("content", lay, mode, seq, got == want)).encode())
                if got != want:
                    key = "cli:content:%s:%s" % (lay, mode)
                    e = res.viols.setdefault(key, {"count": 0, "first": None})
                    e["count"] += 1
                    if e["first"] is None:
                        e["first"] = (Violation(key, "bloc %s: a string literal holding bytes %s at %s gives exit %s output %r, expected %r" % (
                            mode, seq.hex(), lay, got[0], got[1][-60:], want[1][-60:]), None, {"text_hex": text.hex()}), {})
    res.parts.append({"part": "cli-byte-content", "cases": ncont})
    # the reader of the interactive mode: the line-length sweep fed to `bloc -i`, against the library running the same statements
    from . import c19
    col = c19.Collector()
    iexe, ienv = c19.exe_env()
    scen = []
    for meta, text in length_cases(tier):
        scen.append(("%s-%d" % (meta["lex"], meta["k"]), text.rstrip("\n").split("\n")))
        scen.append(("%s-%d-crlf" % (meta["lex"], meta["k"]), [ln + "\r" for ln in text.rstrip("\n").split("\n")]))
    c19.interactive_pass(col, iexe, ienv, scen, tag="interactive-long-line")
    # CRLF against LF through the interactive reader, with lexemes that span physical lines
    for name, lf in (("multi-line-string", 's = "a\nb";\nprint strlen(s);\n'), ("block-comment", 'x = 1; /* c\nd */ print x;\n'),
                     ("statement-over-lines", "x = 1 +\n2;\nprint x;\n")):
        outs = []
        for text in (lf, lf.replace("\n", "\r\n")):
            rc, out, err, _ = c19.run_cli((iexe, ienv, ["-i"], text.encode(), None))
            outs.append((rc, [l for l in c19.strip_interactive(out) if not l.startswith("Error")]))
            col.count(("interactive-crlf", name, rc))
        if outs[0] != outs[1]:
            col.viol("interactive:crlf:%s" % name, "bloc -i fed %r prints %r with LF line ends and %r with CRLF line ends" % (lf, outs[0], outs[1]), {"text": lf})
    res.merge(col.res)
    res.parts.append({"part": "interactive-long-lines", "cases": len(scen)})
    return res


def run(tier):
    t0 = time.time()
    deadline = t0 + (3000 if tier == "thorough" else 420)
    total = Result()
    total.merge(explore("%s-%s-fragments" % (PROP, tier), frag_gen(tier), check, chunk=200, deadline=deadline))
    total.merge(explore("%s-%s-longlines" % (PROP, tier), long_gen(tier), check, chunk=50, deadline=deadline))
    total.merge(explore("%s-%s-expression-layouts" % (PROP, tier), exprlayout_gen(tier), check, chunk=50, deadline=deadline))
    total.merge(cli_pass(tier))
    rule = ("for %d texts containing every multi-character lexeme: 0 splits (reference), every single split position, every pair of split positions%s, fixed "
            "fragment sizes 1..16, 1022, 1023, 1024, 2048 through a fragmenting StreamReader; 23 lexeme kinds at %s alignments across byte 1023%s of a long "
            "line through StringReader and through the bloc command's file/stdin reader, LF and CRLF, against one token per line. Non-trivial: the "
            "comparison of token stream / program / output was made" % (len(TEXTS), ", every third triple" if tier == "thorough" else "",
                                                                     "all" if tier == "thorough" else "5", " and 2046" if tier == "thorough" else ""))
    return finish(PROP, tier, total, check, rule, t0, assumptions=["reference delivery: complete short lines through StringReader",
                                                                "// and # comments are line-anchored and are not joined onto long lines"])
