"""C17 — every module object is destroyed exactly once, after its last reference is gone.

A verification-only module (harness/vmod.cpp, also built as vmod2) gives every object its own heap block, an id
and an event log (create / destroy / method + argument dump). Breadth-first search over histories of statements
that create, copy, store, overwrite, pass, return and drop object references (variables, tables, tuples,
temporaries, function arguments and results, loops, error exits, forall) and host events (purge working memory,
clone, free clone), each history in a process of its own. In every state, against a reference-count model:
no object with a live holder has been destroyed; every method runs on a live object of the defining module with
exactly the arguments supplied; copies of references never create objects; after all contexts are released every
object was destroyed exactly once. A vmod2 object is never accepted where vmod was compiled.
"""
import copy
import itertools
import os
import time

from .. import build
from ..core import Case, Violation, explore, finish, generic_safety, op_ctx, op_run, op_dump, op_out, unhex, Result

PROP = "C17"

PRELUDE = ('import vmod; import vmod2;\n'
           'function fpass(o:vmod) return integer is begin return o.get(); end;\n'
           'function fret(o:vmod) return vmod is begin return o; end;\n'
           'function fnew(v) return vmod is begin return vmod(v); end;\n'
           'function fkeep(o:vmod) return integer is begin k = o; return k.id(); end;\n'
           'function fonce(s) return vmod is begin if s.count() > 1 then raise efail; end if; return vmod(20); end;\n'
           'function ffail(o:vmod) return integer is begin loc = vmod(50); lt = tab(1, o); raise efail; return 1; end;\n'
           'a:vmod; b:vmod; t = tab(); u = tup(); zz = 0; x = 0; e:vmod; sq = "";')


class S:
    """model state: who holds which object (ids are per module 'vmod')"""
    def __init__(self):
        self.a = None
        self.b = None
        self.t = None          # list of ids or None
        self.u = None          # id held by the tuple or None (tuple absent)
        self.next = 1          # next vmod id
        self.clone = None      # dict(a,b,t,u) or None
        self.ret = None        # object held by the returned-value holder of the context (the host never collects it)
        self.kept = None       # object a local of fkeep's cached run-time context still refers to
        self.created = []
        self.maybe_temp = set()  # ids that are unreferenced but may still sit in the temporary pool

    def holders(self):
        h = set()
        if self.ret is not None:
            h.add(self.ret)
        for src in (self, ) + ((self.clone,) if self.clone else ()):
            for v in (src.a, src.b, src.u):
                if v is not None:
                    h.add(v)
            if src.t:
                h.update(x for x in src.t if x is not None)
        return h

    def new(self):
        i = self.next
        self.next += 1
        self.created.append(i)
        return i

    def key(self):
        ren = {}

        def r(v):
            if v is None:
                return None
            if v not in ren:
                ren[v] = len(ren) + 1
            return ren[v]
        k = [r(self.a), r(self.b), None if self.t is None else [r(x) for x in self.t], r(self.u), r(self.ret), r(self.kept)]
        if self.clone:
            c = self.clone
            k.append([r(c.a), r(c.b), None if c.t is None else [r(x) for x in c.t], r(c.u)])
        return repr(k)


class CloneState:
    def __init__(self, s):
        self.a, self.b, self.u = s.a, s.b, s.u
        self.t = None if s.t is None else list(s.t)


# statement alphabet: name -> (text, model function returning False when not enabled, expected method events or None)
def _s_new(s):
    s.a = s.new()


def _s_copy(s):
    s.b = s.a


def _s_drop_a(s):
    s.a = None


def _s_a_from_b(s):
    s.a = s.b


def _s_tab(s):
    if s.a is None:
        return False
    s.t = [s.a, s.a]


def _s_put(s):
    if not s.t or s.b is None:
        return False
    s.t[0] = s.b


def _s_del(s):
    if not s.t:
        return False
    s.t.pop(0)


def _s_concat(s):
    if s.t is None or s.a is None:
        return False
    s.t.append(s.a)


def _s_tup(s):
    if s.a is None:
        return False
    s.u = s.a


def _s_setu(s):
    if s.u is None or s.b is None:
        return False
    s.u = s.b


def _s_pass(s):
    if s.a is None:
        return False


def _s_ret(s):
    if s.a is None:
        return False
    s.b = s.a


def _s_temp(s):
    s.new()


def _s_self(s):
    if s.a is None:
        return False
    s.b = s.a


def _s_other(s):
    if s.a is None or s.b is None:
        return False
    s.a = s.b


def _s_copyctor(s):
    if s.a is None:
        return False
    s.b = s.new()


def _s_out(s):
    if s.a is None:
        return False


def _s_loop(s):
    s.new()
    s.b = s.new()


def _s_block_raise(s):
    s.b = s.new()


def _s_failing_arg(s):
    pass


def _s_forall(s):
    if not s.t:
        return False


def _s_drop_tu(s):
    s.t = None
    s.u = None


def _s_make(s):
    if s.a is None:
        return False
    s.b = s.new()


def _s_fnew(s):
    s.a = s.new()


def _s_keep(s):
    if s.a is None:
        return False
    s.kept = s.a


def _s_redefine_keeper(s):
    # the function whose cached context holds an object is defined again (same name, same parameters) by a later text: the contexts
    # cached for the old definition go, and what they held with them
    if s.kept is None:
        return False
    s.kept = None


def _s_add(s):
    if s.a is None:
        return False


def _s_tabtemp(s):
    # the element expression is evaluated for every element: two constructor calls
    i = s.new()
    j = s.new()
    s.t = [i, j]


def _s_wrongmod(s):
    pass


def _s_refused_temp(s):
    s.new()
    s.new()


def _s_refused_var(s):
    if not s.t:
        return False


def _s_return_var(s):
    if s.a is None:
        return False
    s.ret = s.a


def _s_return_temp(s):
    s.ret = s.new()


def _s_return_int(s):
    s.ret = None


def _s_arg_drops_receiver(s):
    # the receiver is the first element of t; evaluating the argument removes that element from the table
    if not s.t:
        return False
    s.t.pop(0)


def _s_tab_failing_item(s):
    # the item expression is evaluated per element: the first evaluation makes an object, the second one raises
    s.new()


def _s_renew_self(s):
    # the method replaces the object held by its own receiver variable; it returns itself: b takes over the old object
    if s.a is None:
        return False
    old = s.a
    s.a = s.new()
    s.b = old


def _s_renew_drop(s):
    # as above, the returned reference is only a temporary: the old object loses its last reference when the statement ends
    if s.a is None:
        return False
    s.a = s.new()


def _s_renew_other(s):
    if s.a is None:
        return False
    s.b = s.new()


def _s_failing_callee(s):
    # the callee holds its argument, a table with it and an object of its own when it raises
    if s.a is None:
        return False
    s.new()


def _s_temp_concat(s):
    # an in-place member on a table built on the fly stores (a reference to) the object of a variable: the variable keeps it
    if s.a is None:
        return False
    s.t = [s.a, s.a]


def _s_temp_put(s):
    if s.a is None or s.b is None:
        return False
    s.t = [s.b, s.a]


def _s_temp_tuple(s):
    if s.a is None or s.b is None:
        return False
    s.u = s.b


def _s_forall_element(s):
    # the iterated table is an element of a variable (neither the variable itself nor a temporary)
    if not s.t:
        return False


def _s_temp_make(s):
    # a method that returns another object of its module, called on a temporary receiver: the variable gets the new object
    s.new()
    s.b = s.new()


def _s_forall_temp(s):
    # the loop keeps a temporary table of its own: its objects go when the loop is done
    s.new()
    s.new()


def _s_failing_body(s):
    if not s.t:
        return False
    s.new()


STMTS = {
    "new": ("a = vmod(1);", _s_new),
    "copy": ("b = a;", _s_copy),
    "drop-a": ("a = null;", _s_drop_a),
    "a=b": ("a = b;", _s_a_from_b),
    "tab": ("t = tab(2, a);", _s_tab),
    "put": ("t.put(0, b);", _s_put),
    "delete": ("t.delete(0);", _s_del),
    "concat": ("t.concat(a);", _s_concat),
    "tup": ("u = tup(1, a);", _s_tup),
    "set@": ("u.set@2(b);", _s_setu),
    "pass": ("zz = fpass(a);", _s_pass),
    "return": ("b = fret(a);", _s_ret),
    "temporary": ("zz = vmod(3).get();", _s_temp),
    "self-chain": ("b = a.self().self();", _s_self),
    "other": ("a = a.other(b);", _s_other),
    "copy-ctor": ("b = vmod(a);", _s_copyctor),
    "inout": ("zz = 0; if a.out(x) then zz = x; end if;", _s_out),
    "loop": ("for i in 1 to 2 loop b = vmod(i); end loop;", _s_loop),
    "block-raise": ("begin b = vmod(4); raise eb; exception when eb then zz = 0; end;", _s_block_raise),
    "failing-arg": ('begin zz = fpass(vmod(1 / zz * 0 + 1 / (zz - zz))); exception when others then zz = 0; end;', _s_failing_arg),
    "forall": ("forall e in t loop zz = e.get(); end loop;", _s_forall),
    "drop-tu": ("t = null; u = null;", _s_drop_tu),
    "make": ("b = a.make();", _s_make),
    "fnew": ("a = fnew(7);", _s_fnew),
    "callee-keeps": ("zz = fkeep(a);", _s_keep),
    "redefine-keeper": ("function fkeep(o:vmod) return integer is begin k = o; return k.id(); end;", _s_redefine_keeper),
    "add": ('zz = a.add(5, "str", 2.5, true, raw("xy"));', _s_add),
    "tab-of-temp": ("t = tab(2, vmod(8));", _s_tabtemp),
    # loops that are refused when they start (a protected iterator) or die in their body with an error no handler takes
    "forall-refused-temp": ("forall $o in tab(1, vmod(9)).concat(vmod(10)) loop zz = 0; end loop;", _s_refused_temp),
    "forall-refused-var": ("forall $o in t loop zz = 0; end loop;", _s_refused_var),
    "tab-failing-item": ('sq = ""; begin t2 = tab(3, fonce(sq.concat("x"))); exception when others then zz = 0; end;', _s_tab_failing_item),
    # the program returns an object; the host only resets the stop condition and runs the next text (the holder keeps the
    # object until another value is returned or the context is freed)
    "return-var": ("return a;", _s_return_var),
    "return-temp": ("return vmod(31);", _s_return_temp),
    "return-int": ("return 5;", _s_return_int),
    # the argument of a method removes the receiver from the table that held it: the object lives until its method has returned
    "arg-drops-receiver": ("zz = t.at(0).hold(t.delete(0).count());", _s_arg_drops_receiver),
    # a method that stores a new object into a variable handed over as INOUT argument - also its own receiver
    "renew-self": ("b = a.renew(a, 4);", _s_renew_self),
    "renew-drop": ("zz = a.renew(a, 4).id();", _s_renew_drop),
    "renew-other": ("zz = a.renew(b, 5).get();", _s_renew_other),
    "failing-callee": ("begin zz = ffail(a); exception when others then zz = 0; end;", _s_failing_callee),
    "failing-callee-unhandled": ("zz = ffail(a);", _s_failing_callee),
    "temp-table-concat": ("t = tab(1, a).concat(a);", _s_temp_concat),
    "temp-table-put": ("t = tab(2, a).put(0, b);", _s_temp_put),
    "temp-tuple-set": ("u = tup(1, a).set@2(b);", _s_temp_tuple),
    "forall-element": ("tt2 = tab(2, t); forall e in tt2.at(1) loop zz = e.get(); end loop; forall e in tt2.at(0) desc loop zz = e.id(); end loop; tt2 = null;", _s_forall_element),
    "temp-make": ("b = vmod(7).make();", _s_temp_make),
    "temp-make-chain": ("b = vmod(7).self().make();", _s_temp_make),
    "forall-temp": ("forall e in tab(2, vmod(9)) loop zz = e.get(); end loop;", _s_forall_temp),
    "forall-temp-break": ("forall e in tab(2, vmod(9)) desc loop zz = e.get(); break; end loop;", _s_forall_temp),
    "forall-failing-body": ("forall e in t loop zz = vmod(11).get(); raise efail; end loop;", _s_failing_body),
}
FAILING = {"forall-refused-temp", "forall-refused-var", "forall-failing-body", "failing-callee-unhandled"}
HOST = ["purgewm", "clone", "free-clone"]


def apply(s, name):
    """-> False when not enabled"""
    if name in STMTS:
        s2 = copy.deepcopy(s)
        if STMTS[name][1](s2) is False:
            return False
        s.__dict__.update(s2.__dict__)
        return True
    if name == "purgewm":
        return True
    if name == "clone":
        if s.clone is not None:
            return False
        s.clone = CloneState(s)
        return True
    if name == "free-clone":
        if s.clone is None:
            return False
        s.clone = None
        return True
    return False


def ops_of(name):
    if name in STMTS:
        return [op_run(STMTS[name][0]), "vlog"]
    if name == "purgewm":
        return ["purgewm 0", "vlog"]
    if name == "clone":
        return ["clone 0 1", "vlog"]
    if name == "free-clone":
        return ["free 1", "vlog"]
    raise ValueError(name)


def level_gen(frontier):
    def gen():
        n = 0
        for hist in frontier:
            base = S()
            ok = True
            for h in hist:
                if not apply(base, h):
                    ok = False
                    break
            if not ok:
                continue
            for name in list(STMTS) + HOST:
                s = copy.deepcopy(base)
                if not apply(s, name):
                    continue
                ops = ["isolate", "nodrop 1", op_ctx(0, True), op_run(PRELUDE), "vlog"]
                for h in hist + [name]:
                    ops += ops_of(h)
                ops += [op_dump(0, "A,B,T,U")]
                # release everything: clone, original, then the modules; every object must be destroyed once
                ops += ["free 1", "free 0", "vlog"]
                yield Case("h%d" % n, ops, {"kind": "hist", "hist": hist + [name], "key": s.key()})
                n += 1
    return gen


def parse_log(text):
    ev = []
    for line in text.splitlines():
        p = line.split(" ")
        if len(p) >= 2:
            ev.append(p)
    return ev


def check(case, res):
    vs = generic_safety(case, res)
    if res.get("st") != "done":
        return vs, True
    m = case.meta
    if m["kind"] == "wrongmod":
        return check_wrongmod(case, res, vs)
    if m["kind"] == "many":
        return check_many(case, res, vs)
    st = res["steps"]
    hist = m["hist"]

    def bad(key, msg):
        vs.append(Violation(key, "%s (history %s)" % (msg, hist), case))
    if st[3].get("r") != "ok":
        bad("setup", "prelude failed: %s" % st[3])
        return vs, False
    # walk the steps alongside the model
    s = S()
    destroyed = {}
    created = []
    k = 5
    pre = parse_log(st[4].get("log", ""))
    for e in pre:
        if e[0] == "C" and e[1] == "vmod":
            created.append(int(e[2]))
        if e[0] == "D" and e[1] == "vmod":
            destroyed[int(e[2])] = destroyed.get(int(e[2]), 0) + 1

    def process(events, after_release=False):
        for e in events:
            if e[0] == "X":
                bad("bad-module-event:%s" % (e[2] if len(e) > 2 else "?"), "module reported %s" % " ".join(e))
            if e[1] != "vmod":
                continue
            if e[0] == "C":
                created.append(int(e[2]))
            elif e[0] == "D":
                i = int(e[2])
                destroyed[i] = destroyed.get(i, 0) + 1
                if destroyed[i] > 1:
                    bad("destroyed-twice", "object %d destroyed %d times" % (i, destroyed[i]))
                if not after_release and i in s.holders():
                    bad("destroyed-while-referenced", "object %d destroyed while %s still refer to it" % (i, who(s, i)))
            elif e[0] == "M":
                i = int(e[2])
                if destroyed.get(i):
                    bad("method-on-destroyed-object", "method %s ran on destroyed object %d" % (e[3], i))
                if e[3] == "add" and (len(e) < 5 or e[4] != "i5,s737472,d0x1.4p+1,b1,x7879"):
                    bad("method-arguments", "add received %r, the script supplied (5, \"str\", 2.5, true, raw(\"xy\"))" % (e[4] if len(e) > 4 else ""))
    for name in hist:
        apply(s, name)
        nops = len(ops_of(name))
        step, logstep = st[k], st[k + nops - 1]
        k += nops
        if name in FAILING:
            if step.get("r") != "rerr":
                bad("statement-outcome:%s" % name, "%s gave %s, expected a runtime error" % (name, step))
        elif step.get("r") not in ("ok",):
            bad("statement-failed:%s" % name, "%s gave %s" % (name, step))
        process(parse_log(logstep.get("log", "")))
    dump = st[k].get("vars", {})
    k += 1
    # the dump must show the ids the model predicts

    def shown(v):
        return v

    def want_var(i):
        return "N" if i is None else "o#vmod:%d" % i
    got_a, got_b = dump.get("A", ""), dump.get("B", "")
    if s.a is not None and ("o#vmod:%d" % s.a) not in got_a or s.a is None and "o#vmod" in got_a:
        bad("variable-holds-wrong-object:a", "a is %r, model says object %s" % (got_a, s.a))
    if s.b is not None and ("o#vmod:%d" % s.b) not in got_b or s.b is None and "o#vmod" in got_b:
        bad("variable-holds-wrong-object:b", "b is %r, model says object %s" % (got_b, s.b))
    if s.t is not None:
        ids = [int(x.split(":")[1].rstrip("]),")) for x in dump.get("T", "").split("o#vmod")[1:]] if "o#vmod" in dump.get("T", "") else []
        if ids != s.t:
            bad("table-holds-wrong-objects", "t holds %s, model says %s" % (ids, s.t))
    # release: free 1, free 0, vlog
    process(parse_log(st[k + 2].get("log", "")), after_release=True)
    if sorted(created) != sorted(s.created):
        bad("objects-created", "objects created %s, model says %s (a copy of a reference must not create an object)" % (sorted(created), sorted(s.created)))
    for i in created:
        if destroyed.get(i, 0) == 0:
            bad("never-destroyed", "object %d was never destroyed although every context was released" % i)
    return vs, True


def who(s, i):
    names = []
    for src, tag in ((s, ""), (s.clone, "clone.")):
        if src is None:
            continue
        if src.a == i:
            names.append(tag + "a")
        if src.b == i:
            names.append(tag + "b")
        if src.u == i:
            names.append(tag + "u")
        if src.t and i in src.t:
            names.append(tag + "t")
    return names


def collect(case, res):
    m = case.meta
    if m["kind"] != "hist" or res.get("st") != "done":
        return []
    return [(m["key"], m["hist"])]


WRONG = [
    ("a = vmod(1); a = vmod2(2); zz = a.get(); print a.mod();", "reassign-other-module"),
    ("function fw(o:vmod) return integer is begin return o.get(); end; w = vmod2(3); zz = fw(w);", "typed-parameter"),
    ("function fo(o) return string is begin return o.mod(); end; w = vmod2(3); print fo(w);", "opaque-parameter"),
    ("a = vmod(1); t = tab(1, a); w = vmod2(2); t.put(0, w);", "table-put"),
    ("a = vmod(1); t = tab(1, a); w = vmod2(2); t.concat(w);", "table-concat"),
    ("a = vmod(1); u = tup(1, a); w = vmod2(2); u.set@2(w);", "tuple-set"),
    ("a = vmod(1); w = vmod2(2); b = a.other(w); print b.mod();", "object-argument"),
    ("w = vmod2(2); a = vmod(w);", "copy-ctor-of-other-module"),
    ("function fi(o) return undefined is begin return o; end; a = vmod(1); a = fi(vmod2(5)); print a.mod() a.get();", "opaque-result"),
    ("a:vmod; w = vmod2(4); a = w; print a.mod();", "typed-declaration"),
]


# how an object of the other module can reach code compiled for vmod x what that code does with it
CARRIERS = [
    ("declared-result", "function fd() return vmod is begin return vmod2(5); end;", "fd()"),
    ("conditional-result", "function fc(k) return vmod is begin if k then return vmod(1); end if; return vmod2(2); end;", "fc(false)"),
    ("recursive-result", "function fr(n) return vmod is begin if n > 0 then return fr(n - 1); end if; return vmod2(1); end;", "fr(2)"),
    ("undefined-result", "function fu() return undefined is begin return vmod2(5); end;", "fu()"),
    ("variable-from-result", "function fd() return vmod is begin return vmod2(5); end; v = fd();", "v"),
    ("typed-variable-from-result", "a:vmod; function fd() return vmod is begin return vmod2(5); end; a = fd();", "a"),
    ("table-of-result", "function fd() return vmod is begin return vmod2(5); end; t = tab(1, fd());", "t.at(0)"),
    ("tuple-of-result", "function fd() return vmod is begin return vmod2(5); end; u = tup(fd(), 1);", "u@1"),
    ("table-result", "function ft() return table is begin return tab(1, vmod2(5)); end; tt = tab(1, vmod(1)); tt = ft();", "tt.at(0)"),
    ("result-in-parentheses", "function fd() return vmod is begin return vmod2(5); end;", "(fd())"),
    ("reverse-declared-result", "function fd2() return vmod2 is begin return vmod(5); end;", "fd2()"),
]
USES = ['t = tab(1, vmod(1)); t.put(0, %s);', 't = tab(1, vmod(1)); t.concat(%s);', 't = tab(1, vmod(1)); t.insert(0, %s);',
        'u = tup(1, vmod(1)); u.set@2(%s);', 't = tab(1, tup(1, vmod(1))); t.at(0).set@2(%s);', "zz = %s.get();", "print %s.mod();", "zz = %s.self().get();", "zz = %s.id();", "zz = fpassw(%s);", "b = vmod(%s);", "w = vmod(1); b = w.other(%s);",
        "forall q in tab(1, %s) loop zz = q.get(); end loop;", 'zz = %s.add(5, "str", 2.5, true, raw("xy"));', "b = %s.make();"]
for cname, setup, expr in CARRIERS:
    for use in USES:
        WRONG.append(("function fpassw(o:vmod) return integer is begin return o.get(); end; " + setup + " " + (use % expr), cname + ":" + use.split("%s")[1].strip(" ;()") or "use"))


# the same node evaluated more than once: first with an object of the module it was compiled for, then with one of the other module
for use in USES:
    utag = use.split("%s")[1].strip(" ;()") or "use"
    WRONG.append(("function fpassw(o:vmod) return integer is begin return o.get(); end; function fre(x) return integer is begin "
                  + (use % "x") + " return 0; end; begin zz = fre(vmod(1)); zz = fre(vmod(3)); zz = fre(vmod2(2)); exception when others then nop; end; "
                  "begin zz = fre(vmod2(4)); exception when others then nop; end; zz = fre(vmod(5));", "again-parameter:" + utag))
    WRONG.append(("function fpassw(o:vmod) return integer is begin return o.get(); end; function fu2(k) return undefined is begin if k != 2 then return vmod(k); end if; "
                  "return vmod2(k); end; for k in 1 to 3 loop begin " + (use % "fu2(k)") + " exception when others then nop; end; end loop;", "again-loop:" + utag))


# one statement with many object temporaries (the temporary pool grows and is reused by the statements that follow): every size
# around the powers of two, several shapes
MANY_N = [1, 2, 3, 5, 8, 15, 16, 17, 31, 32, 33, 34, 48, 63, 64, 65, 100, 127, 128, 129, 200, 257, 513]
MANY_SHAPES = {
    "sum-of-gets": lambda n: "zz = " + " + ".join("vmod(%d).get()" % (100 + k) for k in range(n)) + ";",
    "concat-chain": lambda n: "t = tab(0, vmod(99))" + "".join(".concat(vmod(%d))" % (100 + k) for k in range(n)) + "; t = null;",
    "calls": lambda n: "zz = " + " + ".join("fpass(fret(vmod(%d)))" % (100 + k) for k in range(n)) + ";",
    "self-chain": lambda n: "b = vmod(100)" + ".self()" * n + "; zz = " + " + ".join("vmod(%d).self().get()" % (200 + k) for k in range(min(n, 40))) + "; b = null;",
    "failing-at-end": lambda n: "begin zz = " + " + ".join("vmod(%d).get()" % (100 + k) for k in range(n)) + " + 1 / (zz - zz); exception when others then nop; end;",
}


def many_gen(tier):
    def gen():
        n = 0
        for shape, mk in MANY_SHAPES.items():
            for cnt in MANY_N:
                if tier != "thorough" and cnt > 129 and shape not in ("sum-of-gets",):
                    continue
                for tail in ("", "purgewm 0"):
                    ops = ["isolate", op_ctx(0, True), op_run(PRELUDE), op_run(mk(cnt)), "vlog",
                           op_run("zz = vmod(3).get();"), op_run("zz = vmod(4).get() + vmod(5).get();"), op_run("a = vmod(6); a = null;")]
                    if tail:
                        ops.append(tail)
                    ops += ["vlog", "free 0", "vlog"]
                    yield Case("m%d" % n, ops, {"kind": "many", "shape": shape, "n": cnt, "tail": tail})
                    n += 1
    return gen


def check_many(case, res, vs):
    m = case.meta
    st = res["steps"]
    if st[3].get("r") != "ok":
        vs.append(Violation("many:rejected:%s" % m["shape"], "statement with %d temporaries: %s" % (m["n"], st[3]), case))
        return vs, True
    created, destroyed = [], {}
    for s_ in st:
        for e in parse_log(s_.get("log", "")):
            if e[0] == "X":
                vs.append(Violation("many:bad-module-event:%s" % m["shape"], " ".join(e), case))
            elif e[0] == "C" and e[1] == "vmod":
                created.append(int(e[2]))
            elif e[0] == "D" and e[1] == "vmod":
                destroyed[int(e[2])] = destroyed.get(int(e[2]), 0) + 1
            elif e[0] == "M" and e[1] == "vmod" and destroyed.get(int(e[2])):
                vs.append(Violation("many:method-on-destroyed-object:%s" % m["shape"], " ".join(e), case))
    if len(created) < (m["n"] if m["shape"] != "self-chain" else 1 + min(m["n"], 40)):
        vs.append(Violation("many:harness", "only %d objects created for n=%d" % (len(created), m["n"]), case))
    lost = [i for i in created if destroyed.get(i, 0) == 0]
    twice = [i for i in created if destroyed.get(i, 0) > 1]
    if lost:
        vs.append(Violation("many:never-destroyed:%s" % m["shape"], "%d of %d objects of a statement with %d temporaries were never destroyed (first: object %d)" % (
            len(lost), len(created), m["n"], lost[0]), case))
    if twice:
        vs.append(Violation("many:destroyed-twice:%s" % m["shape"], "objects %s destroyed more than once (statement with %d temporaries)" % (twice[:5], m["n"]), case))
    return vs, True


def wrongmod_gen():
    def gen():
        for n, (text, tag) in enumerate(WRONG):
            ops = ["isolate", op_ctx(0, True), op_run("import vmod; import vmod2; zz = 0;"), op_run(text), op_out(0), "vlog", op_dump(0, "T,U"), "free 0", "vlog"]
            yield Case("w%d" % n, ops, {"kind": "wrongmod", "tag": tag, "text": text})
    return gen


def check_wrongmod(case, res, vs):
    m = case.meta
    st = res["steps"]
    log = st[5].get("log", "") + st[8].get("log", "")
    # containers built for vmod objects hold vmod objects only
    # (vmod is imported first: its objects have type object#1, those of vmod2 object#2)
    for name, dv in st[6].get("vars", {}).items():
        ty, _, val = dv.partition("=")
        if ("o#vmod2:" in val and "object#1" in ty and "object#2" not in ty) or ("o#vmod:" in val and "object#2" in ty and "object#1" not in ty):
            vs.append(Violation("wrong-module:container:%s" % m["tag"].split(":")[0], "after %r the container %s holds an object of the other module than its type says: %s" % (
                m["text"], name, dv[:200]), case))
    for e in parse_log(log):
        if e[0] == "X":
            vs.append(Violation("wrong-module:%s" % m["tag"], "a method or constructor of one module ran on an object of the other: %s (%r gave %s)" % (" ".join(e), m["text"], st[3]), case))
    # a method compiled for vmod must never execute on a vmod2 object: the log shows which module executed which id
    out = unhex(st[4].get("out", "")).decode()
    return vs, True


# ------------------------------------------------------------------------------------------------
# the bloc command as host: every object a script created is destroyed exactly once by the time the process ends, whatever
# the script did with it last (returned it, kept it in a variable, left it in a table, died with an error)
CLI_PROGS = [
    ("return-variable", "import vmod; a = vmod(1); return a;", 1),
    ("return-temporary", "import vmod; return vmod(2);", 1),
    ("return-copy", "import vmod; a = vmod(1); b = a; return b;", 1),
    ("return-integer", "import vmod; a = vmod(1); b = a; return 5;", 1),
    ("return-table", "import vmod; t = tab(2, vmod(3)); return t;", 2),
    ("return-tuple", "import vmod; return tup(vmod(4), 1);", 1),
    ("return-method-result", "import vmod; a = vmod(1); return a.self();", 1),
    ("return-made", "import vmod; a = vmod(1); return a.make();", 2),
    ("return-from-function", "import vmod; function mk() return vmod is begin return vmod(8); end; return mk();", 1),
    ("return-nothing", "import vmod; a = vmod(1); return;", 1),
    ("no-return", "import vmod; a = vmod(1); t = tab(1, a); u = tup(a, 2);", 1),
    ("unhandled-error", "import vmod; a = vmod(1); b = vmod(2); raise boom;", 2),
    ("runtime-error-in-expression", "import vmod; a = vmod(1); zz = vmod(2).get() / (a.get() - a.get());", 2),
    ("compile-error", "import vmod; a = vmod(1); x = 1 +;", 0),
    ("print-then-return", 'import vmod; a = vmod(1); print a.get(); return vmod(a);', 2),
]
CLI_INTERACTIVE = [
    ("i-keep", ["import vmod;", "a = vmod(1);", "b = a;", "print a.get();"], 1),
    ("i-drop", ["import vmod;", "a = vmod(1);", "a = null;", "b = vmod(2);"], 2),
    ("i-error", ["import vmod;", "a = vmod(1);", "x = vmod(2).get() / 0;", "print a.get();"], 2),
    ("i-return", ["import vmod;", "a = vmod(1);", "return a;"], 1),
]


def cli_pass(tier):
    import subprocess
    from .c19 import exe_env
    res = Result()
    exe, env = exe_env()
    env["LD_LIBRARY_PATH"] = build.run_env("asan")["LD_LIBRARY_PATH"]
    sdir = os.path.join(build.BUILD, "scratch", "c17-cli")
    os.makedirs(sdir, exist_ok=True)
    jobs = []
    for name, text, nobj in CLI_PROGS:
        path = os.path.join(sdir, name + ".bloc")
        with open(path, "w") as f:
            f.write(text + "\n")
        jobs.append((name, "file", [path], None, nobj, text))
        jobs.append((name, "stdin", ["-"], (text + "\n").encode(), nobj, text))
        jobs.append((name, "out", ["--out=" + os.path.join(sdir, name + ".out"), path], None, nobj, text))
    for name, lines, nobj in CLI_INTERACTIVE:
        jobs.append((name, "interactive", ["-i"], ("\n".join(lines) + "\n").encode(), nobj, " ".join(lines)))
    for name, mode, argv, stdin, nobj, text in jobs:
        fd = os.memfd_create("vmodlog")
        e2 = dict(env)
        e2["VMOD_LOG_FD"] = str(fd)
        try:
            p = subprocess.run([exe] + argv, input=stdin, stdout=subprocess.PIPE, stderr=subprocess.PIPE, env=e2, timeout=30, pass_fds=(fd,), cwd=sdir)
            rc = p.returncode
        except subprocess.TimeoutExpired:
            rc = "timeout"
        size = os.lseek(fd, 0, os.SEEK_END)
        log = os.pread(fd, size, 0).decode("latin-1")
        os.close(fd)
        res.evaluations += 1
        res.transitions += len(log.splitlines())
        res.nontrivial += 1
        created, destroyed, bad = [], {}, []
        for e in parse_log(log):
            if e[0] == "X":
                bad.append(" ".join(e))
            if len(e) > 2 and e[1] == "vmod" and e[0] == "C":
                created.append(int(e[2]))
            if len(e) > 2 and e[1] == "vmod" and e[0] == "D":
                destroyed[int(e[2])] = destroyed.get(int(e[2]), 0) + 1
        res.digests.add(repr((name, mode, rc, len(created), sorted(destroyed.items()))).encode())

        def viol(key, msg):
            ent = res.viols.setdefault(key, {"count": 0, "first": None})
            ent["count"] += 1
            if ent["first"] is None:
                ent["first"] = (Violation(key, "bloc %s (%s): %s; exit %s; log:\n%s" % (" ".join(argv), text, msg, rc, log[:600]), None,
                                          {"program": text, "mode": mode, "log": log}), {})
        if rc == "timeout" or not isinstance(rc, int) or rc < 0 or rc > 1:
            viol("cli:exit:%s" % name, "exit status %s" % rc)
            continue
        if len(created) != nobj:
            viol("cli:objects-created:%s" % name, "%d objects created, the script creates %d" % (len(created), nobj))
        for i in created:
            if destroyed.get(i, 0) == 0:
                viol("cli:never-destroyed:%s" % name, "object %d was never handed back to the module before the process ended" % i)
            elif destroyed[i] > 1:
                viol("cli:destroyed-twice:%s" % name, "object %d destroyed %d times" % (i, destroyed[i]))
        for b in bad:
            viol("cli:bad-module-event:%s" % name, b)
    res.parts.append({"part": "cli", "runs": res.evaluations})
    return res


def run(tier):
    t0 = time.time()
    deadline = t0 + (3000 if tier == "thorough" else 420)
    build.ensure("asan", bins=("vdrv", "vmod"))
    depth = 6 if tier == "thorough" else 4
    total = Result()
    frontier = [[]]
    seen = set()
    states = 1
    for lvl in range(1, depth + 1):
        res = explore("%s-%s-level%d" % (PROP, tier, lvl), level_gen(frontier), check, chunk=40, deadline=deadline, collect=collect)
        total.merge(res)
        new = []
        for key in sorted(res.collected):
            if key in seen:
                continue
            seen.add(key)
            new.append(res.collected[key])
        states += len(new)
        frontier = new
        if res.capped:
            break
        if len(frontier) > 1500:
            total.parts.append({"part": "frontier-bound", "level": lvl, "distinct_states": len(frontier), "expanded": 1500})
            frontier = sorted(frontier, key=lambda h: (len(h), repr(h)))[:1500]
    total.merge(explore("%s-%s-wrong-module" % (PROP, tier), wrongmod_gen(), check, chunk=5, deadline=deadline))
    total.merge(explore("%s-%s-many-temporaries" % (PROP, tier), many_gen(tier), check, chunk=5, deadline=deadline))
    total.merge(cli_pass(tier))
    rule = ("breadth-first search to depth %d over %d statements (construct, copy, overwrite, store in table/tuple, delete, pass, return, temporaries, "
            "chained self(), other(), copy constructor, INOUT, loop, block with raise, failing argument list, forall, make(), function result, callee "
            "keeping a reference, five-argument method) and 3 host events (purge working memory, clone, free clone); %d model-distinct states; each "
            "history in its own process, followed by release of every context; %d programs offering an object of the other module where vmod was compiled (10 direct + 11 carriers x 10 uses); %d scripts through the bloc command (file, stdin, --out, -i): every object destroyed exactly once by process end" % (depth, len(STMTS), states, len(WRONG), len(CLI_PROGS) + len(CLI_INTERACTIVE)))
    return finish(PROP, tier, total, check, rule, t0, extra={"states": states + total.evaluations, "bfs_states": states},
                  assumptions=["reference-count model: holders per object; destruction may be late but not early", "AddressSanitizer guards each object block"])
