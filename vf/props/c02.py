"""C02 — the type fixed at compile time is the type produced at run time.

(a) every expression of the vocabulary product (depth 1; depth 2 over one atom per type/nullness in thorough) and
    of the operand-kind product (typed signatures x constant / variable / temporary / element / item / result): the
    static type taken while the context is parsing vs the type of the evaluated value and the typeof() text;
(b) every program of <= 3 (quick) / 4 (thorough) statements of an alphabet in which variables change type, are
    $-constrained, are loop iterators, are used by methods selected at compile time and functions are redefined:
    one parse+run of the whole text vs parse+run statement by statement in one context;
(c) every (initial type, assigned type) pair for $-variables and for/forall iterators inside their loop, by direct
    assignment and through an expression of opaque type: the major type never changes while constrained.
"""
import itertools
import re
import time

from ..core import Case, Violation, explore, finish, generic_safety, op_ctx, op_run, op_dump, op_out, op_expr, op_setvar, unhex, Result
from . import c01

PROP = "C02"

IMPURE = ("random", "read(", "readln", "input", "getsys", "getenv")


def opaque(t):
    return t.startswith("undefined") or "?" in t or t.startswith("pointer")


def expr_gen(tier):
    def gen():
        n = 0
        seen = set()
        for e, tag in c01.vocab_exprs(tier):
            if any(w in e for w in IMPURE) or e in seen:
                continue
            seen.add(e)
            ops = [op_ctx(), op_run(c01.PRELUDE)] + [op_setvar(k, v) for k, v in c01.SETVARS]
            ops += [op_expr(e), op_run("print typeof(%s);" % e), op_out()]
            yield Case("x%d" % n, ops, {"kind": "expr", "e": e, "tag": tag})
            n += 1
        # every typed signature with each argument as constant / variable / temporary / table element / tuple item / function result
        from . import c05
        kpre = c05.kprelude()
        for kc in c05.kinds_gen(tier)():
            e = kc.meta["e"]
            ops = [op_ctx(), op_run(kpre), op_expr(e), op_run("print typeof(%s);" % e), op_out()]
            yield Case("x%d" % n, ops, {"kind": "expr", "e": e, "tag": "kinds:" + kc.meta["sig"]})
            n += 1
        if tier == "thorough":
            atoms = ["2", "vni", "1.5", "vnd", '"a"', "vns", "true", "vnt", "vc", "vu", "vtab", "vr", "vb", "f1(1)"]
            ops2 = ["+", "*", "/", "**", "==", "<", "and", "|", "<<", "%", "-"]
            for o1 in ops2:
                for o2 in ops2:
                    for a in atoms:
                        for b in atoms:
                            for c in atoms[:10]:
                                for shape in ("(%s %s %s) %s %s", "%s %s (%s %s %s)"):
                                    e = shape % ((a, o1, b, o2, c) if shape.startswith("(") else (a, o1, b, o2, c))
                                    ops = [op_ctx(), op_run(c01.PRELUDE), op_expr(e)]
                                    yield Case("x%d" % n, ops, {"kind": "expr", "e": e, "tag": "depth2:%s%s" % (o1, o2)})
                                    n += 1
    return gen


def check_expr(case, res, vs):
    m = case.meta
    st = res["steps"]
    ex = None
    for s in st:
        if "stype" in s:
            ex = s
    if ex is None:
        return vs, False
    stype, _, sraw = (ex.get("stype") or "").partition("|")
    cls = m["tag"]
    if ex.get("r") == "ok":
        dtype, _, draw = (ex.get("dtype") or "").partition("|")
        if ex.get("val", "").startswith("N(") and "tuple" in stype and sraw == draw:
            # a null value carries no tuple declaration to print: major, structure id and dimension are equal
            dtype = stype
        # the value itself is what its type says: every item of a tuple has the declared item type, every element of a table the
        # element type (also nulls)
        try:
            from ..dumpparse import parse_value, uniform
            breach = uniform(parse_value(ex.get("val", ""))) if ex.get("val") else None
        except Exception:
            breach = None
        if breach:
            vs.append(Violation("value-vs-own-type:%s" % cls, "%s evaluates to %s: %s" % (m["e"], ex.get("val", "")[:120], breach), case))
        if not opaque(stype) and stype != dtype:
            # a tuple whose static structure is known must match; a typed table with undefined element type is opaque
            if re.search(r"\b(uq|us|ut|ur|ub)\b", m["e"]):
                cls += ":typed-only-by-unexecuted-assignment"
            vs.append(Violation("static-vs-dynamic:%s" % cls, "%s is compiled as %s but evaluates to %s (%s)" % (m["e"], stype, dtype, ex.get("val", "")[:80]), case))
        if len(st) >= 2 and "out" in st[-1] and st[-2].get("r") == "ok" and not opaque(stype):
            shown = unhex(st[-1]["out"]).decode("latin-1").strip().lower()
            if "*" in stype:
                want = "table"
            else:
                want = stype.split("{")[0].split("#")[0]
            if shown != want:
                vs.append(Violation("typeof-vs-static:%s" % cls, "typeof(%s) prints %r, compiled type is %s" % (m["e"], shown, stype), case))
        return vs, True
    return vs, False


# ------------------------------------------------------------------------------------------------
STMTS = [
    "x = 1;", 'x = "s";', "x = tab(2, 1);", 'x = tup(1, "a");', "x = null;", "x = 2.5;", "x = raw(2, 65);", "x = true;",
    "y = x;", "print x;", "print typeof(x) isnull(x);", "x.concat(1);", 'x.concat("c");', "print x.count();", "print x.at(0);", "print x@1;",
    "print x + 1;", 'print x + "t";', "$k = 1;", '$k = "s";', "$k = 2.5;", "print $k;",
    "for x in 1 to 2 loop print x; end loop;", "forall x in tab(2, 5) loop print x; end loop;",
    "function f() return integer is begin return 1; end;", 'function f() return string is begin return "fs"; end;',
    "function f() return undefined is begin return tab(1, 7); end;", "x = f();", "print f();",
    "if isnull(x) then x = 1; end if;", "x:string;", "x:integer;", "x = x;", "y = x + x;", "print y;",
]
STMTS_QUICK = [s for i, s in enumerate(STMTS) if i not in (6, 7, 20, 26, 30, 31)]


# a second alphabet around structured types: tuples, tables of tuples, tables of tables of tuples; assignments that are compiled
# but not executed (the symbol is re-typed while parsing and must come back with its full structure), structure-dependent uses
STMTS_T = [
    'x = tup(1, "a");', 'x = tab(2, tup(1, "a"));', 'x = tab(1, tab(1, tup(1, "a")));',
    'if false then x = tup(2, "b", 3); end if;', 'if false then x = tab(1, tup(2, "b", 3)); end if;', "if false then x = 5; end if;",
    'if false then x = tab(1, tab(1, tup(2, "b", 3))); end if;',
    'x.set@2("z");', 'x.at(0).set@2("z");', "print x@2;", "print x.at(0)@2;", "print x.count();", "y = x;", "print typeof(x);",
    "forall e in x loop print e@1; end loop;", 'x.concat(tup(7, "c"));', "x = null;",
    # a variable of a plain type is given a structured value that is null (the value carries no declaration)
    "x = 5;", "x = tup();", 'x = tab(int(), tup(1, "a"));', "x = tab();",
]


def prog_gen(tier):
    maxlen = 4 if tier == "thorough" else 3

    def gen():
        n = 0
        for alphabet in ((STMTS if tier == "thorough" else STMTS_QUICK), STMTS_T):
          for l in range(1, maxlen + 1):
              if l == 4:
                  # the fourth statement is taken from the uses only (the first three set the scene)
                  last = [s for s in alphabet if s.startswith("print") or s.startswith("y =") or ".concat" in s or s.startswith("x = f")]
                  combos = ((a, b, c, d) for a in alphabet for b in alphabet for c in alphabet for d in last)
              else:
                  combos = itertools.product(alphabet, repeat=l)
              for seq in combos:
                  whole = " ".join(seq)
                  ops = [op_ctx(0), op_run(whole), op_out(0), op_dump(0), "funcs 0", op_ctx(1)]
                  for s in seq:
                      ops.append(op_run(s, slot=1))
                  ops += [op_out(1), op_dump(1), "funcs 1"]
                  yield Case("q%d" % n, ops, {"kind": "prog", "seq": list(seq)})
                  n += 1
    return gen


def vals(dump):
    """variable values without the declared symbol types (the statement only promises equal behaviour)"""
    return {k: v.partition("=")[2] for k, v in dump.get("vars", {}).items()}


def strip_null_types(v):
    """values with every null reduced to 'null' (the type a null carries is what differs when typing came from unexecuted code)"""
    import re
    return re.sub(r"N\([^)]*\)", "null", repr(v))


def check_prog(case, res, vs):
    m = case.meta
    st = res["steps"]
    whole, wout, wdump, wf = st[1], st[2].get("out"), st[3], st[4]
    k = len(m["seq"])
    parts = st[6:6 + k]
    pout, pdump, pf = st[6 + k].get("out"), st[7 + k], st[8 + k]
    if whole.get("r") != "ok":
        return vs, False
    # the whole program compiled and ran: statement by statement must do the same

    def only_unexecuted_typing(upto):
        """the compile-time type x has at this point of the unit comes from an assignment that was compiled and never executed
        (inside `if false`): as one unit the later statements are compiled for that type, statement by statement for the type
        of the value x really holds"""
        last = None
        for st_ in m["seq"][:upto]:
            if st_.startswith("if false") or st_.startswith("x = ") or st_.startswith("x.concat"):
                last = st_
        return last is not None and last.startswith("if false")
    for i, s in enumerate(parts):
        if s.get("r") != "ok":
            key = "batch-vs-stepwise:%s" % s.get("r")
            if only_unexecuted_typing(i):
                key += ":typed-only-by-unexecuted-assignment:" + m["seq"][i]
            vs.append(Violation(key, "the program %r runs as one unit, but statement %d (%r) fed alone gives %s" % (
                " ".join(m["seq"]), i + 1, m["seq"][i], {a: b for a, b in s.items() if a in ("r", "msg")}), case))
            return vs, True
    if wout != pout:
        vs.append(Violation("batch-vs-stepwise:output", "the program %r prints %r as one unit and %r statement by statement" % (
            " ".join(m["seq"]), unhex(wout or ""), unhex(pout or "")), case))
    elif vals(wdump) != vals(pdump) or wf.get("funcs") != pf.get("funcs"):
        key = "batch-vs-stepwise:state"
        if only_unexecuted_typing(len(m["seq"])) and strip_null_types(vals(wdump)) == strip_null_types(vals(pdump)):
            key += ":typed-only-by-unexecuted-assignment:null-of-another-type"
        elif wf.get("funcs") == pf.get("funcs") and strip_null_types(vals(wdump)) == strip_null_types(vals(pdump)):
            wv, pv = vals(wdump), vals(pdump)
            diff = [kk for kk in wv if wv[kk] != pv.get(kk)]
            if diff and all(wv[kk].startswith("N(") and pv.get(kk, "").startswith("N(") for kk in diff):
                # the variable (a forall iterator after its loop) is null either way; the type the null carries is the one the compiler had
                # for the table when the loop was compiled: as one unit that can be less (x = tab(): untyped) or more (a null table of tuples
                # assigned just before: the declaration is known to the compiler, the null value does not carry it) than statement by statement
                key += ":null-typed-by-what-the-compiler-knew"
        vs.append(Violation(key, "the program %r leaves %r as one unit and %r statement by statement" % (
            " ".join(m["seq"]), wdump.get("vars"), pdump.get("vars")), case))
    return vs, True


# ------------------------------------------------------------------------------------------------
TYPES = {
    "boolean": "true", "integer": "7", "decimal": "2.5", "string": '"s"', "bytes": 'raw("b")', "complex": "ii",
    "tuple": 'tup(1, "a")', "table": "tab(2, 1)", "tableS": 'tab(1, "w")', "table2": "tab(1, tab(1, 1))",
    "nboolean": "bool()", "ninteger": "int()", "ndecimal": "num()", "nstring": "str()", "nbytes": "raw()", "null": "null",
    "ntuple": "tup()", "ntable": "tab()",
}
IDF = "function idf(x) return undefined is begin return x; end;"


def major(tname):
    if tname.startswith("n"):
        tname = tname[1:]
    if tname.startswith("table"):
        return "table"
    return {"ull": "undefined"}.get(tname, tname)


def constraint_gen(tier):
    def gen():
        n = 0
        for tn, te in TYPES.items():
            if tn in ("null", "ntable", "ntuple"):
                continue
            for un, ue in TYPES.items():
                for form in ("%s", "idf(%s)"):
                    ue2 = form % ue
                    # $-variable
                    ops = [op_ctx(), op_run(IDF), op_run("$v = %s;" % te), op_run("print typeof($v);"), op_out(),
                           op_run("$v = %s;" % ue2), op_run("print typeof($v);"), op_out(),
                           op_run("begin $v = %s; exception when others then nop; end; print typeof($v);" % ue2), op_out()]
                    yield Case("c%d" % n, ops, {"kind": "cons", "what": "$var", "t": tn, "u": un, "form": form})
                    n += 1
            # iterators: for (integer) and forall (element type)
        # a $-variable that served as the control variable of a for loop (also of two nested ones) is still constrained afterwards
        for un, ue in TYPES.items():
            for form in ("%s", "idf(%s)"):
                ue2 = form % ue
                for loops in ("for $v in 1 to 2 loop nop; end loop;", "for $v in 1 to 2 loop for $v in 3 to 4 loop nop; end loop; end loop;",
                              "for $v in 1 to 5 loop if $v == 2 then break; end if; end loop;"):
                    ops = [op_ctx(), op_run(IDF), op_run("$v = 1; " + loops), op_run("print typeof($v);"), op_out(),
                           op_run("$v = %s;" % ue2), op_run("print typeof($v);"), op_out(),
                           op_run("begin $v = %s; exception when others then nop; end; print typeof($v);" % ue2), op_out()]
                    yield Case("c%d" % n, ops, {"kind": "cons", "what": "$var", "t": "integer", "u": un, "form": form + " after " + loops[:24]})
                    n += 1
        for un, ue in TYPES.items():
            for form in ("%s", "idf(%s)"):
                ue2 = form % ue
                body = 'print typeof(i); i = %s; print typeof(i);' % ue2
                ops = [op_ctx(), op_run(IDF), op_run("i = 0;"), op_run("for i in 1 to 2 loop %s end loop;" % body), op_out(),
                       op_run('print typeof(i); i = "after"; print typeof(i);'), op_out()]
                yield Case("c%d" % n, ops, {"kind": "cons", "what": "for", "t": "integer", "u": un, "form": form})
                n += 1
                for tn in ("integer", "string", "table", "tuple"):
                    body = 'print typeof(e); e = %s; print typeof(e);' % ue2
                    ops = [op_ctx(), op_run(IDF), op_run("e = 0; tt = tab(2, %s);" % TYPES[tn]), op_run("forall e in tt loop %s end loop;" % body), op_out(),
                           op_run('print typeof(e); e = "after"; print typeof(e);'), op_out(), op_dump(0, "TT")]
                    yield Case("c%d" % n, ops, {"kind": "cons", "what": "forall", "t": tn, "u": un, "form": form})
                    n += 1
    return gen


def check_cons(case, res, vs):
    m = case.meta
    st = res["steps"]
    want = major(m["t"])

    def shown(step):
        return [l.lower() for l in unhex(step.get("out", "")).decode("latin-1").split("\n") if l]
    if m["what"] == "$var":
        if st[2].get("r") != "ok":
            return vs, False
        a, b, c = shown(st[4]), shown(st[7]), shown(st[9])
        for obs in (a, b, c):
            for t in obs:
                if t != want:
                    vs.append(Violation("constraint:$var:%s" % want, "$v created as %s shows typeof %r after assigning %s (%s)" % (m["t"], t, m["u"], m["form"]), case))
                    return vs, True
        return vs, True
    loop, lout = st[3], shown(st[4])
    after, aout = st[5], shown(st[6])
    if loop.get("r") == "ok" or loop.get("r") == "rerr":
        for t in lout:
            if t != want:
                vs.append(Violation("constraint:%s-iterator:%s" % (m["what"], want), "iterator over %s shows typeof %r inside its loop after assigning %s (%s)" % (m["t"], t, m["u"], m["form"]), case))
                return vs, True
    if after.get("r") != "ok" or not aout or aout[-1] != "string":
        vs.append(Violation("constraint:%s-iterator:not-released" % m["what"], "after the loop the iterator does not accept another type: %s %r (loop: %s)" % (after, aout, loop.get("r")), case))
    if m["what"] == "forall":
        tv = st[7].get("vars", {}).get("TT", "")
        from ..dumpparse import parse_symbol, uniform
        try:
            u = uniform(parse_symbol(tv)[2])
        except Exception as e:
            u = "unparsable %r" % tv
        if u:
            vs.append(Violation("constraint:forall:table-not-uniform", "writing %s through the iterator left the table non-uniform: %s" % (m["u"], u), case))
    return vs, True


def check(case, res):
    vs = generic_safety(case, res)
    if res.get("st") != "done":
        return vs, True
    k = case.meta["kind"]
    if k == "expr":
        return check_expr(case, res, vs)
    if k == "prog":
        return check_prog(case, res, vs)
    return check_cons(case, res, vs)


def run(tier):
    t0 = time.time()
    deadline = t0 + (3000 if tier == "thorough" else 420)
    total = Result()
    total.merge(explore("%s-%s-expressions" % (PROP, tier), expr_gen(tier), check, chunk=300, deadline=deadline))
    total.merge(explore("%s-%s-programs" % (PROP, tier), prog_gen(tier), check, chunk=200, deadline=deadline))
    total.merge(explore("%s-%s-constraints" % (PROP, tier), constraint_gen(tier), check, chunk=100, deadline=deadline))
    rule = ("(a) static type (context in parsing mode) vs dynamic type and typeof() text for every expression of the vocabulary product%s; (b) all "
            "sequences of <=%d statements over %d statements that change variable types, constrain, iterate, call compile-time selected methods and "
            "redefine functions: whole-program run vs statement-at-a-time run (output, variables, functions); (c) all (initial type, assigned type) pairs "
            "for $-variables, for iterators and forall iterators over 4 element types, by direct assignment and through an opaque expression. Non-trivial: "
            "the expression/program was accepted and evaluated" % (" and depth-2 operator pairs" if tier == "thorough" else "", 4 if tier == "thorough" else 3,
                                                                len(STMTS if tier == "thorough" else STMTS_QUICK)))
    return finish(PROP, tier, total, check, rule, t0, assumptions=["Expression::type() read while Context::parsing() is the compile-time type",
                                                                "typeof text compared case-insensitively; any table prints as 'table'"])
