"""C12 — saving a compiled program as text and loading it back preserves its behaviour.

For every program S of (1) the operator-pair grammar (every ordered pair of binary operators in the three
parenthesis shapes, unary x binary, ** chains, member and @ chains), (2) every literal form, (3) a corpus of
statement programs (every statement kind nested, chained statements, functions with every parameter / return
type spelling, exception clauses, typed declarations): T1 = unparse(compile(S)) must be accepted in a twin
context, run with the same output / result / error / final variables, and unparse(compile(T1)) = T1.
"""
import itertools
import time

from ..core import Case, Violation, explore, finish, generic_safety, op_ctx, op_run, op_dump, op_out, op_setvar, unhex, hx, Result
from .. import ctl
from . import c01, c03, c06, c07

PROP = "C12"

ARITH = ["+", "-", "*", "/", "%", "**", "power", "&", "|", "^", "<<", ">>"]
REL = ["==", "!=", "<", "<=", ">", ">=", "matches"]
LOGIC = ["and", "&&", "or", "||", "xor"]
UN_I = ["-", "+", "~"]
UN_B = ["not", "!"]
PRE = 'x = 7; y = 3; z = 2; p = true; q = false; n = null; s = "abc"; w = "b"; d = 2.5; t = tab(2, 5); r = tup(1, "a"); c = 1 + 2 * ii;'


def expr_programs(tier):
    ints = ["x", "y", "z"] if tier != "thorough" else ["x", "y", "2", "d"]
    bools = ["p", "q", "n"]
    strs = ["s", "w", '"c"']
    seen = set()

    def emit(e):
        if e not in seen:
            seen.add(e)
            return True
        return False
    allops = ARITH + REL + LOGIC
    for o1 in allops:
        for o2 in allops:
            for atoms in (ints, bools, strs):
                a, b, c = atoms[0], atoms[1], atoms[2]
                for shape in ("%s %s %s %s %s", "(%s %s %s) %s %s", "%s %s (%s %s %s)"):
                    e = shape % (a, o1, b, o2, c)
                    if emit(e):
                        yield e
            # mixed: relational inside logical, arithmetic inside relational
            for e in ("x %s y %s p" % (o1, o2), "p %s x %s y" % (o1, o2), "(x %s y) %s z" % (o1, o2), "x %s (y %s z)" % (o1, o2),
                      "s %s w %s p" % (o1, o2)):
                if emit(e):
                    yield e
    if tier == "thorough":
        tri = ["+", "-", "*", "/", "**", "%", "<<", "&", "==", "<", "and", "or"]
        for o1 in tri:
            for o2 in tri:
                for o3 in tri:
                    for shape in ("x %s y %s z %s x", "(x %s y) %s (z %s x)", "x %s (y %s z) %s x", "x %s (y %s (z %s x))", "((x %s y) %s z) %s x",
                                  "p %s q %s n %s p", "p %s (q %s n) %s p", "x %s y %s p %s q"):
                        e = shape % (o1, o2, o3)
                        if emit(e):
                            yield e
    for u in UN_I + UN_B:
        for o in allops:
            for e in ("%s x %s y" % (u, o), "%s (x %s y)" % (u, o), "x %s %s y" % (o, u), "%s p %s q" % (u, o), "%s (p %s q)" % (u, o), "p %s %s q" % (o, u),
                      "%s %s x %s y" % (u, u, o), "(%s x) %s y" % (u, o)):
                if emit(e):
                    yield e
    chains = ["x ** y ** z", "(x ** y) ** z", "x ** (y ** z)", "-x ** y", "(-x) ** y", "x ** -y", "x power y power z", "x - y - z", "x - (y - z)",
              "x / y / z", "x / (y / z)", "x % y % z", "x - y + z", "x - (y + z)", "x << y >> z", "x << (y >> z)", "x * (y + z) * x", "(x)", "((x))",
              "(x + y)", "-(x)", "-(-x)", "- - x", "not not p", "!(p and q)", "not p and q", "not (p and q)",
              "t.at(0)", "t.at(1) + 1", "t.count() * 2", "(t.at(0) + 1) * 2", "t.concat(1).count()", "t.put(0, 9).at(0)", "s.concat(w).count()", "(s + w).count()",
              "r@1", "r@2", "r@1 + 1", "(r@1 + 1) * 2", "tup(1, 2)@2", "tab(2, tup(1, \"z\")).at(1)@2", "t.at(r@1)", "s.at(0) + 1", "-t.at(0)", "-(t.at(0))",
              "c * c", "(c + 1) * ii", "-c", "iconj(c) * c", "max(x, y) + min(x, y)", "pow(x, 2) ** 2", "str(x) + str(y)", "upper(s + w)", "substr(s, 1, 1) + w",
              "isnull(n) and p", "isnull(n and p)", "typeof(x + y)", "int(d) + 1", "num(x) / 2", "bool(x) and p", "raw(2, 65).count()", "tab(2, x + y).count()",
              "x + y * z", "(x + y) * z", "x * y + z", "x * (y + z)", "x < y == p", "(x < y) == p", "x + 1 < y * 2 and p", "x & y == z", "(x & y) == z",
              "x | y & z", "(x | y) & z", "x ^ y | z", "x == y != p", "p == (q != n)",
              '(s + w).concat("!")', "(s + w).at(1)", "(s + w).put(0, 65)", '(s + " " + w).at(3)', '(s + w).insert(0, "z")', "(s + w).delete(0)",
              "(s + w).concat(w).count()", '(tup(1, "a"))@2', "(r)@2", "(t).at(0)", "(t.concat(1)).at(2)", '(raw("ab")).at(0)', "(s).count()",
              "((s + w)).count()", "(s + w).count() + (w + s).count()", "(s + w).at(0) + (w + s).at(0)", "-(t.at(0) + 1)", "(t.at(0) + 1) * (t.at(1) - 1)",
              '(upper(s) + lower(w)).count()', "(c * c) + ii", "(c + 1)", "(x + y).5", "(d * 2.0)", "(s + w) + (w + s)", '(s + w) == (w + s)']
    for e in chains:
        if emit(e):
            yield e


LITERALS = ['"plain"', '""', '"a""b"', '"a\\"b"', '"t\\tn\\nr\\rb\\\\q"', '"\\a\\b\\f"', '"multi word ; , ) ("', '"\'single\'"', '"# not a comment"', '"// neither"',
            '"/* nor */"', "0x1f", "0XBEBADA", "0xffffffffffffffff", "0", "1", "9223372036854775807", "-9223372036854775807", "1.0", "3.1416", "314.16e-2",
            "0.31416E1", "34e1", ".314", "1e308", "1e-308", "5e-324", "0.1", "0.30000000000000004", "1.7976931348623157e308", "2.2250738585072014e-308",
            "9007199254740993.0", "123456789.123456789", "1e21", "1e22", "1.5e300", "100.0", "1e0", "true", "false", "on", "off", "null", "pi", "ee", "phi", "ii",
            "2 + 3 * ii", "-1.5", "-0.0", "- 7", "1e5", "12345678901234567890.0",
            # the lowest integer, however it is written
            "0x8000000000000000", "9223372036854775808", "-9223372036854775807 - 1", "-(-9223372036854775807 - 1)", "0x8000000000000001"]


MISC = [
    "a = 1, b = 2, c = a + b, print a b c;",
    "let a = 1; let b = a; do a + b; nop; print a b;",
    "for i in 1 to 10 step 3 asc loop print i; end loop; for i in 10 to 1 step 2 desc loop print i; end loop;",
    "t = tab(3, 0); forall e in t desc loop e = 1; end loop; forall e in t asc loop print e; end loop;",
    'begin raise e1; exception when e1 then print "1" error@1; when e2 then print "2"; when others then print "o"; end;',
    'begin begin x = 1 / 0; exception when out_of_range then print "r"; end; exception when divide_by_zero then print error@2; end;',
    'if 1 > 2 then print "a"; elsif 2 > 3 then print "b"; elsif 3 > 2 then print "c"; else print "d"; end if;',
    "n = 0; while n < 3 loop n = n + 1, print n; if n == 2 then continue; end if; put n; put \"-\"; end loop; print \"\";",
    'trace false; print "t";',
    "function f() return integer is begin return 1; end; function f(a) return integer is begin return 2; end; print f() f(0);",
    "function g(n) return integer is begin if n < 1 then return 0; end if; return n + g(n - 1); end; print g(4);",
    'function h(s:string) return string is begin s.concat("!"); return s; end; print h("x");',
    "return 5;", 'return "s";', "return;", "x = 1; return x + 1;",
    'print "a" "b" 1 2.5 true null;', 'put "a" 1; put 2.5; print "";',
    "x = tab(2, tab(2, tup(1, \"a\")));  print x.at(1).at(0)@2;",
    "$s = 1; $s = $s + 1; print $s;",
    'r = tup(1, "a", 2.5, true, raw("b"), ii); r.set@1(2).set@2("b"); print r@1 r@2 r.count();',
    "b = raw(3, 65); b.put(0, 66).concat(67).insert(0, 68).delete(1); print b.count() b.at(0);",
    # `do` before every shape of expression, print / put arguments that begin with a parenthesis after a name
    'x = 1; do (1 + 2); do "abc".concat("d"); do x; do (x); do -x; do tab(1, 1).count(); do x + 1; print x;',
    'x = 1; y = 2; print (x) (-1); print (x) (y); put (x) (y) (x + y); print ""; print x - 1 (x) "s" (x); put (x) (2 + 1) "\\n"; put (x + y) (x) (y - x) (y);',
    "x = null; x:integer; x = int(); y = num(); z = str(); w = raw(); v = bool(); u = tup(); t = tab(); print isnull(x) isnull(t);",
]


def corpus(tier):
    for s in c01.SEEDS:
        yield "seed", "", s
    # integer-valued decimals that need 17 significant digits and print without point or exponent
    for k in range(53, 57):
        for j in (1, 2, 3, 5):
            d = float(2 ** k + 2 ** (k - 52) * j)
            yield "literal", "", "v = %d.0; print v typeof(v); print v / 1000; w2 = v %% 1000; print w2;" % int(d)
    # every built-in, operator, method and rank form of the C01 vocabulary (a spread of its argument tuples per form): whatever
    # compiles must be saved in a form that compiles to the same thing
    bytag = {}
    for e, tag in c01.vocab_exprs("quick"):
        if any(w in e for w in ("random", "readln", "read(", "input", "getenv", "getsys")):
            continue
        bytag.setdefault(tag, []).append(e)
    per = 60 if tier == "thorough" else 24
    for tag, exprs in sorted(bytag.items()):
        step = max(1, len(exprs) // per)
        for e in exprs[::step][:per]:
            yield "vocab", c01.PRELUDE, "begin rr = %s; print rr; exception when others then print \"E\"; end; zz2 = 1;" % e
    for lit in LITERALS:
        yield "literal", "", "v = %s; print v; w2 = v; print typeof(v);" % lit
    # every string of length <= 2 over the characters that have an escape, the two quotes, and characters that have none
    SCH = ["\\a", "\\b", "\\f", "\\n", "\\r", "\\t", "\\\\", '\\"', '""', "'", "a", "%", "\x01", "\x7f", "\u00e9"]
    # arguments of print / put are separated by blanks only: every shape of argument before every shape of enclosed argument
    A1 = ["x", "-x", "x + y", "1 + x", "x * y", "not b", "t.at(0)", "r@1", '"s"', "2", "x ** y", "t.count() + x", "b and b", "- (x)", "ii * x", "x == y", "pi"]
    for kw in ("print", "put"):
        for a in A1:
            for bb in ("(y)", "(x + y)", "(-1)", "(b)", "((x))", "(r@1)", "(t.at(0))"):
                yield "print-args", "", 'x = 1; y = 2; b = true; t = tab(1, 5); r = tup(1, 2); %s (%s) %s; print "|"; %s (%s) %s (%s) %s; print "";' % (kw, a, bb, kw, a, bb, a, bb)
        # the argument is not enclosed as a whole, only its last operand is (the parentheses around a lone name are not kept)
        for a in ["(x)", "- (x)", "x + (y)", "1 + (x)", "x * (y)", "not (b)", "x ** (y)", "x == (y)", "b and (b)", "2 - - (x)", "t.at(0) + (x)", "ii * (x)", "x + y * (x)"]:
            for bb in ("(y)", "(x + y)", "(-1)", "((x))", "(t.at(0))"):
                yield "print-args", "", 'x = 1; y = 2; b = true; t = tab(1, 5); r = tup(1, 2); %s %s %s; print "|"; %s %s %s %s %s; print "";' % (kw, a, bb, kw, a, bb, a, bb)
    # every byte value inside a constant (written raw in the source; NUL, LF, CR and the quote have their own spellings above)
    for b in range(1, 256):
        if b in (0x0a, 0x0d, 0x22, 0x5c):
            continue
        ch = bytes([b]).decode("latin-1")
        yield "literal", "", 'v = "%s"; print strlen(v); w2 = "a%sb" + v; print w2;' % (ch, ch)
    for l in (0, 1, 2):
        for t in itertools.product(SCH, repeat=l):
            lit = '"' + "".join(t) + '"'
            yield "literal", "", "v = %s; print v strlen(v); w2 = v + v; print w2;" % lit
    for d in c03.dec_lattice(tier):
        if d != d or d in (float("inf"), float("-inf")):
            continue
        yield "literal", "", "v = %s; print v;" % repr(d)
        yield "literal", "", "v = 1.0 + %s * 2; print v;" % repr(abs(d))
    for e in expr_programs(tier):
        yield "expr", PRE, "rr = %s; print rr; print s w x y;" % e
    # statement programs: nesting grammar (C06) and error programs (C07)
    n = 0
    for prog in c06.nest_programs("quick"):
        n += 1
        if tier != "thorough" and n % 4:
            continue
        yield "nest", c06.DECL, ctl.btext(prog)
        yield "nest-func", c06.DECL, ("function fb() return integer is\nbegin\ni1 = 0; n1 = 0; e1 = 0; i2 = 0; n2 = 0; e2 = 0; vt = true; vf = false; t1 = tab(2, 0); t2 = tab(2, 0);\n%s\nreturn 99;\nend;\nrr = fb(); print rr;" % ctl.btext(prog, 1))
    n = 0
    for meta, prog in c07.programs("quick"):
        n += 1
        if n % (7 if tier == "thorough" else 31):
            continue
        yield "errors", c07.DECL7 + "\n" + c07.FDECL, ctl.btext(prog)
    # declarations and spellings
    types = ["undefined", "boolean", "integer", "decimal", "complex", "string", "bytes", "tuple", "table"]
    for t in types:
        yield "decl", "", "v:%s; print typeof(v) isnull(v);" % t
        # statements chained after a typed declaration, at top level and in a function body
        yield "decl", "", "n = 100; v:%s, n = 1, print n; print typeof(v) n;" % t
        yield "decl", "", ("function fd() return integer is begin acc = 7; v:%s, acc = acc + 1000; w:%s, acc = acc + 1; return acc; end; print fd();" % (t, t))
        yield "func-type", "", "function ft(a:%s) return %s is begin return a; end; print isnull(ft(null));" % (t, t if t != "bytes" else "bytes")
        for t2 in types[1:4]:
            yield "func-type", "", "function ft(a:%s, b, c:%s) return %s is begin return c; end; print isnull(ft(null, 1, null));" % (t, t2, t2)
        # a parameter the body assigns with a value of another type keeps its declaration in the saved text (typed and untyped parameters)
        VAL = {"undefined": "null", "boolean": "true", "integer": "7", "decimal": "2.5", "complex": "ii", "string": '"s"', "bytes": 'raw("b")',
               "tuple": 'tup(1, "a")', "table": "tab(1, 1)"}
        for t2 in types[1:]:
            if t2 == t:
                continue
            yield "func-type", "", ("function fp(p:%s, q) return string is begin w = typeof(p) + typeof(q); p = %s; q = %s; return w + typeof(p) + typeof(q); end; "
                                    "print fp(%s, %s); print fp(%s, %s);" % (t, VAL[t2], VAL[t2], VAL[t], VAL[t], VAL[t], VAL[t]))
            # ... and a use, ahead of the assignment, that only compiles with the declared type
            USE = {"boolean": "str(not p)", "integer": "str(p + 1)", "decimal": "str(round(p * 2.0))", "complex": "str(imag(p))", "string": 'p + "x"', "bytes": "str(p.count())",
                   "tuple": "str(p@1)", "table": "str(p.count())"}
            if t in USE:
                yield "func-type", "", ("function fu(p:%s) return string is begin w = %s; p = %s; return w + typeof(p); end; print fu(%s); print fu(%s);" % (
                    t, USE[t], VAL[t2], VAL[t], VAL[t]))
    misc = MISC
    for m in misc:
        yield "misc", "", m
    # module objects: constructors (every arity), methods, object arguments, chains, objects in containers and function results
    modules = [
        'import utf8; u = utf8("ab"); v = utf8(u); w = u.concat(v); print u.count() v.string() utf8("x").append(65).string() u.insert(1, v) u.string();',
        'import utf8; u = utf8(); print u.empty() u.count(); u.append("xy").append(0x41); print u.string() u.substr(1) u.substr(0, 1) u.at(0);',
        'import csv; c = csv(","); print c.serialize(tup("a", 1, 2.5)); t = tab(0, ""); b = c.deserialize("x,y", t); print b t.count();',
        'import utf8; function mk(s:string) return utf8 is begin return utf8(s); end; print mk("q").concat(mk("r")).string() (mk("a")).count();',
        'import utf8; t = tab(1, utf8("a")); forall e in t loop print e.toupper().string(); end loop; r = tup(utf8("z"), 1); print r@1.string() t.at(0).count();',
        'import utf8; o:utf8; print isnull(o); o = utf8("k"); print o.string(); if o.count() == 1 then print (o.append("l")).rawsize(); end if;',
        'import file; f = file(); print f.isopen() f.separator().count();',
        # typed declarations naming a module type
        'import file; f:file; if false then print f.isopen(); end if; print isnull(f); function fo(p:file) return file is begin return p; end; print isnull(fo(f));',
        'import utf8; u:utf8; u = utf8("d"); print u.count(); t:table; t = tab(1, u); print t.count();',
    ]
    for m in modules:
        yield "module", "", m
    # loop headers: every order with bounds in both directions (the order keyword matters only for some bounds)
    for o in ("", "asc", "desc"):
        for (b, e) in ((1, 3), (3, 1), (2, 2), (0, -1)):
            for st in ("", "step 2"):
                yield "for-order", "", "n = 0; for i in %d to %d %s %s loop print i; n = n + 1; end loop; print n;" % (b, e, st, o)
                yield "for-order", "", "lo = %d; hi = %d; for i in lo to hi - 1 %s %s loop print i; end loop; print \"e\";" % (b, e, st, o)
        yield "forall-order", "", "t = tab(0, 0); t.concat(1).concat(2).concat(3); forall e in t %s loop print e; end loop;" % o
        yield "forall-order", "", 'function fo(t) return integer is begin n = 0; forall e in t %s loop n = n * 10 + e; end loop; return n; end; print fo(tab(1, 1).concat(2).concat(3));' % o


def gen_factory(tier):
    def gen():
        n = 0
        for kind, pre, text in corpus(tier):
            ops = [op_ctx(0), op_ctx(1)]
            if pre:
                ops += [op_run(pre, slot=0), op_run(pre, slot=1)]
            ops += ["rt 0 1 " + hx(text), op_out(0), op_out(1), op_dump(0), op_dump(1), "funcs 0", "funcs 1"]
            yield Case("s%d" % n, ops, {"kind": kind, "text": text})
            n += 1
    return gen


def check(case, res):
    vs = generic_safety(case, res)
    if res.get("st") != "done":
        return vs, True
    m = case.meta
    st = res["steps"]
    k = len(st) - 7
    rt, oa, ob, da, db, fa, fb = st[k:k + 7]
    if rt.get("r") != "ok":
        if m["kind"] in ("misc", "module", "seed", "for-order", "forall-order", "decl", "func-type", "nest", "nest-func", "errors", "print-args"):
            # hand-written programs are meant to be valid: a rejected one exercises nothing
            vs.append(Violation("harness:source-rejected:%s" % m["kind"], "the corpus program is not accepted: %s\n--- source: %s" % (rt.get("err"), m["text"][:300]), case))
        return vs, False     # the original text is not a valid program: outside the domain
    t1 = unhex(rt.get("t1", "")).decode("latin-1")
    kind = m["kind"]

    def bad(key, msg):
        vs.append(Violation("%s:%s" % (key, kind), "%s\n--- source: %s\n--- saved: %s" % (msg, m["text"][:300], t1[:400]), case))
    p2 = rt.get("p2", {})
    if p2.get("r") != "ok":
        bad("saved-text-rejected", "the saved text is not accepted: %s" % {a: b for a, b in p2.items() if a in ("r", "msg", "line", "col")})
        return vs, True
    t2 = unhex(rt.get("t2", "")).decode("latin-1")
    if t2 != t1:
        bad("not-a-fixpoint", "saving the reloaded program gives a different text: %r" % t2[:300])
    ra, rb = rt.get("runa", {}), rt.get("runb", {})
    if (ra.get("r"), ra.get("msg"), ra.get("ret")) != (rb.get("r"), rb.get("msg"), rb.get("ret")):
        bad("result-differs", "original run %s, reloaded run %s" % (ra, rb))
    elif oa.get("out") != ob.get("out"):
        bad("output-differs", "original prints %r, reloaded prints %r" % (unhex(oa.get("out", ""))[:200], unhex(ob.get("out", ""))[:200]))
    elif da.get("vars") != db.get("vars"):
        va, vb = da.get("vars", {}), db.get("vars", {})
        diff = [x for x in va if va[x] != vb.get(x)] + [x for x in vb if x not in va]
        bad("variables-differ", "final variables differ: %s" % {x: (va.get(x), vb.get(x)) for x in diff[:4]})
    elif fa.get("funcs") != fb.get("funcs"):
        bad("functions-differ", "function tables differ: %r vs %r" % (fa.get("funcs"), fb.get("funcs")))
    return vs, True


def run(tier):
    t0 = time.time()
    res = explore(PROP + "-" + tier, gen_factory(tier), check, chunk=200, deadline=t0 + (3000 if tier == "thorough" else 420))
    rule = ("round trip of every program of: all ordered pairs of %d binary operators in 3 parenthesis shapes over integer, boolean and string atoms plus mixed "
            "shapes; unary x binary; ** / member / @ chains; %d literal forms and the decimal lattice (17-digit values); the seed programs, the C06 nesting "
            "grammar (top level and function bodies), a sample of the C07 error programs, declarations and function signatures with every type spelling, "
            "chained statements. Non-trivial: the source text is accepted (rejected sources are outside the domain)" % (len(ARITH + REL + LOGIC), len(LITERALS)))
    return finish(PROP, tier, res, check, rule, t0, assumptions=["Executable::unparse is the text the save command writes per statement (the CLI path is exercised by C19)",
                                                              "equivalent context: a twin built by the same prelude"])
