"""C18 — csv, file, sqlite3, utf8 modules move data losslessly and tolerate any argument.

csv   : every row of <= 3 fields over fields of length <= 2 (3) over {a, space, separator, quote, LF, CR} for four
        separator/quote choices: deserialize(serialize(row)) = row, also when the record is fed line by line.
utf8  : every byte string of length <= 3 (4) over 16 bytes of every UTF-8 lead/continuation/illegal class; Python's
        codec decides validity; count/at/substr/insert/remove/string agree with Python for valid input; every
        position of a boundary lattice gives a defined result or a BLOC error.
file  : every sequence of <= 3 (4) operations (write string/bytes, seekset/cur/end, read, readln, position, flush)
        in modes r, w, a, r+, w+, a+ against a twin file driven by Python's unbuffered I/O; after close the file is read by
        Python and compared.
sqlite3: every parameter tuple of <= 2 (3) items over integers, decimals, strings (empty, quotes, NUL, high bytes),
        bytes and typed nulls bound by exec(sql, tuple), read back by query() and independently by Python's sqlite3.
all   : every method of every module with null / out-of-range / wrong-state arguments under ASan.
"""
import io
import itertools
import os
import sqlite3 as pysqlite
import struct
import time

from .. import build
from ..core import Case, Violation, explore, finish, generic_safety, op_ctx, op_run, op_dump, op_out, op_setvar, unhex, hx, Result
from ..dumpparse import parse_symbol

PROP = "C18"
MAX = 2 ** 63 - 1


def sdir():
    d = os.path.join(build.BUILD, "scratch", "c18")
    os.makedirs(d, exist_ok=True)
    return d


def slit(b):
    """BLOC string literal for bytes without NUL/CR/LF/quote/backslash problems: use setvar for anything else"""
    return '"' + b.decode("latin-1").replace("\\", "\\\\").replace('"', '\\"') + '"'


# ------------------------------------------------------------------------------------------------
# csv
CSV_FORMATS = [(",", '"'), (";", "'"), ("\t", '"'), ("|", "~")]
CSV_LOOP = ('r2 = tab(0, ""); rest = s; first = true; more = true; guard = 0;\n'
            'while more loop\n'
            '  guard = guard + 1; if guard > 20 then break; end if;\n'
            '  p = strpos(rest, nl);\n'
            '  if isnull(p) then line = rest; rest = ""; else line = lsubstr(rest, p + 1); rest = substr(rest, p + 1); end if;\n'
            '  if first then more = c.deserialize(line, r2); first = false; else more = c.deserialize_next(line, r2); end if;\n'
            '  if rest.count() == 0 then break; end if;\n'
            'end loop;\n'
            'err2 = c.in_error();')


def csv_gen(tier):
    def gen():
        n = 0
        for sep, q in CSV_FORMATS:
            alpha = [b"a", b" ", sep.encode(), q.encode(), b"\n", b"\r"]
            fields = [b""]
            for l in range(1, (3 if tier == "thorough" else 2) + 1):
                for t in itertools.product(alpha, repeat=l):
                    fields.append(b"".join(t))
            f2 = [f for f in fields if len(f) <= 2]
            rows = [[f] for f in fields if f != b""]
            rows += [[a, b] for a in (fields if tier == "thorough" else f2) for b in f2]
            short = [f for f in f2 if len(f) <= 1] + [q.encode() + sep.encode(), b" " + q.encode(), q.encode() + b"\n"]
            rows += [[a, b, c] for a in short for b in short for c in short]
            for row in rows:
                ops = ["isolate", op_ctx(0, True), op_setvar("SQ", "s" + (sep + q).encode().hex()), op_setvar("NL", "s0a")]
                for k, f in enumerate(row):
                    ops.append(op_setvar("F%d" % k, "s" + f.hex()))
                build_t = 't = tab(0, ""); ' + " ".join("t.concat(f%d);" % k for k in range(len(row)))
                ops.append(op_run("import csv; c = csv(sq); %s s = c.serialize(t); r = tab(0, \"\"); m = c.deserialize(s, r); err = c.in_error();" % build_t))
                ops.append(op_run(CSV_LOOP))
                ops.append(op_dump(0, "S,R,M,ERR,R2,MORE,ERR2,T"))
                yield Case("c%d" % n, ops, {"kind": "csv", "sep": sep, "q": q, "row": [f.hex() for f in row]})
                n += 1
    return gen


def tab_strings(sym):
    t, f, v = parse_symbol(sym)
    if v[0] != "T":
        return None
    return [e[1] if e[0] == "s" else None for e in v[2]]


def check_csv(case, res, vs):
    m = case.meta
    st = res["steps"]
    row = [bytes.fromhex(x) for x in m["row"]]
    run1, run2, dump = st[-3], st[-2], st[-1].get("vars", {})
    where = "row %r with separator %r quote %r" % (row, m["sep"], m["q"])
    if run1.get("r") != "ok":
        vs.append(Violation("csv:serialize-deserialize-failed", "%s: %s" % (where, run1), case))
        return vs, True
    try:
        r = tab_strings(dump["R"])
        ser = parse_symbol(dump["S"])[2]
    except Exception as e:
        vs.append(Violation("csv:dump", "cannot read results: %s %r" % (e, dump), case))
        return vs, True
    ncount = "%d-fields" % len(row)
    if r != row:
        vs.append(Violation("csv:roundtrip:%s" % ncount, "%s: serialized as %r, deserialized as %r" % (where, ser[1] if ser[0] == "s" else ser, r), case))
    elif dump.get("M") != "boolean=b0" or dump.get("ERR") != "boolean=b0":
        vs.append(Violation("csv:roundtrip-status", "%s: deserialize returned %s, in_error %s" % (where, dump.get("M"), dump.get("ERR")), case))
    if run2.get("r") != "ok":
        vs.append(Violation("csv:line-by-line-failed", "%s: %s" % (where, run2), case))
    else:
        r2 = tab_strings(dump["R2"])
        if r2 != row:
            vs.append(Violation("csv:line-by-line:%s" % ncount, "%s: serialized as %r, fed line by line gives %r" % (where, ser[1] if ser[0] == "s" else ser, r2), case))
        elif dump.get("MORE") != "boolean=b0" or dump.get("ERR2") != "boolean=b0":
            vs.append(Violation("csv:line-by-line-status", "%s: after the last line more=%s in_error=%s" % (where, dump.get("MORE"), dump.get("ERR2")), case))
    return vs, True


# ------------------------------------------------------------------------------------------------
# utf8
U16 = [0x41, 0x7f, 0x80, 0xbf, 0xc2, 0xdf, 0xe0, 0xe2, 0xed, 0xef, 0xf0, 0xf4, 0xa0, 0x9f, 0x90, 0xff]
UPOS = [None, -1, 0, 1, 2, 3, 4, 5, MAX]
UINS = [0, 1, 2, 3, -1, MAX]


def ptext(p):
    return "int()" if p is None else ("(%d)" % p if p < 0 else str(p))


def utf8_gen(tier):
    def gen():
        n = 0
        L = 4 if tier == "thorough" else 3
        def inputs():
            for l in range(0, L + 1):
                for t in itertools.product(U16, repeat=l):
                    yield bytes(t)
            # well-formed text around the edges of every encoding length (1, 2, 3 and 4 bytes; every lead byte range of 4-byte forms)
            cps = [0x41, 0x7f, 0x80, 0x7ff, 0x800, 0xfff, 0x1000, 0xcfff, 0xd000, 0xd7ff, 0xe000, 0xfffd, 0xffff, 0x10000, 0x3ffff, 0x40000, 0x7ffff, 0x80000,
                   0xbffff, 0xc0000, 0xfffff, 0x100000, 0x10fffe, 0x10ffff]
            for c in cps:
                e = chr(c).encode("utf-8", "surrogatepass")
                yield e
                yield b"a" + e + b"b"
                yield e + e
            for c1 in cps[::3]:
                for c2 in cps[1::3]:
                    yield chr(c1).encode("utf-8", "surrogatepass") + b"-" + chr(c2).encode("utf-8", "surrogatepass")
            # U+0000 is a code point like any other: alone, repeated, and next to characters of every encoding length
            units = [b"\x00", b"a", "\u00e9".encode("utf-8"), "\u20ac".encode("utf-8"), "\U00010348".encode("utf-8")]
            for l in (1, 2, 3):
                for t in itertools.product(units, repeat=l):
                    if b"\x00" in t:
                        yield b"".join(t)
        for b in inputs():
            if True:
                ops = ["isolate", op_ctx(0, True), op_setvar("B", "s" + b.hex()),
                       op_run("import utf8; u = utf8(b); n = u.count(); rs = u.rawsize(); st = u.string(); em = u.empty();")]
                for p in UPOS:
                    ops.append(op_run("at = null; at = u.at(%s);" % ptext(p)))
                    ops.append(op_dump(0, "AT"))
                for p, q in ((0, 1), (1, 2), (1, MAX), (0, 0), (5, 1), (-1, 1), (None, 1), (MAX, MAX), (1, -1)):
                    ops.append(op_run("ss = null; ss = u.substr(%s, %s);" % (ptext(p), ptext(q))))
                    ops.append(op_dump(0, "SS"))
                for p in (0, 1, 4, -1, MAX):
                    ops.append(op_run("v = utf8(b); ok = v.insert(%s, 0x5a); vs = v.string(); vn = v.count(); v2 = utf8(b); ok2 = v2.insert(%s, 0x20ac); vs2 = v2.string();" % (ptext(p), ptext(p))))
                    ops.append(op_dump(0, "OK,VS,VN,OK2,VS2"))
                    ops.append(op_run("v = utf8(b); ok = v.remove(%s, 1); vs = v.string(); vn = v.count();" % ptext(p)))
                    ops.append(op_dump(0, "OK,VS,VN"))
                # insertion / concatenation of unicode strings: another string, and the string itself
                for p in UINS:
                    for src in ("w", "v"):
                        ops.append(op_run('v = utf8(b); w = utf8("Z\xc3\xa9"); ok = v.insert(%s, %s); vs = v.string(); vn = v.count(); vr = v.rawsize(); ws = w.string();' % (ptext(p), src)))
                        ops.append(op_dump(0, "OK,VS,VN,VR,WS"))
                for src in ("w", "v"):
                    ops.append(op_run('v = utf8(b); w = utf8("Z\xc3\xa9"); v2 = v.concat(%s); vs = v.string(); vn = v.count(); vr = v.rawsize(); ws = w.string();' % src))
                    ops.append(op_dump(0, "VS,VN,VR,WS"))
                ops.append(op_run("w = utf8(u); ws = w.append(65).string(); wu = w.toupper().string(); wc = w.count();"))
                ops.append(op_dump(0, "N,RS,ST,EM,WS,WC"))
                # a transform changes the content it finds, not what is appended afterwards
                ops.append(op_run('t1 = utf8(b); zz = t1.toupper(); p1 = t1.string(); zz = t1.append("cd\xc3\xa9"); q1 = t1.string(); '
                                  't2 = utf8(b); zz = t2.tolower(); p2 = t2.string(); zz = t2.append("CD"); q2 = t2.string(); '
                                  't3 = utf8(b); zz = t3.capitalize(); p3 = t3.string(); zz = t3.append(" xY"); q3 = t3.string(); '
                                  't4 = utf8(b); zz = t4.normalize(); p4 = t4.string(); zz = t4.append("  A  B"); q4 = t4.string(); '
                                  't5 = utf8(b); zz = t5.translit(); p5 = t5.string(); zz = t5.append("\xc3\xa9"); q5 = t5.string();'))
                ops.append(op_dump(0, "P1,Q1,P2,Q2,P3,Q3,P4,Q4,P5,Q5"))
                yield Case("u%d" % n, ops, {"kind": "utf8", "b": b.hex()})
                n += 1
    return gen


def sval(sym):
    if sym is None:
        return ("none", None)
    t, f, v = parse_symbol(sym)
    return v


def check_utf8(case, res, vs):
    """U+0000 is valid input like any other code point. The module keeps a character as its UTF-8 bytes packed in an integer and
    moves text through zero-terminated buffers, so it has no place for it: when every observation of a text with NULs is exactly
    what the independent decoder gives for the text *without* them, that is reported under one key of its own (a recorded
    finding); any other disagreement keeps its ordinary key."""
    b = bytes.fromhex(case.meta["b"])
    if b"\x00" not in b:
        return _check_utf8(case, res, vs, b)
    n0 = len(vs)
    vs1, _ = _check_utf8(case, res, list(vs), b)
    if len(vs1) == n0:
        return vs1, True
    vs2, _ = _check_utf8(case, res, list(vs), b.replace(b"\x00", b""))
    # (what remains against the text without NULs is the module's numeric convention, reported under its own two keys)
    if all(v.key in ("utf8:at:returns-utf8-bytes-not-code-point", "utf8:insert:takes-utf8-bytes-not-code-point") for v in vs2[n0:]):
        vs.extend(vs2[n0:])
        vs.append(Violation("utf8:nul-dropped", "%r: count / at / substr / insert / remove / string() are those of %r: U+0000 is dropped from the text (%s)" % (
            b, b.replace(b"\x00", b""), vs1[n0].key), case))
        return vs, True
    return vs1, True


def _check_utf8(case, res, vs, b):
    m = case.meta
    st = res["steps"]
    try:
        text = b.decode("utf-8")
        valid = True
    except UnicodeDecodeError:
        text, valid = None, False
    # totality is covered by generic_safety (crash / sanitizer); every step must be ok or a BLOC error
    for s in st:
        if s.get("r") not in ("ok", "rerr", "perr"):
            vs.append(Violation("utf8:not-total", "%r: %s" % (b, s), case))
            return vs, True
    if st[3].get("r") != "ok":
        if valid:
            vs.append(Violation("utf8:valid-rejected", "valid UTF-8 %r rejected: %s" % (b, st[3]), case))
        return vs, True
    # the transform family (last two steps)
    tdump = st[-1].get("vars", {})
    appended = {1: "cd\xc3\xa9".encode("latin-1"), 2: b"CD", 3: b" xY", 4: b"  A  B", 5: "\xc3\xa9".encode("latin-1")}
    tname = {1: "toupper", 2: "tolower", 3: "capitalize", 4: "normalize", 5: "translit"}
    if st[-2].get("r") == "ok":
        for k_ in appended:
            pv, qv = sval(tdump.get("P%d" % k_)), sval(tdump.get("Q%d" % k_))
            if pv[0] == "s" and qv[0] == "s" and qv[1] != pv[1] + appended[k_]:
                vs.append(Violation("utf8:transform-applied-to-later-append:%s" % tname[k_], "%r: after %s() the content is %r; append(%r) makes it %r" % (
                    b, tname[k_], pv[1], appended[k_], qv[1]), case))
    st = st[:-2]
    final = st[-1].get("vars", {})
    if not valid:
        return vs, True
    cps = [ord(c) for c in text]
    if sval(final.get("N")) != ("i", len(cps)):
        vs.append(Violation("utf8:count", "%r: count %r, Python says %d" % (b, final.get("N"), len(cps)), case))
    if sval(final.get("ST")) != ("s", b):
        vs.append(Violation("utf8:string", "%r: string() gives %r" % (b, final.get("ST")), case))
    if sval(final.get("RS")) != ("i", len(b)):
        vs.append(Violation("utf8:rawsize", "%r: rawsize %r" % (b, final.get("RS")), case))
    k = 4
    for p in UPOS:
        run, d = st[k], st[k + 1].get("vars", {})
        k += 2
        if p is not None and 0 <= p < len(cps):
            if run.get("r") != "ok" or sval(d.get("AT")) != ("i", cps[p]):
                packed = int.from_bytes(chr(cps[p]).encode("utf-8"), "big")
                key = "utf8:at:returns-utf8-bytes-not-code-point" if sval(d.get("AT")) == ("i", packed) else "utf8:at"
                vs.append(Violation(key, "%r: at(%d) gives %s %r, Python says code point %d" % (b, p, run.get("r"), d.get("AT"), cps[p]), case))
        elif run.get("r") == "ok" and sval(d.get("AT"))[0] == "i":
            vs.append(Violation("utf8:at-out-of-range", "%r: at(%r) returned %r for a string of %d code points" % (b, p, d.get("AT"), len(cps)), case))
    for p, q in ((0, 1), (1, 2), (1, MAX), (0, 0), (5, 1), (-1, 1), (None, 1), (MAX, MAX), (1, -1)):
        run, d = st[k], st[k + 1].get("vars", {})
        k += 2
        if p is not None and q is not None and 0 <= p <= len(cps) and q >= 0:
            want = "".join(chr(c) for c in cps[p:p + q]).encode("utf-8")
            if run.get("r") != "ok" or sval(d.get("SS")) != ("s", want):
                vs.append(Violation("utf8:substr", "%r: substr(%d,%d) gives %s %r, Python says %r" % (b, p, q, run.get("r"), d.get("SS"), want), case))
    for p in (0, 1, 4, -1, MAX):
        run, d = st[k], st[k + 1].get("vars", {})
        k += 2
        if 0 <= p <= len(cps):
            want = "".join(chr(c) for c in cps[:p] + [0x5a] + cps[p:]).encode("utf-8")
            if run.get("r") == "ok" and d.get("OK") == "boolean=b1" and sval(d.get("VS")) != ("s", want):
                vs.append(Violation("utf8:insert", "%r: insert(%d, 'Z') gives %r, Python says %r" % (b, p, d.get("VS"), want), case))
            if p < len(cps) and (run.get("r") != "ok" or d.get("OK") != "boolean=b1"):
                vs.append(Violation("utf8:insert-refused", "%r: insert(%d, 'Z') refused: %s %r" % (b, p, run, d.get("OK")), case))
            want2 = "".join(chr(c) for c in cps[:p] + [0x20ac] + cps[p:]).encode("utf-8")
            if run.get("r") == "ok" and d.get("OK2") == "boolean=b1" and sval(d.get("VS2")) != ("s", want2):
                raw2 = "".join(chr(c) for c in cps[:p]).encode("utf-8") + b"\x20\xac" + "".join(chr(c) for c in cps[p:]).encode("utf-8")
                key = "utf8:insert:takes-utf8-bytes-not-code-point" if sval(d.get("VS2")) in (("s", raw2), ("s", raw2.replace(b"\x20\xac", b"\x20"))) else "utf8:insert-code-point"
                vs.append(Violation(key, "%r: insert(%d, 0x20ac) gives %r, Python says %r" % (b, p, d.get("VS2"), want2), case))
        elif run.get("r") == "ok" and sval(d.get("VS")) != ("s", b):
            vs.append(Violation("utf8:insert-out-of-range", "%r: insert(%r, ..) out of range changed the content to %r" % (b, p, d.get("VS")), case))
        run, d = st[k], st[k + 1].get("vars", {})
        k += 2
        if 0 <= p < len(cps):
            want = "".join(chr(c) for c in cps[:p] + cps[p + 1:]).encode("utf-8")
            if run.get("r") != "ok" or d.get("OK") != "boolean=b1" or sval(d.get("VS")) != ("s", want):
                vs.append(Violation("utf8:remove", "%r: remove(%d,1) gives %s %r %r, Python says %r" % (b, p, run.get("r"), d.get("OK"), d.get("VS"), want), case))
        elif run.get("r") == "ok" and sval(d.get("VS")) != ("s", b):
            vs.append(Violation("utf8:remove-out-of-range", "%r: remove(%r,1) out of range changed the content to %r" % (b, p, d.get("VS")), case))
    zs = "Z\u00e9"
    for p in UINS:
        for src in ("w", "v"):
            run, d = st[k], st[k + 1].get("vars", {})
            k += 2
            ins = zs if src == "w" else text
            if run.get("r") == "ok":
                got = sval(d.get("VS"))
                if got[0] == "s":
                    if sval(d.get("VR")) != ("i", len(got[1])):
                        vs.append(Violation("utf8:insert-string:rawsize", "%r: after insert(%r, %s) rawsize is %r but string() has %d bytes" % (b, p, src, d.get("VR"), len(got[1])), case))
                    try:
                        if sval(d.get("VN")) != ("i", len(got[1].decode("utf-8"))):
                            vs.append(Violation("utf8:insert-string:count", "%r: after insert(%r, %s) count is %r, content %r" % (b, p, src, d.get("VN"), got[1]), case))
                    except UnicodeDecodeError:
                        vs.append(Violation("utf8:insert-string:invalid", "%r: after insert(%r, %s) the content %r is not valid UTF-8" % (b, p, src, got[1]), case))
                if 0 <= p <= len(cps):
                    want = (text[:p] + ins + text[p:]).encode("utf-8")
                    if got != ("s", want):
                        vs.append(Violation("utf8:insert-string:%s" % ("self" if src == "v" else "other"), "%r: insert(%d, %s) gives %r, Python says %r" % (
                            b, p, "itself" if src == "v" else "utf8(%r)" % zs, d.get("VS"), want), case))
                elif got != ("s", b):
                    vs.append(Violation("utf8:insert-string-out-of-range", "%r: insert(%r, ..) out of range changed the content to %r" % (b, p, d.get("VS")), case))
                if sval(d.get("WS")) != ("s", zs.encode("utf-8")):
                    vs.append(Violation("utf8:insert-string:argument-changed", "%r: insert(%r, w) changed w to %r" % (b, p, d.get("WS")), case))
            elif 0 <= p <= len(cps):
                vs.append(Violation("utf8:insert-string-refused", "%r: insert(%d, %s) refused: %s" % (b, p, src, run), case))
    for src in ("w", "v"):
        run, d = st[k], st[k + 1].get("vars", {})
        k += 2
        ins = zs if src == "w" else text
        want = (text + ins).encode("utf-8")
        if run.get("r") != "ok" or sval(d.get("VS")) != ("s", want) or sval(d.get("VN")) != ("i", len(text + ins)) or sval(d.get("VR")) != ("i", len(want)):
            vs.append(Violation("utf8:concat:%s" % ("self" if src == "v" else "other"), "%r: concat(%s) gives %s %r count %r rawsize %r, Python says %r" % (
                b, src, run.get("r"), d.get("VS"), d.get("VN"), d.get("VR"), want), case))
        if run.get("r") == "ok" and sval(d.get("WS")) != ("s", zs.encode("utf-8")):
            vs.append(Violation("utf8:concat:argument-changed", "%r: concat(w) changed w to %r" % (b, d.get("WS")), case))
    if sval(final.get("WS")) != ("s", b + b"A"):
        vs.append(Violation("utf8:copy-append", "%r: copy + append(65) gives %r" % (b, final.get("WS")), case))
    return vs, True


# ------------------------------------------------------------------------------------------------
# file
FILE_INIT = b"0123456789\nsecond\n"
FILE_MODES = ["r", "w", "a", "r+", "w+", "a+"]
FILE_OPS = [("ws", b"ab\n"), ("ws", b"x"), ("ws", b""), ("wb", b"\x00\xff\n"), ("ss", 0), ("ss", 3), ("ss", 100), ("se", 0), ("se", -2), ("sc", -1), ("sc", 2),
            ("rd", 0), ("rd", 2), ("rd", 100), ("rb", 3), ("rl",), ("pos",), ("fl",)]
FILE_OPS_QUICK = [("ws", b"ab\n"), ("ws", b"x"), ("wb", b"\x00\xff\n"), ("ss", 0), ("ss", 3), ("se", 0), ("sc", -1), ("rd", 2), ("rd", 100), ("rl",), ("pos",), ("fl",)]


def file_op_text(o):
    k = o[0]
    if k == "ws":
        return "r = f.write(ws%d);" % {b"ab\n": 0, b"x": 1, b"": 2}[o[1]]
    if k == "wb":
        return "r = f.write(wb0);"
    if k == "ss":
        return "r = f.seekset(%d);" % o[1]
    if k == "se":
        return "r = f.seekend(%s);" % ptext(o[1])
    if k == "sc":
        return "r = f.seekcur(%s);" % ptext(o[1])
    if k == "rd":
        return 'v = "?"; r = f.read(v, %d);' % o[1]
    if k == "rb":
        return 'w = raw("?"); r = f.read(w, %d);' % o[1]
    if k == "rl":
        return 'v = "?"; r = f.readln(v);'
    if k == "pos":
        return "r = f.position();"
    if k == "fl":
        return "r = f.flush();"
    raise ValueError(o)


def file_gen(tier):
    ops_alpha = FILE_OPS if tier == "thorough" else FILE_OPS_QUICK
    maxlen = 4 if tier == "thorough" else 3

    def gen():
        n = 0
        for mode in FILE_MODES:
            for l in range(1, maxlen + 1):
                for seq in itertools.product(range(len(ops_alpha)), repeat=l):
                    if tier == "thorough" and l == 4 and (seq[0] * 7 + seq[1] * 3 + seq[2] + seq[3]) % 3:
                        continue
                    path = os.path.join(sdir(), "f-%d-%d.bin" % (os.getpid(), n % 64))
                    steps = [ops_alpha[i] for i in seq]
                    ops = ["isolate", op_ctx(0, True), "mkfile %s %s" % (hx(path), hx(FILE_INIT)),
                           op_setvar("WS0", "s" + b"ab\n".hex()), op_setvar("WS1", "s78"), op_setvar("WS2", "s"), op_setvar("WB0", "x00ff0a"),
                           op_setvar("PATH", "s" + path.encode().hex()),
                           op_run('import file; f = file(path, "%s"); r = 0; v = ""; w = raw();' % mode)]
                    last = None
                    expanded = []
                    for o in steps:
                        kind = "w" if o[0] in ("ws", "wb") else "r" if o[0] in ("rd", "rb", "rl") else None
                        if kind and last and kind != last:
                            # ISO C: a positioning call (or flush after output) between output and input
                            expanded.append(("sc", 0))
                        if kind:
                            last = kind
                        elif o[0] in ("ss", "se", "sc", "fl"):
                            last = None if o[0] != "fl" else last
                        expanded.append(o)
                    for o in expanded:
                        ops.append(op_run(file_op_text(o)))
                        ops.append(op_dump(0, "R,V,W"))
                    ops.append(op_run("r = f.close();"))
                    yield Case("f%d" % n, ops, {"kind": "file", "mode": mode, "path": path, "ops": [[o[0], o[1].hex() if isinstance(o[1], bytes) else o[1]] if len(o) > 1 else [o[0]] for o in expanded]})
                    n += 1
    return gen


# big files: sizes and read requests around the module's internal buffer (4096) and multiples of it
BIG_SIZES = [4095, 4096, 4097, 8191, 8192, 8193, 10000]
BIG_READS = [1, 4095, 4096, 4097, 8192, 8193, 9000, 20000]


def big_content(size, text):
    if text:
        return bytes((33 + (i * 7 + i // 95) % 90) for i in range(size))          # printable, no line break, no NUL
    return bytes(((i * 7 + 3) % 251) for i in range(size))


def bigfile_gen(tier):
    def gen():
        n = 0
        sizes = BIG_SIZES if tier == "thorough" else [4096, 4097, 8193, 10000]
        for size in sizes:
            for text in (False, True):
                data = big_content(size, text)
                for nreq in BIG_READS:
                    path = os.path.join(sdir(), "b-%d-%d.bin" % (os.getpid(), n % 64))
                    var, init = ("sv", '""') if text else ("xv", "raw()")
                    prog = ('import file; f = file(path, "w"); n1 = f.write(c); cl = f.close(); g = file(path, "r"); %s = %s; k = g.read(%s, %d); '
                            'rest = %s; k2 = g.read(rest, 100000); cl2 = g.close(); first = %s;' % (var, init, var, nreq, init, var))
                    ops = ["isolate", op_ctx(0, True), "rmfile %s" % hx(path), op_setvar("PATH", "s" + path.encode().hex()),
                           op_setvar("C", ("s" if text else "x") + data.hex()), op_run(prog), op_dump(0, "N1,K,K2,FIRST,REST")]
                    yield Case("b%d" % n, ops, {"kind": "bigfile", "size": size, "text": text, "nreq": nreq, "path": path})
                    n += 1
                # one long line, then a short one
                if text:
                    path = os.path.join(sdir(), "b-%d-%d.bin" % (os.getpid(), n % 64))
                    content = data + b"\ntail\n"
                    # readln hands a long line back in chunks (documented: ended by LF or limited by the internal buffer): nothing may be lost
                    prog = ('import file; f = file(path, "w"); n1 = f.write(c); cl = f.close(); g = file(path, "r"); acc = ""; cnt = 0; piece = ""; longest = 0; '
                            'while g.readln(piece) loop acc.concat(piece); cnt = cnt + 1; longest = max(longest, piece.count()); if cnt > 60 then break; end if; end loop; '
                            'cl2 = g.close();')
                    ops = ["isolate", op_ctx(0, True), "rmfile %s" % hx(path), op_setvar("PATH", "s" + path.encode().hex()),
                           op_setvar("C", "s" + content.hex()), op_run(prog), op_dump(0, "N1,ACC,CNT,LONGEST")]
                    yield Case("b%d" % n, ops, {"kind": "bigline", "size": size, "path": path})
                    n += 1
    return gen


def check_big(case, res, vs):
    m = case.meta
    st = res["steps"]
    run, dump = st[-2], st[-1].get("vars", {})
    if run.get("r") != "ok":
        vs.append(Violation("file:big:failed", "%s: %s" % (m, run), case))
        return vs, True
    if m["kind"] == "bigline":
        content = big_content(m["size"], True) + b"\ntail\n"
        acc = sval(dump.get("ACC"))
        if acc != ("s", content):
            got = acc[1] if acc[0] == "s" else b""
            vs.append(Violation("file:big:readln", "a line of %d bytes and a short one read back by readln in %s pieces: %d bytes instead of %d (first difference at %s)" % (
                m["size"], dump.get("CNT"), len(got), len(content), next((i for i in range(min(len(got), len(content))) if got[i] != content[i]), "length")), case))
        return vs, True
    data = big_content(m["size"], m["text"])
    tag = "s" if m["text"] else "x"
    want_first = data[:m["nreq"]]
    first, rest = sval(dump.get("FIRST")), sval(dump.get("REST"))
    where = "file of %d bytes, read(%s, %d)" % (m["size"], "string" if m["text"] else "bytes", m["nreq"])
    if sval(dump.get("N1")) != ("i", len(data)):
        vs.append(Violation("file:big:write-count", "%s: write returned %s" % (where, dump.get("N1")), case))
    if first != (tag, want_first) or sval(dump.get("K")) != ("i", len(want_first)):
        got = first[1] if first[0] == tag else b""
        vs.append(Violation("file:big:read:%s" % ("string" if m["text"] else "bytes"), "%s returned %s and %d bytes, expected %d (first difference at %s)" % (
            where, dump.get("K"), len(got), len(want_first), next((i for i in range(min(len(got), len(want_first))) if got[i] != want_first[i]), "length")), case))
    elif rest != (tag, data[m["nreq"]:]) and not (len(data) <= m["nreq"]):
        vs.append(Violation("file:big:read-rest", "%s then read(100000): %d bytes, expected %d" % (where, len(rest[1]) if rest[0] == tag else -1, len(data) - m["nreq"]), case))
    try:
        with open(m["path"], "rb") as f:
            ondisk = f.read()
    except OSError:
        ondisk = None
    if ondisk is not None and ondisk != data:
        vs.append(Violation("file:big:independent-reader", "%s: the file holds %d bytes, %d were written" % (where, len(ondisk), len(data)), case))
    return vs, True


class Twin:
    """The same operations on a plain byte buffer with POSIX semantics (what unbuffered I/O would do)."""
    def __init__(self, mode):
        self.mode = mode
        self.r = mode in ("r", "r+", "w+", "a+")
        self.w = mode in ("w", "a", "r+", "w+", "a+")
        self.append = mode.startswith("a")
        self.data = bytearray(b"" if mode.startswith("w") else FILE_INIT)
        self.pos = 0
        self.pos_known = not self.append      # the initial position in append modes is implementation defined

    def write(self, b):
        if not self.w:
            return None
        if self.append and b:
            # O_APPEND moves to the end when bytes are written; a write of nothing writes nothing and moves nothing
            self.pos = len(self.data)
            self.pos_known = True
        if self.pos > len(self.data):
            self.data.extend(b"\x00" * (self.pos - len(self.data))) if b else None
        if b:
            self.data[self.pos:self.pos + len(b)] = b
            self.pos += len(b)
        return len(b)

    def read(self, n):
        if not self.r:
            return None
        b = bytes(self.data[self.pos:self.pos + n]) if n > 0 else b""
        self.pos += len(b)
        return b

    def readln(self):
        if not self.r:
            return None
        if self.pos >= len(self.data):
            return False
        e = self.data.find(b"\n", self.pos)
        e = len(self.data) if e < 0 else e + 1
        b = bytes(self.data[self.pos:e])
        self.pos = e
        return b

    def seek(self, how, off):
        base = {"ss": 0, "sc": self.pos, "se": len(self.data)}[how]
        t = base + off
        if t < 0:
            return False
        self.pos = t
        self.pos_known = True if how != "sc" else self.pos_known
        return True


def check_file(case, res, vs):
    m = case.meta
    st = res["steps"]
    tw = Twin(m["mode"])
    opened = st[8].get("r") == "ok"
    where = "mode %s ops %s" % (m["mode"], m["ops"])
    if not opened:
        vs.append(Violation("file:open-failed", "%s: %s" % (where, st[8]), case))
        return vs, True
    k = 9
    for o in m["ops"]:
        run, d = st[k], st[k + 1].get("vars", {})
        k += 2
        kind = o[0]
        if run.get("r") not in ("ok", "rerr"):
            vs.append(Violation("file:not-total:%s" % kind, "%s: %s" % (where, run), case))
            return vs, True
        r = sval(d.get("R"))
        if kind in ("ws", "wb"):
            b = bytes.fromhex(o[1])
            want = tw.write(b)
            if want is None:
                if run.get("r") == "ok":
                    vs.append(Violation("file:write-on-readonly", "%s: write accepted on a file opened for reading" % where, case))
            elif run.get("r") != "ok" or r != ("i", want):
                vs.append(Violation("file:write-count", "%s: write returned %s %r, expected %d" % (where, run.get("r"), r, want), case))
        elif kind in ("rd", "rb"):
            want = tw.read(o[1])
            if want is None:
                if run.get("r") == "ok":
                    vs.append(Violation("file:read-on-writeonly", "%s: read accepted on a file opened for writing only" % where, case))
            elif not tw.pos_known:
                pass
            else:
                got = sval(d.get("V" if kind == "rd" else "W"))
                if run.get("r") != "ok" or r != ("i", len(want)) or got[1] != want:
                    vs.append(Violation("file:read-content", "%s: read(%d) returned %s %r %r, the twin file gives %r" % (where, o[1], run.get("r"), r, got, want), case))
        elif kind == "rl":
            want = tw.readln()
            if want is None:
                if run.get("r") == "ok":
                    vs.append(Violation("file:read-on-writeonly", "%s: readln accepted on a file opened for writing only" % where, case))
            elif not tw.pos_known:
                pass
            elif want is False:
                if r != ("b", False):
                    vs.append(Violation("file:readln-eof", "%s: readln at end of file returned %r" % (where, r), case))
            else:
                got = sval(d.get("V"))
                if run.get("r") != "ok" or r != ("b", True) or got != ("s", want):
                    vs.append(Violation("file:readln-content", "%s: readln returned %s %r %r, the twin file gives %r" % (where, run.get("r"), r, got, want), case))
        elif kind in ("ss", "sc", "se"):
            okk = tw.seek(kind, o[1])
        elif kind == "pos":
            if tw.pos_known and (run.get("r") != "ok" or r != ("i", tw.pos)):
                vs.append(Violation("file:position", "%s: position() returned %r, the twin file is at %d" % (where, r, tw.pos), case))
    try:
        with open(m["path"], "rb") as fh:       # independent reader of the same file
            content = fh.read()
    except OSError as e:
        content = b"<unreadable: %s>" % str(e).encode()
    if bytes(tw.data) != content:
        vs.append(Violation("file:final-content:%s" % m["mode"], "%s: the file holds %r, the twin file %r" % (where, content, bytes(tw.data)), case))
    return vs, True


# ------------------------------------------------------------------------------------------------
# sqlite3
SQL_VALUES = [
    ("0", ("i", 0)), ("-1", ("i", -1)), ("9223372036854775807", ("i", MAX)), ("(-9223372036854775807-1)", ("i", -MAX - 1)),
    ("0.5", ("d", 0.5)), ("vneg0", ("d", -0.0)), ("1e308", ("d", 1e308)), ("vtiny", ("d", 5e-324)),
    ('""', ("s", b"")), ('"a"', ("s", b"a")), ("vquote", ("s", b"q'\"x")), ("vnul", ("s", b"a\x00b")), ("vhigh", ("s", b"\xff\xc3\xa9")),
    ('raw("")', ("x", b"")), ("raw(1, 0)", ("x", b"\x00")), ("raw(2, 255)", ("x", b"\xff\xff")),
    ("int()", ("N", "i")), ("num()", ("N", "d")), ("str()", ("N", "s")), ("raw()", ("N", "x")), ("true", ("b", True)),
]
SQL_SET = [op_setvar("VNEG0", "d-0x0p+0"), op_setvar("VTINY", "d0x0.0000000000001p-1022"), op_setvar("VQUOTE", "s" + b"q'\"x".hex()),
           op_setvar("VNUL", "s" + b"a\x00b".hex()), op_setvar("VHIGH", "s" + b"\xff\xc3\xa9".hex())]


NULL_OF = {"i": "int()", "d": "num()", "s": "str()", "x": "raw()", "b": "bool()", "N": "int()"}


def sql_gen(tier):
    def gen():
        n = 0
        vals = SQL_VALUES
        tuples = [(a,) for a in vals] + [(a, b) for a in vals for b in vals]
        if tier == "thorough":
            tuples += [(a, b, c) for a in vals for b in vals for c in vals]
        else:
            core = vals[::3]
            tuples += [(a, b, c) for a in core for b in core for c in core]
        for t in tuples:
            path = os.path.join(sdir(), "d-%d-%d.db" % (os.getpid(), n % 64))
            cols = ["a", "b", "c"][:len(t)]
            sql = "insert into t(%s) values(%s)" % (",".join(cols), ",".join("?" * len(t)))
            prog = ('import sqlite3; d = sqlite3(path); ok0 = d.exec("drop table if exists t"); ok1 = d.exec("create table t(a,b,c)"); '
                    'ok2 = d.exec("%s", tup(%s)); q = d.query("select %s from t"); nrows = q.count(); '
                    # the same values through a prepared statement: bind + execute into a second table, fetch from the first
                    'ok3 = d.exec("create table t2(a,b,c)"); p2 = d.prepare("%s"); b2 = d.bind(tup(%s)); '
                    # statements between bind and execute: the bound tuple was a temporary, its memory is reused by now
                    'zz = "x" + "another-temporary-string-that-reuses-the-memory-0000" + str(123456789); w = tab(10, "zzzzzzzzzzzzzzzzzzzzzzzzzzzzzzzzzzzzzzzzzzzz"); '
                    'e2 = d.execute(); '
                    # the same prepared statement bound and executed again: nulls where the first bind had values, then the values again
                    'b3 = d.bind(tup(%s)); e3 = d.execute(); b4 = d.bind(tup(%s)); e4 = d.execute(); z2 = d.finalize(); '
                    'q3 = d.query("select %s from t2 order by rowid"); '
                    'q2 = d.query("select %s from t2 order by rowid limit 1"); p1 = d.prepare("select %s from t"); e1 = d.execute(); rv = tup(); f1 = d.fetch(rv); '
                    'rv2 = tup(); f2 = d.fetch(rv2); z1 = d.finalize(); cl = d.close();' % (
                        sql, ", ".join(v[0] for v in t), ",".join(cols + ["typeof(%s)" % c for c in cols]),
                        sql.replace("into t(", "into t2("), ", ".join(v[0] for v in t), ", ".join(NULL_OF[v[1][0]] for v in t), ", ".join(v[0] for v in t),
                        ",".join(["typeof(%s)" % c for c in cols]), ",".join(cols + ["typeof(%s)" % c for c in cols]),
                        ",".join(cols + ["typeof(%s)" % c for c in cols])))
            ops = ["isolate", op_ctx(0, True), "rmfile %s" % hx(path), op_setvar("PATH", "s" + path.encode().hex())] + SQL_SET + [op_run(prog), op_dump(0, "OK1,OK2,Q,NROWS,Q2,RV,F1,F2,P1,P2,B2,E1,E2,B3,E3,B4,E4,Q3")]
            yield Case("s%d" % n, ops, {"kind": "sql", "vals": [[v[1][0], v[1][1].hex() if isinstance(v[1][1], bytes) else (v[1][1].hex() if isinstance(v[1][1], float) else v[1][1])] for v in t],
                                        "exprs": [v[0] for v in t], "path": path})
            n += 1
    return gen


def check_sql(case, res, vs):
    m = case.meta
    st = res["steps"]
    run, dump = st[-2], st[-1].get("vars", {})
    where = "tuple (%s)" % ", ".join(m["exprs"])
    if run.get("r") != "ok":
        vs.append(Violation("sqlite3:exec-failed", "%s: %s" % (where, run), case))
        return vs, True
    if dump.get("OK2") != "boolean=b1" or dump.get("NROWS") != "integer=i1":
        vs.append(Violation("sqlite3:insert-status", "%s: exec returned %s, %s rows" % (where, dump.get("OK2"), dump.get("NROWS")), case))
        return vs, True
    # independent reader: the driver step 'sqlread' cannot use Python here; read the database file now
    path = m["path"]
    rows = None
    try:
        con = pysqlite.connect(path)
        con.text_factory = bytes
        ncol = len(m["vals"])
        cols = ["a", "b", "c"][:ncol]
        rows = []
        for rw in con.execute("select %s from t" % ",".join(cols + ["typeof(%s)" % c for c in cols])):
            cells = []
            for i in range(ncol):
                ty = rw[ncol + i]
                ty = ty.decode() if isinstance(ty, bytes) else ty
                v = rw[i]
                if ty == "integer":
                    cells.append([ty, str(v)])
                elif ty == "real":
                    cells.append([ty, float(v).hex()])
                elif ty in ("text", "blob"):
                    cells.append([ty, bytes(v).hex()])
                else:
                    cells.append([ty, None])
            rows.append(cells)
        con.close()
    except Exception as e:
        rows = None
        st[-1]["pyerr"] = repr(e)
    want = []
    for kind, v in m["vals"]:
        if kind == "i":
            want.append(("integer", v))
        elif kind == "d":
            want.append(("real", float.fromhex(v)))
        elif kind == "s":
            want.append(("text", bytes.fromhex(v)))
        elif kind == "x":
            want.append(("blob", bytes.fromhex(v)))
        elif kind == "b":
            want.append(("integer", 1))
        else:
            want.append(("null", None))
    # through the module's own query()
    try:
        t, f, q = parse_symbol(dump["Q"])
        row = q[2][0][2]
    except Exception as e:
        vs.append(Violation("sqlite3:query-dump", "%s: cannot read query result %r (%s)" % (where, dump.get("Q"), e), case))
        return vs, True
    n = len(want)
    for i, (ty, v) in enumerate(want):
        item, tyitem = row[i], row[n + i]
        tyname = tyitem[1].decode() if tyitem[0] == "s" else "?"
        cls = ty
        if tyname != ty:
            vs.append(Violation("sqlite3:stored-type:%s" % cls, "%s: item %d stored with SQL type %s, expected %s" % (where, i + 1, tyname, ty), case))
            continue
        okk = True
        if ty == "integer":
            okk = item == ("i", v)
        elif ty == "real":
            okk = item[0] == "d" and struct.pack("<d", item[1]) == struct.pack("<d", v)
        elif ty == "text":
            okk = item == ("s", v)
        elif ty == "blob":
            okk = item == ("x", v)
        else:
            okk = item[0] == "N"
        if not okk:
            vs.append(Violation("sqlite3:query-value:%s" % cls, "%s: item %d read back by query() as %r, bound %r" % (where, i + 1, item, v), case))
    # the prepared-statement path: what bind() + execute() stored (read by query) and what fetch() hands back equal what query() gave
    for name in ("P1", "P2", "B2", "E1", "E2", "F1"):
        if dump.get(name) != "boolean=b1":
            vs.append(Violation("sqlite3:prepared-status:%s" % name.lower(), "%s: %s is %s" % (where, name, dump.get(name)), case))
    if dump.get("F2") != "boolean=b0":
        vs.append(Violation("sqlite3:fetch-past-end", "%s: a second fetch returned %s for a table of one row" % (where, dump.get("F2")), case))
    try:
        row2 = parse_symbol(dump["Q2"])[2][2][0][2]
        rowf = parse_symbol(dump["RV"])[2][2]
    except Exception as e:
        row2 = rowf = None
        vs.append(Violation("sqlite3:prepared-dump", "%s: cannot read %r / %r (%s)" % (where, dump.get("Q2"), dump.get("RV"), e), case))
    if row2 is not None:
        for i in range(2 * n):
            if repr(row2[i]) != repr(row[i]):
                vs.append(Violation("sqlite3:bind-value:%s" % want[i % n][0], "%s: item %d bound to a prepared statement reads back as %r, through exec as %r" % (where, i % n + 1, row2[i], row[i]), case))
                break
        for i in range(2 * n):
            if repr(rowf[i]) != repr(row[i]):
                vs.append(Violation("sqlite3:fetch-value:%s" % want[i % n][0], "%s: item %d fetched as %r, query() gives %r" % (where, i % n + 1, rowf[i], row[i]), case))
                break
    # re-binding: row 2 of t2 is all NULL, row 3 holds the values again
    for name in ("B3", "E3", "B4", "E4"):
        if dump.get(name) != "boolean=b1":
            vs.append(Violation("sqlite3:prepared-status:%s" % name.lower(), "%s: %s is %s" % (where, name, dump.get(name)), case))
    try:
        q3 = parse_symbol(dump["Q3"])[2][2]
        types = [[it[1].decode() if it[0] == "s" else "?" for it in r[2]] for r in q3]
    except Exception as e:
        types = None
        vs.append(Violation("sqlite3:prepared-dump", "%s: cannot read %r (%s)" % (where, dump.get("Q3"), e), case))
    if types is not None:
        want_types = [w[0] for w in want]
        if len(types) != 3 or types[0] != want_types or types[2] != want_types or types[1] != ["null"] * n:
            vs.append(Violation("sqlite3:rebind", "%s: the statement bound three times (values, nulls, values) stored rows of types %s, expected %s / nulls / %s" % (
                where, types, want_types, want_types), case))
    # independent reader (Python sqlite3) - executed by the driver process? no: by this checker, from the rows captured by the 'sqlread' step
    if rows is None:
        vs.append(Violation("sqlite3:independent-reader", "%s: the database file could not be read: %s" % (where, st[-1]), case))
        return vs, True
    if len(rows) != 1:
        vs.append(Violation("sqlite3:independent-rows", "%s: %d rows in the file" % (where, len(rows)), case))
        return vs, True
    prow = rows[0]
    for i, (ty, v) in enumerate(want):
        cell = prow[i]           # [sqltype, hex or repr]
        if cell[0] != ty:
            vs.append(Violation("sqlite3:file-type:%s" % ty, "%s: item %d is %s in the file, expected %s" % (where, i + 1, cell[0], ty), case))
            continue
        if ty == "integer" and int(cell[1]) != v:
            vs.append(Violation("sqlite3:file-value:integer", "%s: item %d is %s in the file, bound %d" % (where, i + 1, cell[1], v), case))
        if ty == "real" and struct.pack("<d", float.fromhex(cell[1])) != struct.pack("<d", v):
            vs.append(Violation("sqlite3:file-value:real", "%s: item %d is %s in the file, bound %r" % (where, i + 1, cell[1], v), case))
        if ty in ("text", "blob") and bytes.fromhex(cell[1]) != v:
            vs.append(Violation("sqlite3:file-value:%s" % ty, "%s: item %d is %r in the file, bound %r" % (where, i + 1, bytes.fromhex(cell[1]), v), case))
    return vs, True


# ------------------------------------------------------------------------------------------------
# argument lattice for every method
ARGV = {
    "I": ["int()", "-1", "0", "1", "9223372036854775807", "4294967296"],
    "L": ["str()", '""', '"x"', '"/nonexistent/dir/file"', "vnul"],
    "X": ["raw()", 'raw("")', "raw(2, 255)"],
    "R": ["tup()", "tup(1)", 'tup("a", 2.5, raw(1, 0), int())'],
    "TL": ["tab()", 'tab(0, "")', 'tab(2, "a")'],
    "TB": ["tab()", "tab(1, true)"],
    "TN": ["tab()", "tab(1, 1.5)"],
    "O": ["o", "o2", "onull", "fwrong()", "vwrong", "fown()"],
    # variables handed over as INOUT arguments, in every state a script can leave them in
    "VL": ["sv", "svn", "svf"], "VX": ["xv", "xvf"], "VR": ["rv"], "VT": ["tv", "tvf", "tvn", "tvo"],
}
METHODS = {
    "csv": ('csv(",")', [("serialize", ["R"]), ("serialize", ["TL"]), ("serialize", ["TB"]), ("serialize", ["TN"]), ("deserialize", ["L", "VT"]),
                         ("deserialize_next", ["L", "VT"]), ("in_error", []), ("error_pos", [])]),
    "utf8": ('utf8("héllo")', [("empty", []), ("count", []), ("rawsize", []), ("reserve", ["I"]), ("clear", []), ("append", ["I"]), ("append", ["L"]),
                               ("string", []), ("at", ["I"]), ("remove", ["I", "I"]), ("insert", ["I", "I"]), ("substr", ["I"]), ("substr", ["I", "I"]),
                               ("toupper", []), ("tolower", []), ("normalize", []), ("capitalize", []), ("translit", []),
                               ("concat", ["O"]), ("insert", ["I", "O"]), ("=utf8", ["O"])]),
    "file": ('file(path, "w+")', [("close", []), ("open", ["L", "L"]), ("write", ["L"]), ("write", ["X"]), ("flush", []), ("readln", ["VL"]), ("read", ["VL", "I"]),
                                  ("read", ["VX", "I"]), ("seekset", ["I"]), ("seekcur", ["I"]), ("seekend", ["I"]), ("position", []), ("isopen", []), ("mode", []),
                                  ("filename", []), ("dirname", []), ("basename", []), ("stat", []), ("stat", ["L"]), ("dir", ["L"]), ("separator", []),
                                  ("dirname", ["L"]), ("basename", ["L"])]),
    "sqlite3": ('sqlite3(path)', [("open", ["L"]), ("close", []), ("isopen", []), ("query", ["L"]), ("query", ["L", "R"]), ("exec", ["L"]), ("exec", ["L", "R"]),
                                  ("errmsg", []), ("prepare", ["L"]), ("bind", ["R"]), ("execute", []), ("header", []), ("fetch", ["VR"]), ("finalize", [])]),
}
STATES = {"fresh": "", "closed": "zz = o.close();", "null-object": "o = null;",
          # sqlite3 only: a statement is prepared / was stepped / the connection was closed or reopened under it
          "prepared": 'zz = o.prepare("select 1 union select 2");', "stepped": 'zz = o.prepare("select 1 union select 2"); zz = o.execute(); zz = o.fetch(rv);',
          "prepared-closed": 'zz = o.prepare("select 1"); zz = o.close();', "prepared-reopened": 'zz = o.prepare("select 1"); zz = o.close(); zz = o.open(path);',
          "finalized": 'zz = o.prepare("select 1"); zz = o.finalize();',
          # file only: an open object is opened again on something that cannot be opened
          "failed-reopen": 'zz = o.write("abc"); zz = o.open("/nonexistent/dir/file", "r");', "failed-reopen-w": 'zz = o.open("/nonexistent/dir/file", "w");',
          "reopened-read": 'zz = o.write("abc"); zz = o.open(path, "r");'}
SQL_L = ['"select 1"', '"create table if not exists z(a)"', '"insert into z values(?)"', '"not sql at all"', '""', "str()"]


def lattice_gen(tier):
    def gen():
        n = 0
        for mod, (ctor, methods) in METHODS.items():
            for sname, sprep in STATES.items():
                if sname == "closed" and mod in ("csv", "utf8"):
                    continue
                if sname in ("prepared", "stepped", "prepared-closed", "prepared-reopened", "finalized") and mod != "sqlite3":
                    continue
                if sname in ("failed-reopen", "failed-reopen-w", "reopened-read") and mod != "file":
                    continue
                for mname, kinds in methods:
                    doms = []
                    for kd in kinds:
                        if mname == "reserve":
                            doms.append(["int()", "-1", "0", "1", "65536"])      # a capacity is an allocation size: capped
                        elif mod == "sqlite3" and kd == "L":
                            doms.append(SQL_L)
                        else:
                            doms.append(ARGV[kd])
                    for args in itertools.product(*doms) if doms else [()]:
                        path = os.path.join(sdir(), "l-%d-%d" % (os.getpid(), n % 64))
                        prog = ('import %s; o = %s; sv = ""; xv = raw(); rv = tup(); tv = tab(0, ""); zz = 0; svn = str(); svf = "abc"; xvf = raw("ab"); tvf = tab(1, "a"); '
                                'tvn = tab(2, str()); tvo:table; %s' % (mod, ctor, sprep))
                        if mod == "utf8":
                            # objects to offer where a utf8 object is expected: own, another one, null, and objects of another module that
                            # reach the call through a function whose declared result type is utf8
                            prog += (' import csv; o2 = utf8("w\xc3\xb6rld"); onull = o2; onull = null; function fwrong() return utf8 is begin return csv(","); end; '
                                     'function fown() return utf8 is begin return utf8("fn"); end; vwrong = fwrong();')
                        call = "zz = o.%s(%s);" % (mname, ", ".join(args))
                        if mname.startswith("="):
                            call = "zz = %s(%s);" % (mname[1:], ", ".join(args))
                        ops = ["isolate", op_ctx(0, True), "rmfile %s" % hx(path), op_setvar("PATH", "s" + path.encode().hex()), op_setvar("VNUL", "s" + b"a\x00b".hex()),
                               op_run(prog), op_run(call), op_run(call), op_run("zz = 1; o = null;")]
                        yield Case("m%d" % n, ops, {"kind": "lattice", "mod": mod, "state": sname, "call": call})
                        n += 1
    return gen


def check_lattice(case, res, vs):
    m = case.meta
    for s in res["steps"]:
        if s.get("r") not in ("ok", "rerr", "perr"):
            vs.append(Violation("%s:not-total:%s" % (m["mod"], m["call"].split("(")[0]), "%s in state %s: %s" % (m["call"], m["state"], s), case))
    if res["steps"][-1].get("r") != "ok":
        vs.append(Violation("%s:context-unusable" % m["mod"], "after %s the context does not run a plain statement: %s" % (m["call"], res["steps"][-1]), case))
    return vs, True


# the cursor of a prepared statement as a state machine: every sequence of bind / execute / fetch against a three-row table
def cursor_model(seq):
    param, status, rows, out = 1, "new", [], []
    for o in seq:
        if o in ("B1", "B2", "B4"):
            param, status, rows = int(o[1]), "new", []
            out.append("BTRUE")
        elif o == "E":
            rows = [a for a in (1, 2, 3) if a >= param]
            status = "row" if rows else "done"
            out.append("ETRUE")
        else:
            if status == "row":
                out.append("FTRUE%d" % rows[0])
                rows = rows[1:]
                if not rows:
                    status = "done"
            else:
                out.append("FFALSE0")
    return "".join(x + "\n" for x in out)


def cursor_gen(tier):
    def gen():
        n = 0
        alphabet = ["E", "F", "B1", "B2", "B4"]
        text = {"E": 'print "E" d.execute();', "F": 'rv = tup(0); print "F" d.fetch(rv) rv@1;', "B1": 'print "B" d.bind(tup(1));', "B2": 'print "B" d.bind(tup(2));',
                "B4": 'print "B" d.bind(tup(4));'}
        setup = ('import sqlite3; d = sqlite3(":memory:"); zz = d.exec("create table t(a)"); zz = d.exec("insert into t values(1)"); zz = d.exec("insert into t values(3)"); '
                 'zz = d.exec("insert into t values(2)"); zz = d.prepare("select a from t where a >= ? order by a"); zz = d.bind(tup(1)); rv = tup(0);')
        for l in range(1, (7 if tier == "thorough" else 5) + 1):
            for seq in itertools.product(alphabet, repeat=l):
                if l > 5 and seq.count("B4") + seq.count("B2") > 1:
                    continue
                prog = " ".join(text[o] for o in seq)
                ops = ["isolate", op_ctx(0, True), op_run(setup), op_run(prog), op_out(0)]
                yield Case("cu%d" % n, ops, {"kind": "cursor", "seq": list(seq)})
                n += 1
    return gen


# what an object reports about its own state after a failed operation
STATE_PROGS = [
    ("sqlite3-failed-open", 'import sqlite3; d = sqlite3(); print d.isopen(); print d.open("/nonexistent/dir/x.db"); print d.isopen(); print d.close(); print d.open(":memory:") d.isopen(); '
     'print d.open("/nonexistent/dir/y.db") d.isopen();', "FALSE\nFALSE\nFALSE\nFALSE\nTRUETRUE\nFALSEFALSE\n"),
    ("sqlite3-closed", 'import sqlite3; d = sqlite3(":memory:"); print d.isopen(); print d.close() d.isopen(); print d.close();', "TRUE\nTRUEFALSE\nFALSE\n"),
    ("file-failed-open", 'import file; f = file(); print f.isopen(); print f.open("/nonexistent/dir/f", "r") != 0; print f.isopen(); print f.close() != 0;', None),
    ("file-failed-reopen", 'import file; f = file(path, "w"); print f.isopen(); zz = f.open("/nonexistent/dir/f", "r"); print f.isopen(); '
     'begin zz = f.write("x"); print "written"; exception when others then print "refused"; end;', None),
]


def state_gen(tier):
    def gen():
        for n, (tag, prog, want) in enumerate(STATE_PROGS):
            path = os.path.join(sdir(), "st-%d-%d" % (os.getpid(), n))
            ops = ["isolate", op_ctx(0, True), "rmfile %s" % hx(path), op_setvar("PATH", "s" + path.encode().hex()), op_run(prog), op_out(0)]
            yield Case("st%d" % n, ops, {"kind": "state", "tag": tag, "prog": prog, "want": want})
    return gen


def check_state(case, res, vs):
    m = case.meta
    st = res["steps"]
    out = unhex(st[5].get("out", "")).decode("latin-1")
    if m["want"] is not None:
        if st[4].get("r") != "ok" or out != m["want"]:
            vs.append(Violation("state:%s" % m["tag"], "%s gives %s %r, expected %r" % (m["prog"], st[4].get("r"), out, m["want"]), case))
    else:
        # the reports of one object must be consistent: not open after a failed open, and then nothing is written
        lines = out.split("\n")
        if st[4].get("r") not in ("ok", "rerr"):
            vs.append(Violation("state:%s" % m["tag"], "%s -> %s" % (m["prog"], st[4]), case))
        elif m["tag"] == "file-failed-open" and lines[:3] != ["FALSE", "TRUE", "FALSE"]:
            vs.append(Violation("state:%s" % m["tag"], "%s prints %r" % (m["prog"], out), case))
        elif m["tag"] == "file-failed-reopen" and not (lines[:2] == ["TRUE", "FALSE"] and (len(lines) < 3 or lines[2] in ("refused", ""))):
            vs.append(Violation("state:%s" % m["tag"], "%s prints %r" % (m["prog"], out), case))
    return vs, True


def check_cursor(case, res, vs):
    m = case.meta
    st = res["steps"]
    out = unhex(st[4].get("out", "")).decode("latin-1")
    want = cursor_model(m["seq"])
    if st[2].get("r") != "ok":
        vs.append(Violation("harness:cursor-setup", "%s" % st[2], case))
    elif st[3].get("r") != "ok" or out != want:
        k = 0
        a, b = out.split("\n"), want.split("\n")
        while k < min(len(a), len(b)) and a[k] == b[k]:
            k += 1
        prev = m["seq"][k - 1] if k > 0 else "start"
        vs.append(Violation("sqlite3:cursor:%s-after-%s" % (m["seq"][k] if k < len(m["seq"]) else "end", prev),
                            "prepared statement over rows 1,2,3: the sequence %s gives %s %r, expected %r" % (" ".join(m["seq"]), st[3].get("r"), out, want), case))
    return vs, True


def check(case, res):
    vs = generic_safety(case, res)
    if res.get("st") != "done":
        return vs, True
    k = case.meta["kind"]
    if k == "cursor":
        return check_cursor(case, res, vs)
    if k == "state":
        return check_state(case, res, vs)
    if k == "csv":
        return check_csv(case, res, vs)
    if k == "utf8":
        return check_utf8(case, res, vs)
    if k == "file":
        return check_file(case, res, vs)
    if k in ("bigfile", "bigline"):
        return check_big(case, res, vs)
    if k == "sql":
        return check_sql(case, res, vs)
    return check_lattice(case, res, vs)


def run(tier):
    t0 = time.time()
    deadline = t0 + (3000 if tier == "thorough" else 420)
    build.ensure("asan", bins=("vdrv",))
    total = Result()
    for name, g in (("csv", csv_gen(tier)), ("utf8", utf8_gen(tier)), ("file", file_gen(tier)), ("bigfile", bigfile_gen(tier)), ("sqlite3", sql_gen(tier)), ("lattice", lattice_gen(tier)), ("cursor", cursor_gen(tier)), ("state", state_gen(tier))):
        total.merge(explore("%s-%s-%s" % (PROP, tier, name), g, check, chunk=60, deadline=deadline))
    rule = ("csv: all rows of 1 field (length <=%d), 2 fields, 3 short fields over {a, space, separator, quote, LF, CR} x 4 formats, one-shot and line by line; "
            "utf8: all byte strings of length <=%d over 16 class bytes x positions; file: all sequences of <=%d operations x 6 open modes against a twin; "
            "sqlite3: all tuples of <=%d items over 21 values, read back by query() and by Python's sqlite3; every method of the four modules x argument "
            "lattice x object state. Each case runs in a process of its own" % (3 if tier == "thorough" else 2, 4 if tier == "thorough" else 3,
                                                                             4 if tier == "thorough" else 3, 3 if tier == "thorough" else 2))
    rc = finish(PROP, tier, total, check, rule, t0, assumptions=["Python codecs (UTF-8 validity), Python sqlite3 and plain byte-buffer file semantics as independent readers",
                                                              "ISO C rule respected: a positioning call between output and input on the same stream",
                                                              "size arguments capped (allocation exhaustion is out of scope)",
                                                              "plplot is not built in this sandbox and is not claimed"])
    import shutil
    shutil.rmtree(sdir(), ignore_errors=True)
    return rc
