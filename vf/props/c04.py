"""C04 — null obeys three-valued logic regardless of how the null was produced.

Complete enumeration of {true,false,null} x provenance for every logical operator, relational operators with a
null side for every scalar type, and conditions; each expression is evaluated once and then three more times by
the same program node inside a loop. Oracle: Kleene tables.
"""
import time

from ..core import Case, Violation, explore, finish, generic_safety, op_ctx, op_run, op_dump, op_out, unhex

PROP = "C04"

PRELUDE = """
vt = true; vf = false; vn = bool(); vu = null;
tt = tab(1, true); tf = tab(1, false); tn = tab(1, bool());
rr = tup(true, false, bool());
one = 1; two = 2; ni = int();
vd = 2.5; nd = num(); vs = "b"; ns = str(); vb = raw("b"); nb = raw(); vc = 2 * ii; nc = num() * ii;
function ft() return boolean is begin return true; end;
function ff() return boolean is begin return false; end;
function fn() return boolean is begin return bool(); end;
function fu() return undefined is begin return null; end;
vtb = tab(2, 1); ntb = tab(); ntt = tab(1, 1); ntt = null; vtp = tup(1, "a"); ntp = tup();
tbb = tab(1, true); forall fe in tbb loop nop; end loop;
function fnn() return boolean is begin return null; end;
function foff(i) return boolean is begin if i > 0 then return true; end if; end;
"""

ATOMS = {
    "T": ["true", "bool(1)", "vt", "ft()", "tt.at(0)", "rr@1", "(one == one)", "(not vf)", "on", "foff(1)"],
    "F": ["false", "bool(0)", "vf", "ff()", "tf.at(0)", "rr@2", "(one == two)", "(not vt)", "off"],
    "N": ["null", "bool()", "vn", "vu", "fn()", "fu()", "tn.at(0)", "rr@3", "(one == ni)", "(not vn)", "(null == null)", "fnn()", "foff(0)", "fe"],
}
SMALL = {"T": ["true", "vt"], "F": ["false", "vf"], "N": ["null", "vn", "vu"]}

BINOPS = ["and", "&&", "or", "||", "xor"]
NAME = {"T": "TRUE", "F": "FALSE", "N": "null"}


def kleene(op, a, b):
    if op in ("and", "&&"):
        if a == "F" or b == "F":
            return "F"
        if a == "T" and b == "T":
            return "T"
        return "N"
    if op in ("or", "||"):
        if a == "T" or b == "T":
            return "T"
        if a == "F" and b == "F":
            return "F"
        return "N"
    if op == "xor":
        if a == "N" or b == "N":
            return "N"
        return "T" if a != b else "F"
    raise ValueError(op)


def knot(a):
    return {"T": "F", "F": "T", "N": "N"}[a]


PROBE = ('print null; print isnull(null) typeof(null); print (null or false) (null and true) (not null); print vn vu; '
         'print isnull(vn) isnull(vu) typeof(vn) typeof(vu); print tn.at(0) rr@3; print vt vf tt.at(0) tf.at(0) rr@1 rr@2; '
         'print ft() ff() fn() fu() fnn() foff(0) foff(1); print fe isnull(fe) typeof(fe);')
PROBE_EXPECT = ("null\nTRUEundefined\nnullnullnull\nnullnull\nTRUETRUEbooleanundefined\nnullnull\n"
                "TRUEFALSETRUEFALSETRUEFALSE\nTRUEFALSEnullnullnullnullTRUE\nnullTRUEboolean\n")

# relational: (type family, non-null atoms, null atoms)
REL = {
    "integer": (["1", "two"], ["int()", "ni"]),
    "decimal": (["1.5", "vd"], ["num()", "nd"]),
    "string": (['"a"', "vs"], ["str()", "ns"]),
    "bytes": (['raw("a")', "vb"], ["raw()", "nb"]),
    "boolean": (["true", "vt"], ["bool()", "vn"]),
    "complex": (["ii", "vc"], ["nc"]),
    "table": (["tab(2, 1)", "vtb"], ["tab()", "ntb", "ntt"]),
    "tuple": (['tup(1, "a")', "vtp"], ["tup()", "ntp"]),
}
UNIV_NULL = ["null", "vu", "fu()"]
RELOPS = ["==", "!=", "<", "<=", ">", ">="]
COMPAT = {("integer", "decimal"), ("decimal", "integer")}


def expr_prog(e):
    return "print (%s); for k in 1 to 3 loop print (%s); end loop;" % (e, e)


def rel_prog(e):
    """a comparison with a null side is a *boolean* null: it prints null and combines like one"""
    return expr_prog(e) + " print typeof(%s); print ((%s) or true) ((%s) and false) (not (%s)) ((%s) xor true);" % (e, e, e, e, e)


def gen_factory(tier):
    def gen():
        n = 0
        # 1. logical operators over all provenance pairs
        for ka, la in ATOMS.items():
            for a in la:
                for kb, lb in ATOMS.items():
                    for b in lb:
                        for op in BINOPS:
                            e = "%s %s %s" % (a, op, b)
                            yield Case("l%d" % n, [op_ctx(), op_run(PRELUDE), op_run(expr_prog(e)), op_out(), op_run(PROBE), op_out()],
                                       {"kind": "logic", "e": e, "want": kleene(op, ka, kb), "op": op, "cls": ka + kb})
                            n += 1
        for ka, la in ATOMS.items():
            for a in la:
                for op in ("not", "!"):
                    e = "%s %s" % (op, a)
                    yield Case("u%d" % n, [op_ctx(), op_run(PRELUDE), op_run(expr_prog(e)), op_out(), op_run(PROBE), op_out()],
                               {"kind": "logic", "e": e, "want": knot(ka), "op": op, "cls": ka})
                    n += 1
        # 1b. the same node evaluated with a partner that changes from one evaluation to the next (null, TRUE, FALSE, null, FALSE, TRUE):
        # what one evaluation produced must not show in the next
        seqk = ["N", "T", "F", "N", "F", "T"]
        pk = ("function pk(k) return boolean is begin if k == 2 or k == 6 then return true; end if; if k == 3 or k == 5 then return false; end if; "
              "return bool(); end; ")
        for ka, la in ATOMS.items():
            for a in la:
                for op in BINOPS:
                    for side in ("left", "right"):
                        e = ("%s %s pk(k)" % (a, op)) if side == "left" else ("pk(k) %s %s" % (op, a))
                        want = "".join(NAME[kleene(op, ka, sk) if side == "left" else kleene(op, sk, ka)] + "\n" for sk in seqk)
                        p = pk + "for k in 1 to 6 loop print (%s); end loop;" % e
                        yield Case("v%d" % n, [op_ctx(), op_run(PRELUDE), op_run(p), op_out(), op_run(PROBE), op_out()],
                                   {"kind": "cond", "e": p, "want": want, "stmt": "literal-output", "untyped": False, "vary": "%s:%s" % (op, side)})
                        n += 1
        # 2. two expressions in one loop body: evaluating E1 must not change what E2 means
        small = []
        for ka, la in SMALL.items():
            for a in la:
                for kb, lb in SMALL.items():
                    for b in lb:
                        for op in (["and", "or", "xor"] if tier == "thorough" else ["or", "and"]):
                            small.append(("%s %s %s" % (a, op, b), kleene(op, ka, kb)))
        if tier != "thorough":
            small = [s for s in small if "null" in s[0] or "vn" in s[0]]
        for e1, w1 in small:
            for e2, w2 in small:
                p = "for k in 1 to 3 loop x = (%s); print x; print (%s); end loop;" % (e1, e2)
                yield Case("p%d" % n, [op_ctx(), op_run(PRELUDE), op_run(p), op_out(), op_run(PROBE), op_out()],
                           {"kind": "pair", "e": e1 + " ;; " + e2, "w1": w1, "w2": w2})
                n += 1
        # 3. conditions
        conds = []
        for ka, la in ATOMS.items():
            for a in la:
                conds.append((a, ka))
        for ka, la in SMALL.items():
            for a in la:
                for kb, lb in SMALL.items():
                    for b in lb:
                        for op in ["and", "or", "xor"]:
                            conds.append(("%s %s %s" % (a, op, b), kleene(op, ka, kb)))
        for c, w in conds:
            p = ('if %s then print "T"; else print "F"; end if; if vf then print "x"; elsif %s then print "T"; else print "F"; end if; '
                 'print "E";' % (c, c))
            yield Case("c%d" % n, [op_ctx(), op_run(PRELUDE), op_run(p), op_out(), op_run(PROBE), op_out()],
                       {"kind": "cond", "e": c, "want": w, "stmt": "if", "untyped": c in UNIV_NULL})
            n += 1
            p = 'n = 0; while %s loop print "T"; n = n + 1; if n >= 2 then break; end if; end loop; print "E";' % c
            yield Case("c%d" % n, [op_ctx(), op_run(PRELUDE), op_run(p), op_out(), op_run(PROBE), op_out()],
                       {"kind": "cond", "e": c, "want": w, "stmt": "while", "untyped": c in UNIV_NULL})
            n += 1
        # 3b. a boolean variable (static type boolean) that receives the value while the statement runs: the condition
        #     node was compiled for a boolean and meets whatever the atom yields, including the untyped null
        for ka, la in ATOMS.items():
            for a in la:
                p = ('go = true; n = 0; while go loop n = n + 1; print "T"; if n == 1 then go = %s; end if; if n > 3 then break; end if; '
                     'end loop; print "E";' % a)
                yield Case("c%d" % n, [op_ctx(), op_run(PRELUDE), op_run(p), op_out(), op_run(PROBE), op_out()],
                           {"kind": "cond", "e": a, "want": ka, "stmt": "while-reset", "untyped": False})
                n += 1
                p = ('go = true; for k in 1 to 2 loop if go then print "T"; else print "F"; end if; go = %s; end loop; '
                     'if not go then print "t"; elsif go then print "T"; else print "F"; end if; print "E";' % a)
                yield Case("c%d" % n, [op_ctx(), op_run(PRELUDE), op_run(p), op_out(), op_run(PROBE), op_out()],
                           {"kind": "cond", "e": a, "want": ka, "stmt": "if-reset", "untyped": False})
                n += 1
        # 3c. in-place methods whose receiver is the literal null work on a value of their own: the literal stays null
        nullrecv = [
            ('print null.concat("a"); print null.concat("b"); for k in 1 to 3 loop print null.concat("c"); end loop; print null;', "a\nb\nc\nc\nc\nnull\n"),
            ("print null.concat(65); for k in 1 to 2 loop print null.concat(66).concat(67); end loop; print isnull(null);", "A\nBC\nBC\nTRUE\n"),
            ('function fnc(s) return string is begin return null.concat(s); end; print fnc("p"); print fnc("q"); print fnc("r");', "p\nq\nr\n"),
            ('function fnl() return boolean is begin x = null.concat("z"); return isnull(null); end; print fnl(); print fnl();', "TRUE\nTRUE\n"),
            ('for k in 1 to 2 loop print (null).concat("w"); print isnull((null)); end loop;', "w\nTRUE\nw\nTRUE\n"),
        ]
        for p, want in nullrecv:
            yield Case("c%d" % n, [op_ctx(), op_run(PRELUDE), op_run(p), op_out(), op_run(PROBE), op_out()],
                       {"kind": "cond", "e": p, "want": want, "stmt": "literal-output", "untyped": False})
            n += 1
        # 4. relational operators with a null side
        for tx, (nnx, nlx) in REL.items():
            for ty, (nny, nly) in REL.items():
                if tx != ty and (tx, ty) not in COMPAT:
                    continue
                for op in RELOPS:
                    ref = "%s %s %s" % (nnx[0], op, nny[0])
                    pairs = []
                    for x in nnx + nlx + UNIV_NULL:
                        for y in nny + nly + UNIV_NULL:
                            xn = x in nlx or x in UNIV_NULL
                            yn = y in nly or y in UNIV_NULL
                            if not (xn or yn):
                                continue
                            pairs.append("%s %s %s" % (x, op, y))
                    for e in pairs:
                        yield Case("r%d" % n, [op_ctx(), op_run(PRELUDE), op_run("print (%s);" % ref), op_out(),
                                               op_run(rel_prog(e)), op_out(), op_run(PROBE), op_out()],
                                   {"kind": "rel", "e": e, "ref": ref, "op": op, "types": tx + "," + ty})
                        n += 1
    return gen


def text(step):
    return unhex(step.get("out", "")).decode("latin-1")


def check(case, res):
    vs = generic_safety(case, res)
    if res.get("st") != "done":
        return vs, True
    m = case.meta
    st = res["steps"]
    if st[1].get("r") != "ok":
        vs.append(Violation("prelude", "prelude failed: %s" % st[1], case))
        return vs, False
    kind = m["kind"]
    if kind in ("logic", "pair", "cond"):
        run, out, probe_run, probe_out = st[2], text(st[3]), st[4], text(st[5])
        if run.get("r") == "perr" and kind == "cond" and m["untyped"]:
            # a condition of undefined static type may be refused at compile time (WHILE does): not a matter of 3VL
            return vs, False
        if run.get("r") != "ok":
            vs.append(Violation("%s:rejected:%s" % (kind, m.get("op", "")), "%s: %s is not evaluated: %s" % (kind, m["e"], run), case))
        else:
            if kind == "logic":
                want = (NAME[m["want"]] + "\n") * 4
                if out != want:
                    first = out.split("\n")[0] == NAME[m["want"]]
                    cls = "reeval" if first else "value"
                    vs.append(Violation("logic:%s:%s:%s" % (m["op"], m["cls"], cls),
                                        "%s printed %r, expected %r" % (m["e"], out, want), case))
            elif kind == "pair":
                want = (NAME[m["w1"]] + "\n" + NAME[m["w2"]] + "\n") * 3
                if out != want:
                    vs.append(Violation("pair:interference", "%s printed %r, expected %r" % (m["e"], out, want), case))
            else:
                if m["stmt"] == "literal-output":
                    want = m["want"]
                elif m["stmt"] == "while-reset":
                    want = "T\nT\nT\nT\nE\n" if m["want"] == "T" else "T\nE\n"
                elif m["stmt"] == "if-reset":
                    want = {"T": "T\nT\nT\nE\n", "F": "T\nF\nt\nE\n", "N": "T\nF\nF\nE\n"}[m["want"]]
                else:
                    want = "T\nT\nE\n" if m["want"] == "T" else ("F\nF\nE\n" if m["stmt"] == "if" else "E\n")
                if out != want:
                    key = "cond:%s" % (m["want"] if m["stmt"] != "literal-output" else "null-literal-receiver")
                    if m.get("vary"):
                        key = "logic:varying-partner:%s" % m["vary"]
                    vs.append(Violation(key, "condition %s gave %r, expected %r" % (m["e"], out, want), case))
        if probe_run.get("r") != "ok" or probe_out != PROBE_EXPECT:
            vs.append(Violation("after:%s" % kind, "after %s the probes gave %r %r, expected %r" % (m["e"], probe_run, probe_out, PROBE_EXPECT), case))
        return vs, True
    if kind == "rel":
        ref_run, ref_out = st[2], text(st[3])
        run, out, probe_run, probe_out = st[4], text(st[5]), st[6], text(st[7])
        applicable = ref_run.get("r") == "ok" and ref_out in ("TRUE\n", "FALSE\n")
        if not applicable:
            return vs, False
        if run.get("r") != "ok":
            vs.append(Violation("rel:%s:%s:rejected" % (m["op"], m["types"]), "%s rejected (%s) although %s is accepted" % (m["e"], run, m["ref"]), case))
        elif out != "null\n" * 4 + "boolean\nTRUEFALSEnullnull\n":
            vs.append(Violation("rel:%s:%s:value" % (m["op"], m["types"]), "%s printed %r, expected null x4, then boolean, then TRUE FALSE null null" % (m["e"], out), case))
        if probe_run.get("r") != "ok" or probe_out != PROBE_EXPECT:
            vs.append(Violation("after:rel", "after %s the probes gave %r %r" % (m["e"], probe_run, probe_out), case))
        return vs, True
    return vs, False


def run(tier):
    t0 = time.time()
    res = explore(PROP + "-" + tier, gen_factory(tier), check, chunk=100, deadline=t0 + 900)
    from ..core import explore_gcc
    res.merge(explore_gcc(PROP + "-" + tier, gen_factory(tier), check, chunk=100, deadline=t0 + 1200))
    rule = ("all pairs of {true,false,null} x provenance (constant, typed constructor, variable, undefined-type variable, function result, "
            "table element, tuple item, result of not/comparison) for and && or || xor, not/!; every expression printed once and three more "
            "times by the same node inside a loop; pairs of expressions in one loop body; if/elsif/while conditions; relational operators "
            "with a null side for every scalar type and every null provenance; Kleene tables as oracle. Non-trivial: the expression was "
            "accepted and evaluated (relational: the operator applies to the operand types)")
    return finish(PROP, tier, res, check, rule, t0, assumptions=["Kleene truth tables", "clang 14 ASan+UBSan"])
