"""Common machinery: cases, the parallel exhaustive runner, violations, known findings, evidence."""
import hashlib
import json
import multiprocessing
import os
import subprocess
import sys
import tempfile
import time

from . import build

VERIF = build.VERIF
SEED = int(os.environ.get("VERIF_SEED", "0") or 0)
NWORK = int(os.environ.get("VERIF_JOBS", "0") or 0) or min(16, os.cpu_count() or 4)


def hx(b):
    if isinstance(b, str):
        b = b.encode("latin-1")
    return "x" + b.hex()


def unhex(s):
    return bytes.fromhex(s)


class Case:
    __slots__ = ("id", "ops", "meta")

    def __init__(self, cid, ops, meta=None):
        self.id = cid
        self.ops = ops
        self.meta = meta

    def text(self):
        return "C %s\n%s\n.\n" % (self.id, "\n".join(self.ops))


# --- op builders -----------------------------------------------------------------------------
def op_ctx(slot=0, trusted=True):
    return "ctx %d %d" % (slot, 1 if trusted else 0)


def op_run(text, slot=0, route="cpp"):
    return "run %d %s %s" % (slot, route, hx(text))


def op_expr(text, slot=0):
    return "expr %d %s" % (slot, hx(text + ";"))


def op_dump(slot=0, names="*"):
    return "dump %d %s" % (slot, names)


def op_out(slot=0):
    return "out %d" % slot


def op_setvar(name, spec, slot=0):
    return "setvar %d %s %s" % (slot, name.upper(), spec)


# --- running a batch through vdrv ------------------------------------------------------------
_bins = {}
_TREE = ["asan"]       # the build the driver currently runs against


def bins():
    t = _TREE[0]
    if t not in _bins:
        _bins[t] = build.ensure(t)
    return _bins[t]


class tree:
    """with tree("gcc"): ... runs the enclosed batches / explorations against another build of the same sources"""
    def __init__(self, name):
        self.name = name

    def __enter__(self):
        self.old = _TREE[0]
        _TREE[0] = self.name
        bins()
        return self

    def __exit__(self, *a):
        _TREE[0] = self.old
        return False


def scratch_dir():
    d = os.path.join(build.BUILD, "scratch")
    os.makedirs(d, exist_ok=True)
    return d


def run_batch(cases, cpu_ms=2000, vdrv=None, env=None):
    """Run cases through one vdrv process; returns the parsed result objects in order."""
    if not cases:
        return []
    vdrv = vdrv or bins()["vdrv"]
    fd, path = tempfile.mkstemp(prefix="cases-", suffix=".txt", dir=scratch_dir())
    try:
        with os.fdopen(fd, "w") as f:
            for c in cases:
                f.write(c.text())
        # scripts name files relative to the working directory (sqlite3.open("select 1")): keep those out of /verif
        cwd = os.path.join(scratch_dir(), "cwd")
        os.makedirs(cwd, exist_ok=True)
        p = subprocess.run([vdrv, path, str(cpu_ms)], stdout=subprocess.PIPE, stderr=subprocess.PIPE,
                           env=env or build.run_env(_TREE[0]), cwd=cwd)
        out = p.stdout.decode("utf-8", errors="replace").splitlines()
        res = []
        for line in out:
            if not line.startswith("{"):
                continue
            try:
                res.append(json.loads(line))
            except ValueError:
                res.append({"id": "?", "st": "garbled", "raw": line[:2000], "steps": [], "ubsan": []})
        if len(res) != len(cases):
            by = {r.get("id"): r for r in res}
            res = [by.get(c.id, {"id": c.id, "st": "missing", "steps": [], "ubsan": [],
                                 "stderr": p.stderr.decode(errors="replace")[-2000:]}) for c in cases]
        return res
    finally:
        try:
            os.unlink(path)
        except OSError:
            pass


class Violation:
    __slots__ = ("key", "msg", "case", "detail")

    def __init__(self, key, msg, case=None, detail=None):
        self.key = key
        self.msg = msg
        self.case = case
        self.detail = detail

    def to_json(self):
        return {"key": self.key, "msg": self.msg, "case_id": self.case.id if self.case else None,
                "ops": self.case.ops if self.case else None, "meta": self.case.meta if self.case else None,
                "detail": self.detail}


def _digest(obj):
    return hashlib.blake2b(json.dumps(obj, sort_keys=True).encode(), digest_size=8).digest()


def generic_safety(case, res):
    """Outcome classes every property shares: crash, hang, foreign exception, sanitizer report."""
    v = []
    st = res.get("st")
    if st == "crash":
        site = crash_site(res)
        v.append(Violation("crash:" + site.rsplit(":", 1)[0], "process died (signal %s) at %s" % (res.get("sig"), site), case,
                           {"stderr": res.get("stderr", "")[-3000:]}))
    elif st == "hang":
        v.append(Violation("hang", "CPU watchdog: case did not finish", case))
    elif st != "done":
        v.append(Violation("harness:" + str(st), "harness did not return a result", case, res))
    for u in res.get("ubsan", []):
        v.append(Violation("ubsan:" + u.rsplit(":", 1)[0], "UndefinedBehaviorSanitizer: " + u, case))
    for s in res.get("steps", []):
        if s.get("r") == "foreign":
            v.append(Violation("foreign:" + s.get("type", "?"), "foreign exception escaped: %s %s" % (s.get("type"), s.get("msg")), case))
        if s.get("leak") == 1:
            v.append(Violation("leak", "LeakSanitizer reported a leak", case))
    return v


def crash_site(res):
    """First frame inside the repository from a sanitizer report, as 'kind@file:line'."""
    err = res.get("stderr", "") or ""
    kind = "signal%s" % res.get("sig")
    for line in err.splitlines():
        if "ERROR: AddressSanitizer:" in line:
            kind = line.split("AddressSanitizer:")[1].strip().split(" ")[0]
            break
        if "terminate called" in line or "terminating" in line:
            kind = "terminate"
    site = "?"
    for line in err.splitlines():
        line = line.strip()
        if line.startswith("#") and ("/blocc/" in line or "/modules/" in line or "/apps/" in line or "/harness/" in line):
            loc = line.split(" ")[-1]
            for mark in ("/blocc/", "/modules/", "/apps/", "/harness/"):
                if mark in loc:
                    loc = mark[1:] + loc.split(mark, 1)[1]
                    break
            loc = loc.split(":")
            site = ":".join(loc[:2])
            if "/harness/" in line or site.startswith("harness/"):
                continue
            break
    return "%s@%s" % (kind, site)


# --- the parallel exhaustive explorer ----------------------------------------------------------
_JOB = {}


def _worker(wid):
    (nw, gen, check, chunk, cpu_ms, deadline, state_of, collect) = _JOB["args"]
    collected = {}
    stats = dict(evaluations=0, transitions=0, nontrivial=0, capped=False)
    digests = set()
    viols = {}
    samples = []
    buf = []
    idx = 0

    def flush():
        results = run_batch(buf, cpu_ms)
        for c, r in zip(buf, results):
            stats["evaluations"] += 1
            stats["transitions"] += len(r.get("steps", []))
            if state_of:
                for d in state_of(c, r):
                    digests.add(_digest(d))
            else:
                digests.add(_digest([r.get("st"), r.get("steps"), r.get("ubsan")]))
            try:
                vs, nontriv = check(c, r)
            except Exception as e:  # an oracle bug must be loud, never a silent pass
                import traceback
                vs, nontriv = [Violation("oracle-exception:" + type(e).__name__, traceback.format_exc()[-1500:], c)], False
            if nontriv:
                stats["nontrivial"] += 1
            if collect:
                for key, payload in collect(c, r):
                    old = collected.get(key)
                    if old is None or _order(payload) < _order(old):
                        collected[key] = payload
            for v in vs:
                e = viols.setdefault(v.key, {"count": 0, "first": None})
                e["count"] += 1
                if e["first"] is None:
                    e["first"] = (v, r)
            if len(samples) < 3 and stats["evaluations"] % 97 == 1:
                samples.append({"case": c.ops, "result": _trim(r)})
        del buf[:]

    for c in gen():
        k = idx // chunk
        idx += 1
        if k % nw != wid:
            continue
        if _TREE[0] != "asan" and isinstance(c.meta, dict):
            c.meta["_tree"] = _TREE[0]
        buf.append(c)
        if len(buf) >= chunk:
            flush()
            if deadline and time.time() > deadline:
                stats["capped"] = True
                break
    if buf and not stats["capped"]:
        flush()
    stats["generated"] = idx
    stats["collected"] = collected
    return (stats, digests, viols, samples)


def _order(payload):
    r = repr(payload)
    return (len(r), r)


def _trim(r, n=600):
    s = json.dumps(r)
    if len(s) <= n:
        return r
    return {"trimmed": s[:n]}


class Result:
    def __init__(self):
        self.evaluations = 0
        self.transitions = 0
        self.nontrivial = 0
        self.digests = set()
        self.viols = {}
        self.samples = []
        self.capped = False
        self.parts = []
        self.collected = {}

    def merge(self, other):
        self.evaluations += other.evaluations
        self.transitions += other.transitions
        self.nontrivial += other.nontrivial
        self.digests |= other.digests
        for k, e in other.viols.items():
            m = self.viols.setdefault(k, {"count": 0, "first": None})
            m["count"] += e["count"]
            if m["first"] is None:
                m["first"] = e["first"]
        self.samples += other.samples
        self.capped = self.capped or other.capped
        self.parts += other.parts


def explore(name, gen, check, chunk=300, cpu_ms=2000, deadline=None, state_of=None, nworkers=None, collect=None):
    """Run every case of gen() (a deterministic generator function) through the driver on all cores.

    check(case, result) -> (list of Violation, nontrivial: bool)
    """
    bins()
    nw = nworkers or NWORK
    t0 = time.time()
    ctx = multiprocessing.get_context("fork")
    _JOB["args"] = (nw, gen, check, chunk, cpu_ms, deadline, state_of, collect)
    args = list(range(nw))
    res = Result()
    with ctx.Pool(nw) as pool:
        for (stats, digests, viols, samples) in pool.imap_unordered(_worker, args):
            res.evaluations += stats["evaluations"]
            res.transitions += stats["transitions"]
            res.nontrivial += stats["nontrivial"]
            res.capped = res.capped or stats["capped"]
            res.digests |= digests
            for key, payload in stats.get("collected", {}).items():
                old = res.collected.get(key)
                if old is None or _order(payload) < _order(old):
                    res.collected[key] = payload
            for k, e in viols.items():
                m = res.viols.setdefault(k, {"count": 0, "first": None})
                m["count"] += e["count"]
                if m["first"] is None or (e["first"] and len(e["first"][0].case.text()) < len(m["first"][0].case.text())):
                    m["first"] = e["first"]
            res.samples += samples
    res.parts.append({"part": name, "cases": res.evaluations, "distinct_outcomes": len(res.digests),
                      "wall_s": round(time.time() - t0, 1), "capped": res.capped})
    sys.stderr.write("[%s] %d cases, %d distinct outcomes, %d violation keys, %.1fs%s\n" % (
        name, res.evaluations, len(res.digests), len(res.viols), time.time() - t0, " (CAPPED)" if res.capped else ""))
    return res


# --- known findings, reporting, evidence ---------------------------------------------------------
def load_known(prop):
    path = os.path.join(VERIF, "KNOWN_FINDINGS.txt")
    known = {}
    if os.path.exists(path):
        for line in open(path):
            line = line.strip()
            if not line.startswith("finding:"):
                continue
            body = line[len("finding:"):].strip()
            head, _, desc = body.partition(" :: ")
            parts = head.split()
            p = None
            key = None
            for i, tok in enumerate(parts):
                if tok.startswith("property="):
                    p = tok[len("property="):]
                if tok.startswith("key="):
                    key = " ".join(parts[i:])[len("key="):]
                    break
            if p == prop and key:
                known[key] = desc
    return known


def explore_gcc(name, gen, check, **kw):
    """the same exploration against the gcc -O2 build (no sanitizer): what undefined behaviour turns into depends on the compiler"""
    with tree("gcc"):
        return explore(name + "-gcc", gen, check, **kw)


def confirm(v, r, check, cpu_ms=20000):
    """Replay one violating case alone in a fresh process, twice; the same key must be reported both times."""
    ok = 0
    for _ in range(2):
        with tree((v.case.meta or {}).get("_tree", "asan") if isinstance(v.case.meta, dict) else "asan"):
            rr = run_batch([v.case], cpu_ms)
        if not rr:
            continue
        try:
            vs, _n = check(v.case, rr[0])
        except Exception:
            vs = []
        if any(x.key == v.key for x in vs):
            ok += 1
    return ok == 2


def finish(prop, tier, res, check, rule, t0, exhaustive=True, extra=None, assumptions=None, level="model_checking"):
    """Confirm violations, separate known findings, write evidence and replay files, return the exit code."""
    known = load_known(prop)
    new = []
    knownhit = []
    unrepro = []
    for key in sorted(res.viols):
        e = res.viols[key]
        v, r = e["first"]
        if v.case is not None and not key.startswith("oracle-exception") and not confirm(v, r, check):
            unrepro.append((key, e["count"], v))
            continue
        if key in known:
            knownhit.append((key, e["count"], known[key]))
        else:
            new.append((key, e["count"], v, r))
    outbase = VERIF if build.REPO == "/repo" else build.BUILD   # runs against a scratch copy never touch /verif's evidence
    os.makedirs(os.path.join(outbase, "evidence"), exist_ok=True)
    rdir = os.path.join(outbase, "replays", prop)
    import shutil
    shutil.rmtree(rdir, ignore_errors=True)
    lines = []
    for key, n, desc in knownhit:
        lines.append("KNOWN-FINDING: property=%s %s [%s] (%d case(s) this run)" % (prop, desc, key, n))
    vio_out = []
    for key, n, v, r in new:
        os.makedirs(rdir, exist_ok=True)
        h = hashlib.sha1(key.encode()).hexdigest()[:12]
        path = os.path.join(rdir, h + ".json")
        with open(path, "w") as f:
            json.dump({"property": prop, "key": key, "message": v.msg, "count": n, "case": v.to_json(),
                       "observed": _trim(r, 4000)}, f, indent=1)
        lines.append("VIOLATION property=%s replay=%s" % (prop, path))
        lines.append("  key=%s count=%d :: %s" % (key, n, v.msg[:300]))
        vio_out.append({"key": key, "count": n, "msg": v.msg[:300], "replay": path})
    if unrepro:
        with open(os.path.join(scratch_dir(), "unrepro-%s.json" % prop), "w") as f:
            json.dump([{"key": k, "count": n, "v": v.to_json()} for k, n, v in unrepro], f, indent=1)
    for key, n, v in unrepro:
        lines.append("NOTE: property=%s unreproducible in isolation (ignored): %s x%d" % (prop, key, n))
    cov = {
        "states": res.evaluations,
        "states_note": "every generated case is a distinct (initial state, operation sequence); states counts the executions explored, distinct_outcomes the different observations",
        "transitions": res.transitions,
        "traces_validated_against_impl": res.evaluations,
        "evaluations": res.evaluations,
        "distinct_nontrivial": res.nontrivial,
        "distinct_outcomes": len(res.digests),
        "rule": rule,
        "samples": res.samples[:6] or [{"note": "no sample captured"}],
        "exhaustive": bool(exhaustive and not res.capped),
        "capped": res.capped,
        "parts": res.parts,
        "known_findings_met": [{"key": k, "count": n} for k, n, _ in knownhit],
        "violations": vio_out,
        "unreproducible": [{"key": k, "count": n} for k, n, _ in unrepro],
    }
    if extra:
        cov.update(extra)
    ev = {
        "property_id": prop, "tier": tier, "seed": SEED, "level": level, "coverage": cov,
        "assumptions": assumptions or [], "wall_s": round(time.time() - t0, 2), "violations": len(new),
    }
    with open(os.path.join(outbase, "evidence", prop + ".json"), "w") as f:
        json.dump(ev, f, indent=1)
    for l in lines:
        print(l)
    print("%s %s: %d cases, %d distinct outcomes, %d nontrivial, %d known finding key(s), %d new violation key(s), exhaustive=%s, %.1fs" % (
        prop, tier, res.evaluations, len(res.digests), res.nontrivial, len(knownhit), len(new), cov["exhaustive"], time.time() - t0))
    sys.stdout.flush()
    return 1 if new else 0
